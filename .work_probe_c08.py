import io, json, traceback
from hed import load_schema_version
from hed.models.sidecar import Sidecar
schema = load_schema_version("8.3.0")
def t(doc):
    txt = json.dumps(doc)
    try:
        iss = Sidecar(io.StringIO(txt)).validate(schema)
        print(txt, "->", [(i['code'], i.get('severity'), i.get('ec_sidecarColumnName'), i.get('ec_sidecarKeyName')) for i in iss])
    except Exception as ex:
        tb = traceback.extract_tb(ex.__traceback__)[-1]
        print(txt, "-> RAISES", type(ex).__name__, ex, "@", tb.filename.split('/repo/')[-1], tb.lineno)
for d in [{"TaskName": "rest"}, {"a": [1]}, {"a": 3}, {"a": None}, {"colA": {"HED": "{colB}, Blue"}}, "Red", 3, ["a"], None, True, {},
          {"colA": {"HED": {"x": "Red", "y": "Blue"}}},
          {"colA": {"HED": "Age/#"}},
          {"colA": {"HED": "Red"}},
          {"colA": {"HED": "Age/#, Item-count/#"}},
          {"colA": {"HED": {"x": "Age/#", "y": "Blue"}}},
          {"colA": {"HED": {"x": 3, "y": "Blue"}}},
          {"colA": {"HED": {"x": ["Red"], "y": "Blue"}}},
          {"colA": {"HED": {"x": None, "y": "Blue"}}},
          {"colA": {"HED": {"x": {"z":"Red"}, "y": "Blue"}}},
          {"colA": {"HED": {"x": "", "y": "Blue"}}},
          {"colA": {"HED": 3}}, {"colA": {"HED": None}}, {"colA": {"HED": ["Red"]}}, {"colA": {"HED": True}}, {"colA": {"HED": ""}}, {"colA": {"HED": {}}},
          {"HED": {"HED": "Age/#"}}, {"HED": "x"},
          {"colA": {"HED": {"n/a": "Red", "y": "Blue"}}},
          {"colA": {"Levels": {"HED": "Red"}}},
          {"colA": {"HED": {"x": "{colB}, Red", "y": "Blue"}}, "colB": {"HED": "Age/#"}},
          {"colA": {"HED": {"x": "{colB, Red", "y": "Blue"}}, "colB": {"HED": "Age/#"}},
          {"colA": {"HED": {"x": "{colA}, Red", "y": "Blue"}}},
          {"colA": {"HED": {"x": "{colB}, Red", "y": "Blue"}}, "colB": {"HED": "{HED}, Age/#"}},
          {"colA": {"HED": {"x": "{colB}, Red", "y": "Blue"}}, "colB": {"Description": "x"}},
          {"colA": {"HED": {"x": "{colB}, Red", "y": "Blue"}}},
          {"colA": {"HED": {"x": "{HED}, Red", "y": "Blue"}}},
          {"colA": {"HED": "{colB}, Age/#"}},
          ]:
    t(d)
