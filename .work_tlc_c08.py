import sys, time
from vf import tlc
mod, cfg = sys.argv[1], sys.argv[2]
w = int(sys.argv[3]) if len(sys.argv) > 3 else 8
try:
    r = tlc.run(mod, cfg, workers=w, coverage=("cov" in sys.argv), timeout=900)
except tlc.TLCFailure as e:
    print(str(e)[-3000:]); sys.exit(2)
print("distinct", r.distinct, "generated", r.generated, "wall", round(r.wall,1), "violated", r.violated, "emitted", len(r.json_lines))
if r.violated:
    for a, s in r.trace: print(a); print(s)
if "cov" in sys.argv:
    print({k: v for k, v in r.coverage.items() if k.startswith("Inj") or k in ("Init","Next")})
if r.json_lines:
    import json, collections
    print(collections.Counter((j["cls"], j["why"]) for j in r.json_lines))
    print(collections.Counter(tuple(j["broken"]) for j in r.json_lines if j["cls"]=="one-fault"))
    for j in r.json_lines[:3]: print(json.dumps(j))
