#!/bin/sh
# run every registered quick check with several seeds; print one line per run
cd "$(dirname "$0")/.."
ids=$(/venv/bin/python -c "import json; print(' '.join(c['property_id'] for c in json.load(open('MANIFEST.json'))['checks']))")
for s in ${SEEDS:-1 2 3}; do
  for id in ${IDS:-$ids}; do
    out=$(VERIF_SEED=$s ./check $id --tier quick 2>&1); rc=$?
    echo "seed=$s $id rc=$rc $(echo "$out" | grep -c '^VIOLATION') violations; $(echo "$out" | tail -1)"
    if [ $rc -ne 0 ]; then echo "$out" | grep -A1 '^VIOLATION\|MACHINERY' | head -8; fi
  done
done
