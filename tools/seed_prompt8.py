#!/venv/bin/python
"""Round 8: as seed_prompt2.py, plus one-line titles of the changes earlier seeders produced (so that new ones differ in kind).
Contains nothing of the verification machinery."""
import json, sys
pid = sys.argv[1]
p = [json.loads(l) for l in open('/verif/properties.jsonl') if json.loads(l)['id'] == pid][0]
w = "/tmp/seedwork8/%s" % pid
import glob, re
tried = []
for d in sorted(glob.glob("/verif/seeded/%s?" % pid)):
    m = json.load(open(d + "/meta.json"))
    t = [x for x in m["needs_to_manifest"].strip().splitlines() if x.strip()]
    title = re.sub(r"^#+\s*(%s\s*)?(seeded\s*)?[Cc]hange\s*\d\s*[-:]*\s*" % pid, "", t[0]).strip() if t else ""
    files = re.findall(r"^diff --git a/(\S+)", open(d + "/patch.diff").read(), re.M)
    tried.append("  - %s  (%s)" % (title[:170], ", ".join(files)))
tried = "\n".join(tried)
print(f"""You are stress-testing how robust a stated software property is against subtle regressions in a Python library.

Work ONLY inside your scratch git worktree {w} (a checkout of the library hed-python; the package is `hed`). Run Python as
    cd {w} && PYTHONPATH={w} /venv/bin/python ...
so that YOUR worktree's code is imported (verify once: `PYTHONPATH={w} /venv/bin/python -c "import hed; print(hed.__file__)"` must print a path under {w}). There is no network. Do NOT read, list or use anything under /verif or /root/.vp, and do not modify /repo or other directories under /tmp/seedwork.

The property (one record of the project's property list):
{json.dumps(p, indent=1)}

Task: produce up to TWO different source changes to the library (files under {w}/hed only - not tests, not data), each of which
 (1) BREAKS the property: some input / history / schedule / crash point inside the property's quantifier now violates its statement;
 (2) still imports and PASSES the existing test-suite: run at least the test files covering the code you touched, e.g.
     cd {w} && PYTHONPATH={w} /venv/bin/python -m pytest -q -p no:cacheprovider tests/<area>   (also spec_tests/ if relevant)
     A test that already fails WITHOUT your change does not count against you (check by saving your diff to a file, `git checkout -- .`, running the test, then `git apply` your diff again; do NOT use `git stash`: the stash is shared with other worktrees of this repository);
 (3) is REALISTIC: the kind of slip a maintainer makes in a refactoring or an "optimisation" (an off-by-one, a dropped special case, a changed default, a cached value that is not invalidated, a comparison done on the wrong representation, a missing copy, two steps swapped, an exception swallowed), NOT sabotage that ordinary use would expose at once. It should need something specific to manifest: a particular interleaving or crash point, a multi-step sequence of operations on one object, an unusual but legal input, a particular combination of options, or two cooperating sites that each look fine alone. Prefer changes far from what the existing tests assert.

For each change N (1, 2) write into the directory {w}_out/ (create it):
  patchN.diff  - `git diff` of the worktree against its HEAD (must apply cleanly to HEAD with `git apply`);
  demoN.py     - a small standalone program using the library's public API that exits 0 when the property holds in its scenario and exits 1 (printing what went wrong) when it is violated; it MUST exit 1 with your change applied and 0 without it (check both; run it as `PYTHONPATH={w} /venv/bin/python {w}_out/demoN.py`);
  noteN.md     - which clause of the property is broken, what exactly is needed for it to manifest, which tests you ran and their result.
Reset the worktree (`git checkout -- .`) between the changes so that each patch is independent, and leave the worktree reset at the end.
Avoid the most obvious candidates (deleting a whole check, flipping a comparison that every second test exercises): look for places where two pieces of code must agree (a writer and a reader, a validation path and a conversion path, a cache and its invalidation, a sort key and an equality, a label and the row it came from) and break the agreement on a narrow class of inputs, or for per-object / per-process state that survives between calls.
Earlier testers already produced the following changes for this property; yours must be DIFFERENT in kind - a different
function (preferably a different file), a different clause of the statement, a different mechanism (if those were caches, look at
boundaries, error paths, defaults, ordering, type/dtype handling, empty or one-element inputs, options that are rarely combined):
{tried}
Final message: the files written and one short paragraph per change. If you cannot find a second change, one is fine.""")
