#!/bin/sh
# run the thorough tier of the listed (default: all registered) checks; one line per run
cd "$(dirname "$0")/.."
ids=$(/venv/bin/python -c "import json; print(' '.join(c['property_id'] for c in json.load(open('MANIFEST.json'))['checks']))")
for id in ${IDS:-$ids}; do
  s=$(date +%s)
  out=$(./check $id --tier thorough 2>&1); rc=$?
  echo "$id rc=$rc $(( $(date +%s) - s ))s $(echo "$out" | grep -c '^VIOLATION') violations; $(echo "$out" | tail -1)"
  if [ $rc -ne 0 ]; then echo "$out" | grep -A1 '^VIOLATION\|MACHINERY' | head -8; fi
done
