#!/venv/bin/python
"""Confirm a seeded change and run checks against it.

usage: tools/try_seed.py <patch.diff> <demo.py> <check ids, comma separated> [--no-baseline] [--tier quick]
Creates a scratch worktree of /repo HEAD under /tmp/mut, applies the patch, runs the demo with and
without the change, the pinned test-suite (stable_pass comparison) with the change, and the listed
checks with PYTHONPATH pointing at the changed tree.  Removes the worktree afterwards.
"""
import json, os, subprocess, sys, tempfile, shutil
import xml.etree.ElementTree as ET
patch, demo, ids = sys.argv[1], sys.argv[2], sys.argv[3].split(",")
nobase = "--no-baseline" in sys.argv
tier = sys.argv[sys.argv.index("--tier") + 1] if "--tier" in sys.argv else "quick"
name = os.path.basename(os.path.dirname(os.path.abspath(patch))) + "_" + os.path.basename(patch).replace(".diff", "") + os.environ.get("TRY_TAG", "")
wt = "/tmp/mut/" + name
os.makedirs("/tmp/mut", exist_ok=True)
subprocess.run(["git", "-C", "/repo", "worktree", "remove", "--force", wt], stderr=subprocess.DEVNULL)
subprocess.check_call(["git", "-C", "/repo", "worktree", "add", "-q", "--detach", wt, "HEAD"])
res = {"patch": patch}
try:
    env = dict(os.environ, PYTHONPATH=wt, PYTHONWARNINGS="ignore", PYTHONHASHSEED="0", HOME="/tmp/mut/home_" + name)
    os.makedirs(env["HOME"], exist_ok=True)
    r0 = subprocess.run(["/venv/bin/python", demo], cwd=wt, env=env, capture_output=True, text=True, timeout=600)
    res["demo_without"] = r0.returncode
    a = subprocess.run(["git", "-C", wt, "apply", os.path.abspath(patch)], capture_output=True, text=True)
    res["applies"] = a.returncode == 0
    if not res["applies"]:
        print(json.dumps(res), a.stderr[-300:]); sys.exit(2)
    r1 = subprocess.run(["/venv/bin/python", demo], cwd=wt, env=env, capture_output=True, text=True, timeout=600)
    res["demo_with"] = r1.returncode
    res["demo_msg"] = (r1.stdout + r1.stderr)[-300:]
    if not nobase:
        base = json.load(open("/root/.vp/BASELINE.json"))
        out = tempfile.mktemp(suffix=".xml")
        cmd = base["cmd"].replace("cd /repo", "cd " + wt).replace("<file>", out)
        p = subprocess.run(cmd, shell=True, env={k: v for k, v in env.items() if k != "HED_PYTHON_VERIF"}, capture_output=True, text=True)
        passed = set()
        for tc in ET.parse(out).getroot().iter("testcase"):
            if not any(c.tag in ("failure", "error", "skipped") for c in tc):
                passed.add("%s::%s" % (tc.get("classname"), tc.get("name")))
        os.remove(out)
        missing = [t for t in base["stable_pass"] if t not in passed]
        res["baseline_missing"] = missing[:10]
    for cid in ids:
        if not cid:
            continue
        e2 = dict(os.environ, PYTHONPATH=wt)
        p = subprocess.run(["./check", cid, "--tier", tier], cwd="/verif", env=e2, capture_output=True, text=True, timeout=3600)
        viol = [l for l in p.stdout.splitlines() if l.startswith("VIOLATION")]
        first = ""
        lines = p.stdout.splitlines()
        for i, l in enumerate(lines):
            if l.startswith("VIOLATION") and i + 1 < len(lines):
                first = lines[i + 1].strip()[:300]
                break
        res["check_" + cid] = {"rc": p.returncode, "violations": len(viol), "first": first, "tail": lines[-1][:200] if lines else ""}
finally:
    subprocess.run(["git", "-C", "/repo", "worktree", "remove", "--force", wt])
    shutil.rmtree("/tmp/mut/home_" + name, ignore_errors=True)
print(json.dumps(res, indent=1))
