#!/venv/bin/python
"""Regenerate /verif/MANIFEST.json from the table below (single source of truth)."""
import json, os
V = os.path.dirname(os.path.dirname(os.path.abspath(__file__)))
CHECKS = {
 "C19": dict(
   text="TLC checks Cache.tla (3 processes x 2 files x 2 chunks x 2 crashes, all interleavings at file-operation granularity) for NoFailedLoad, MutualExclusion, NoTornFinal, FinishedPopulationComplete, TimeoutGivesCacheError (+ liveness in thorough) and rejects the three defective designs; TLC behaviours are replayed step by step on real processes (scheduler pauses each process before every file/lock operation, SIGKILL = crash, directory projected after every step) and every recorded run, including seeded random schedules, is validated against the spec by TLC (Trace_Cache)",
   note="Python-level interposition of file operations (os/shutil/portalocker/CacheLock); bounded constants; network modelled as unavailable; lock timeout shortened inside children",
   technique="TLA+ spec + TLC model checking; schedule replay into real processes; TLC trace validation"),
 "C10": dict(
   text="TLC proves the validator's scope algorithm equal to the declarative statement of the property for all marker histories <= 5 (1.0M states); every history <= 3 (quick) / <= 4 plus simulated deeper ones (thorough) is realised as an events file (single row, equal-onset rows, Delay-shifted groups, case variants), validated by the real TabularInput.validate, and the per-marker verdicts plus an observable probe of the open-scope set are validated by TLC against Temporal.tla (order inside a time point left to TLC)",
   note="bounded history length and 3 definition names; issue-to-marker attribution via the issue's source tag",
   technique="TLA+ spec + TLC model checking; exhaustive history replay; TLC trace validation"),
 "C20": dict(
   text="TLC proves the incremental context computation equal to the declarative one (processes with start < t < end) for all histories with <= 4 time points and <= 4 process actions over Onset/Offset of 2 names and Duration groups (253k states); every history in bounds (T=3,A=3 quick; T=4,A=4 thorough) is realised as a valid events file (unit spellings, Delay-shifted groups, equal-onset rows, plain tags) and run through the real EventManager: started processes, context, residual annotation and process end indices are compared with the values TLC emitted; unordered files must be rejected",
   note="bounded histories; times are integer ms; process identity by unique tags; follower entries of an equal-onset time point are compared leniently (see DESIGN.md)",
   technique="TLA+ spec + TLC model checking; exhaustive behaviour replay with TLC-computed expected state"),
 "C09": dict(
   text="TLC checks the expand/shrink/copy/validate object machine of Defs.tla (3 objects, 6 operations; WellNested, ExpandAll, ShrinkAll, NoAlias) and shows that the machine with unmaintained expansion flags (the code as found) violates it; every operation sequence TLC reaches (<=4 ops on <=2 objects quick, <=5 on <=3 thorough) is replayed on real HedString objects over 4 skeletons x 5 definition uses with the printed tree compared after every step (and column-wise through df_util); the acceptance table (1584 definition shapes) and the Def-expand variant table (264 variants: all sibling orders x 6 alterations) computed by TLC are replayed through DefinitionDict.check_for_definitions and HedString.validate",
   note="bounded op sequences; printed trees compared up to sibling order/case by an independent parser; concretisation uses HED 8.3.0",
   technique="TLA+ spec + TLC model checking; behaviour replay with per-step state comparison; TLC-computed decision tables replayed"),
 "C12": dict(
   text="TLC checks the context/decoration machine of Issues.tla along HedValidator.validate (SuffixOnce, FilterOnlyErrors, PhaseGate; warnings on/off) and shows the re-decorating call path (code as found) violates SuffixOnce; issue lists recorded from the string (caller's handler with the string in context, and default handler), sidecar and table entry points, each run with warnings on and off, shuffled through sort_issues and exported through replace_tag_references, are validated clause by clause by TLC (fields, offsets inside text and tag span, offsets select the quoted fragment, suffix exactly once, errors-only = error subset, stable sort order, codes unchanged by export): 600 runs quick, 6000 thorough",
   note="texts limited to Latin-1 (TLC strings); tag span = any occurrence of the source tag's spelling in the validated text; dataset entry point exercised in C16",
   technique="TLA+ spec + TLC model checking; TLC trace validation of recorded issue lists"),
 "C03": dict(
   text="TLC checks SchemaTree.tla in model mode (left-to-right walk == declarative longest-prefix resolution; every suffix form of every node resolves to it with or without an extension; long/short forms mutually inverse) for ALL labelled trees up to 3 (quick) / 4 (thorough) nodes and all spellings of <= 3 terms; in trace mode the real tree of each bundled schema (independent XML reader) is a TLC constant: TLC first verifies the suffix-form table against the tree, then validates every lookup the real code answered (existence, node, remainder kept verbatim, short/long/base forms with namespace, long(short)/short(long)/idempotence, bulk df conversion) for every tag x suffix spelling x case x remainder x namespace (thorough: all ~10^5 per schema family; quick: rotating hashed sample of ~25k)",
   note="terms split at '/' and case-folded by the harness; generated (non-bundled) schemas are covered by the model-mode run only",
   technique="TLA+ spec + TLC model checking; TLC trace validation at vocabulary scale"),
 "C11": dict(
   text="TLC checks Units.tla in model mode (a unit text selects one factor per class; symbols matched on the text exactly as written) and, in trace mode, takes the unit and modifier sections of each bundled schema (independent XML reader) as constants and validates every verdict of the real code: acceptance vs UNITS_INVALID for every value-taking tag with unit classes x every unit (name spellings in 4 letter cases, singular/plural; symbols exact and in wrong case) x permitted and non-permitted SI modifiers x right/wrong side of the number x foreign-class and junk units x 9 numeric literals; bare numbers draw only the missing-unit warning; conversion defined iff accepted and a factor is declared, never an exception, and the factor is one the text selects (quick: 3 schemas ~11k events; thorough: all 11 schemas, all 41 modifiers, ~119k events)",
   note="value = n x factor and linearity are compared by the driver with exact rationals (TLC has no reals); plural table hand-written; '^' in factors read as 'e'; folding by the harness",
   technique="TLA+ spec + TLC model checking; TLC trace validation at vocabulary scale"),
 "C01": dict(
   text="HedRules.tla gives, for an abstract annotation tree (groups + 10 tag kinds) and text damage, the set of rule instances it violates, phase by phase (text checks, per-tag checks, group/whole-string checks incl. tag-group/top-level placement, Delay pairing, unique, repeated tag/group up to order, Onset/Inset/Offset and Duration/Delay group shape). TLC enumerates every tree <= 3 nodes x 4 text damages (7880; <= 4 nodes = 130k in thorough) plus deep trees <= 6 nodes sampled by simulating the growth grammar, with their verdicts; each is concretised for all 11 bundled schemas by rotation over the whole vocabulary (all plain tags x spellings, all value-taking tags, 12 per-tag flaw kinds) and validated by the real code with placeholders allowed and disallowed: clean => no error; exactly one violated rule instance => its specification code is reported",
   note="bounded tree size; Definition groups and Def-expand alteration are decided in C09; multi-violation trees compared for information only",
   technique="TLA+ spec + TLC enumeration/simulation; exhaustive case replay at vocabulary scale"),
 "C04": dict(
   text="TLC checks on HedRewrite.tla that the verdict of HedRules.tla is invariant under exchanging sibling leaves and exchanging a leaf with a sibling group for every tree <= 4 nodes (respelling/respacing are identity on the model); every tree TLC enumerates (<= 3 nodes quick / <= 4 thorough, valid and invalid), deep simulated trees <= 6 nodes and simulated trees <= 9 nodes containing a duplicated non-trivial group (DupSubtree action) are rendered per bundled schema as base + 11 rewrites (2 respellings, lower/upper/mixed case, blank padding, 3 sibling reorderings at every level, combined) and the real validator must return the same multiset of error codes for all, and TAG_EXPRESSION_REPEATED for every rendering of a duplicated group",
   note="bounded tree size; values/units kept verbatim; quick validates a rotating quarter of (tree, schema) pairs",
   technique="TLA+ spec + TLC model checking (parameterised INSTANCE); metamorphic replay of TLC-generated trees"),
 "C13": dict(
   text="TLC computes on Namespaces.tla the accept/refuse verdict of every version list (<= 2 entries quick, <= 3 thorough) over 7 partnered versions x 4 prefixes from facts read out of the XML files (withStandard, library-specific tag names) and checks RefuseTwice/RefuseClash/DispatchTotal; load_schema_version is replayed on each list (accept vs documented HedFileError, prefixes answered). Annotation trees from HedRules.tla (exhaustive <= 3 nodes + deep simulated) are validated prefixed against 5 schema groups and unprefixed against the prefix's schema alone - error multisets must agree for every prefix incl. the empty one; unknown / non-alphabetic prefixes must yield TAG_NAMESPACE_PREFIX_INVALID; every partnered library is compared tag by tag with its standard partner (independent XML reader)",
   note="unknown version numbers are not enumerated (network); bounded list length and tree size",
   technique="TLA+ spec + TLC decision table; differential replay of TLC-generated annotations"),
 "C06": dict(
   text="Assemble.tla defines, for a template tree (2 tag tokens, groups, references {A} {B}) in a categorical or value host column, a referenced column A that is categorical / value / the HED column, and every combination of cell states (ok, n/a, unknown key, empty), which template nodes survive and which columns are listed separately; TLC checks NoEmptyGroup, ParentsSurvive, NotListedTwice on every template <= 3 nodes (<= 4 thorough, plus simulated templates <= 6 nodes) and emits the prescribed rows; each case becomes a real sidecar + events table (16-24 rows, random column order and spacing) run through TabularInput series_a / dataframe_a / assemble twice: rows compared as trees, delimiter well-formedness, repeatability, table (values, columns, dtypes) and sidecar unchanged",
   note="bounded template size; rows compared up to sibling order; unknown category keys treated like n/a",
   technique="TLA+ spec + TLC model checking; exhaustive case replay with TLC-computed expected rows"),
 "C15": dict(
   text="Query.tla models the search result-set semantics of query_expressions.py (ordered <<group, children>> results, upward propagation, merge by identity, Or duplicate filter, negation, [ ], { }, {:}, wildcards, quote/star/path term modes) and the query tokenizer + parser (pushdown automaton and recursive descent, strict and lenient); TLC checks OrIff, AndOnlyIfBoth, AndSymmetric, AndAssociative, AndDistinctTags, SiblingOrderInvariant on all annotation trees in bounds, PDAEqualsRD and UnbalancedRejected on all token strings <= 4 (5 thorough), with sensitivity and vacuity runs; every emitted (annotation, query, boolean) and every query text is replayed on the real QueryHandler over TLC-validated families of real 8.3.0 tags; laws, repeatability, no-mutation and sibling-order invariance are re-checked on the code; deep random tuples are judged by TLC in trace mode",
   note="built by a sub-agent under the same brief; only clauses of the statement gate a violation, other model/code disagreements are reported as spec drift",
   technique="TLA+ spec + TLC model checking; exhaustive behaviour replay; TLC trace validation"),
 "C18": dict(
   text="Backup.tla models the data tree, backup copies and backup_lock.json at file-system-step granularity (mkdir, copy open/chunks/metadata, lock open/write pieces/close), Crash at every step, Reopen (= constructing BackupManager: omits / raises / lists), modify, delete, damage, restore[tasks], remodel, create-again; TLC checks NeverHalfValid, NoOverwrite, RestoreIdentity, RestoreTasksOnlyThose, RemodelFromOriginals, RemodelIdempotent etc. and rejects three defective designs (record first, overwrite, read live); every crash prefix of the real create_backup I/O sequence (child process stepped by Python-level FS shims, SIGKILL) followed by a fresh BackupManager, TLC histories through the real CLIs and seeded random runs are compared step by step with the spec state (bytes hashed) and validated by Trace_Backup",
   note="built by a sub-agent under the same brief; Python-level interposition of file operations; bounded trees (<= 3 files exhaustively, 5 random)",
   technique="TLA+ spec + TLC model checking; crash-point enumeration on real processes; TLC trace validation"),
 "C07": dict(
   text="FileCheck.tla prescribes, for a table over abstract cells (HED column: 2 valid tags, failing cell, n/a, unmatched Offset, Delay/Duration group; categorical column: 2 categories, failing category, n/a, unknown key), with or without an onset column, distinct onsets in any order and n/a onsets, the multiset of <<code, file row, column>>; TLC checks ShuffleLaw and LabelsTrue on all tables <= 2 rows and emits them (3-row tables by simulation); each is concretised (rotating tags, 8 kinds of failing cell incl. bad Delay values, 6 Delay/Duration unit spellings) and run through TabularInput.validate: never raises, errors equal the prescription with row/column labels (extra errors allowed only on rows with a failing cell), rows with clean cells equal real string-level validation of the assembled row, and every row permutation yields the same issues with labels following the rows plus exactly one out-of-order warning",
   note="distinct onsets only (equal-onset merging is covered by C10/C20); bounded table size; 8.3.0 vocabulary",
   technique="TLA+ spec + TLC model checking; exhaustive table replay; differential against string-level validation"),
 "C02": dict(
   text="HedText.tla holds the declarative definition (maximal non-delimiter runs trimmed of blanks, python-style spans, balance, matching parentheses, tree shape, printing) next to the step-wise algorithm of split_hed_string / split_into_groups (one action per character / token, both ValueError exits); TLC proves Tiling, TokenClasses, AlgoMatchesDecl, TagSlices, RejectIffUnbalanced, UnbalancedEmpty, TreeMatchesDecl, GroupSpans, RoundTrip, PrintStable for ALL texts up to length 6 (7 thorough; 0.74M / 6.4M states), rejects five broken variants, and emits every text <= 6 (8 thorough: 2.0M) with its expected spans / nesting / prints, replayed on the real HedString (spans, slices, groups, parents, str, re-parse of original/short/long prints; unbalanced => empty tree and PARENTHESES_MISMATCH), also with 't' runs concretised by real 8.3.0 tag spellings; hypothesis-generated Unicode texts (never raises) are abstracted and judged by TLC in trace mode",
   note="built by a sub-agent under the same brief; blank = U+0020 (as the tokenizer and the statement's alphabet); exact print text beyond re-parse equality is spec drift only",
   technique="TLA+ spec + TLC model checking (algorithm == definition for all short strings); exhaustive replay; TLC trace validation"),
 "C14": dict(
   text="Compliance.tla holds the rule table Expected(fault kind, section, placeholder, generation) -> (specification code, severity) for 14 fault kinds; TLC checks Deterministic, SpecCodesOnly, WarningsOffOnlyErrors on all 1344 (fault, feature vector) pairs, Covered / DomainsClean on the facts of every bundled schema (independent XML reader) and that two broken tables violate Deterministic; every bundled standard and partnered schema must pass check_compliance without error; every fault kind is seeded at every position of 11 schema variants (XML edited by ElementTree, thousands of disjoint seeds per reload; 98k seeded cases quick, 376k thorough), check_compliance run with warnings on/off, issues attributed to positions through the context fields and judged by TLC in trace mode",
   note="built by a sub-agent under the same brief; seeding is XML only; specification codes transcribed from error_types.py / known_error_codes.py (Appendix B not available offline); changed-hedId exercised through re-labelled version pairs in a private cache",
   technique="TLA+ decision table + TLC; fault seeding at vocabulary scale; TLC trace validation"),
 "C17": dict(
   text="Remodel.tla gives the 8 non-summary operations as functions of (parameters, table) from their documented meaning (ok table / documented error / undefined), the remodeler's validation as a predicate over the JSON specification (14 structural fault kinds + per-operation rules) and a dispatcher with persistent operation objects; TLC checks ParamsConstant, InputUnchanged, OrderIndependent, InvalidNeverExecutes, ValidImpliesRuns, ResultsWellFormed and rejects two leaky variants; every emitted case (op list with all flag settings / omitted optionals, 1-3 tables, processing order, expected table per step; 13k quick, 103k thorough) is replayed through RemodelerValidator and ONE Dispatcher per case (DataFrame and file paths), comparing results as text (n/a kept distinct from NaN), input frame / file bytes, ops JSON and operation attributes after every step; invalid lists go through run_remodel.main (must refuse, files untouched); seeded deeper runs are recorded and judged by TLC (Trace_Remodel)",
   note="built by a sub-agent under the same brief; readings more detailed than the documentation are flagged and only counted as spec drift; op-list space: all single ops x all tables, pairs from a pool, selected triples",
   technique="TLA+ spec + TLC model checking; exhaustive case replay; TLC trace validation"),
 "C08": dict(
   text="SidecarRules.tla models JSON documents (scalars of 9 kinds, lists, objects; depth <= 3 with a node budget), the code's column typing and the nine structural rules of the statement as predicates with places; TLC checks Total, TypingSound, GrammarBound, BaseClean, FaultExact (one injection breaks exactly its rule), FaultCode, FaultStays, and that dropping a rule violates FaultExact (3 sensitivity runs); every emitted document (72k grammar documents + injected faults over 433 clean bases; 56k replayed in quick, 215k thorough) is rendered with real 8.3.0 tags and run through Sidecar(...).validate: never raises; clean => no error; one-fault => an error with the rule's code",
   note="built by a sub-agent under the same brief; codes for the HED-entry-type rule are an accepted set (the statement names none); reported column/key compared as drift only",
   technique="TLA+ spec + TLC model checking; exhaustive document replay with TLC-computed verdict classes"),
}
ALL = ["C%02d" % i for i in range(1, 21)]
m = {
 "version": 1,
 "setup_cmd": "./setup.sh",
 "hooks": {
  "guard": "HED_PYTHON_VERIF",
  "enable": "no in-repo hooks: instrumentation is installed by the harness at run time (wrappers inside the check process / forked children); ./check exports HED_PYTHON_VERIF=1 for uniformity",
  "baseline_off_cmd": "cd /repo && /venv/bin/python -m pytest -ra -q -p no:cacheprovider --timeout=900 --continue-on-collection-errors",
  "source_commits": [],
  "add_only": True},
 "engines": [{"name": "tlc+replay", "path": "vf/tlc.py", "serves_properties": sorted(CHECKS),
              "kind_free_text": "TLC 1.8 model checking of specs/*.tla; TLC-generated behaviours/cases replayed into the real code; recorded runs validated against the spec by TLC"}],
 "checks": [],
 "not_applicable": [],
 "notes": "see DESIGN.md; known_findings.json lists repaired (fixed:) and known findings",
}
for pid in sorted(CHECKS):
    c = CHECKS[pid]
    m["checks"].append({
        "property_id": pid, "quick_cmd": "./check %s --tier quick" % pid, "thorough_cmd": "./check %s --tier thorough" % pid,
        "evidence_file": "evidence/%s.json" % pid, "replay_cmd_template": "./check %s --replay {path}" % pid,
        "engine": "tlc+replay",
        "level_claimed": {"category": "model_checking", "text": c["text"], "design_ref": "DESIGN.md section 3, " + pid},
        "level_note": c["note"], "technique": c["technique"]})
for pid in ALL:
    if pid not in CHECKS:
        m["not_applicable"].append({"property_id": pid, "reason": "not claimed yet: the TLA+ specification and conformance harness for this property are still under construction (see DESIGN.md section 8 build order)"})
json.dump(m, open(os.path.join(V, "MANIFEST.json"), "w"), indent=1)
import jsonschema
jsonschema.validate(m, json.load(open("/root/.vp/MANIFEST.schema.json")))
print("MANIFEST ok:", sorted(CHECKS))
