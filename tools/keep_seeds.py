#!/venv/bin/python
"""Confirm every seeded change under /tmp/seedwork/*_out and keep the confirmed ones in /verif/seeded/<id><n>/.

For each: patch applies to /repo HEAD; demo exits 0 without and 1 with the change; the pinned suite's stable_pass set still
passes with the change; the property's check (quick tier) is run against the changed tree.  meta.json records all of it.
"""
import glob, json, os, shutil, subprocess, sys
from concurrent.futures import ThreadPoolExecutor
props = {json.loads(l)["id"]: json.loads(l) for l in open("/verif/properties.jsonl")}
jobs = []
for d in sorted(glob.glob(os.environ.get("SEEDROOT", "/tmp/seedwork") + "/C*_out")):
    pid = os.path.basename(d)[:3]
    for n in (1, 2):
        if os.path.exists("%s/patch%d.diff" % (d, n)) and os.path.exists("%s/demo%d.py" % (d, n)):
            jobs.append((pid, n, d))
only = sys.argv[1:]
if only:
    jobs = [j for j in jobs if j[0] in only]

def one(job):
    pid, n, d = job
    out = subprocess.run(["/verif/tools/try_seed.py", "%s/patch%d.diff" % (d, n), "%s/demo%d.py" % (d, n), pid],
                         capture_output=True, text=True, timeout=7200).stdout
    try:
        res = json.loads(out[out.index("{"):])
    except Exception:
        return pid, n, {"error": out[-400:]}
    return pid, n, res

with ThreadPoolExecutor(4) as ex:
    results = list(ex.map(one, jobs))
for (pid, n, res), (_, _, d) in zip(results, jobs):
    ok = res.get("applies") and res.get("demo_without") == 0 and res.get("demo_with") == 1 and not res.get("baseline_missing")
    chk = res.get("check_" + pid, {})
    print(pid, n, "confirmed" if ok else "NOT-CONFIRMED", "caught" if chk.get("rc") == 1 else "missed(rc=%s)" % chk.get("rc"), (res.get("baseline_missing") or "")[:3] if not ok else "")
    if not ok:
        continue
    dst = "/verif/seeded/%s%s" % (pid, os.environ.get("SEEDLETTERS", "ab")[n - 1])
    os.makedirs(dst, exist_ok=True)
    shutil.copy("%s/patch%d.diff" % (d, n), dst + "/patch.diff")
    shutil.copy("%s/demo%d.py" % (d, n), dst + "/demo.py")
    note = open("%s/note%d.md" % (d, n)).read() if os.path.exists("%s/note%d.md" % (d, n)) else ""
    meta = {"id": "%s%s" % (pid, os.environ.get("SEEDLETTERS", "ab")[n - 1]), "property": pid, "title": props[pid]["title"],
            "needs_to_manifest": note[:1500],
            "origin": "independent sub-agent given only the property record and a scratch worktree (tools/seed_prompt.py)",
            "confirmed": {"patch_applies_to_repo_head": True, "demo_exit_without_change": 0, "demo_exit_with_change": 1,
                          "pinned_suite_stable_pass_missing_with_change": []},
            "what_i_ran": ["tools/try_seed.py patch.diff demo.py %s   (scratch worktree of /repo HEAD under /tmp/mut, removed afterwards)" % pid,
                           "apply to /repo: git -C /repo apply /verif/seeded/%s%s/patch.diff ; ./check %s ; git -C /repo checkout -- ." % (pid, os.environ.get("SEEDLETTERS", "ab")[n - 1], pid)],
            "check_result": {"check": pid, "tier": "quick", "exit": chk.get("rc"), "violations": chk.get("violations"),
                             "first_violation": chk.get("first")}}
    json.dump(meta, open(dst + "/meta.json", "w"), indent=1)
