#!/venv/bin/python
"""Run the repository's pinned suite (guard off) and compare with /root/.vp/BASELINE.json stable_pass."""
import json, os, subprocess, sys, tempfile
import xml.etree.ElementTree as ET
base = json.load(open("/root/.vp/BASELINE.json"))
out = tempfile.mktemp(suffix=".xml", dir="/verif/.work" if os.path.isdir("/verif/.work") else None)
env = {k: v for k, v in os.environ.items() if k != "HED_PYTHON_VERIF"}
cmd = base["cmd"].replace("<file>", out)
extra = " -n 8" if "--fast" in sys.argv else ""
p = subprocess.run(cmd + extra, shell=True, env=env, stdout=subprocess.PIPE, stderr=subprocess.STDOUT, text=True)
print("\n".join(p.stdout.splitlines()[-5:]))
passed = set()
for tc in ET.parse(out).getroot().iter("testcase"):
    if not any(c.tag in ("failure", "error", "skipped") for c in tc):
        passed.add("%s::%s" % (tc.get("classname"), tc.get("name")))
os.remove(out)
missing = [t for t in base["stable_pass"] if t not in passed]
print("stable_pass=%d passed_now=%d missing=%d" % (len(base["stable_pass"]), len(passed), len(missing)))
for t in missing[:40]:
    print("  NOT PASSING:", t)
sys.exit(1 if missing else 0)
