"""INDEPENDENT reader of the bundled schema XML files (xml.etree only, no `hed` import).

It is the only source of schema knowledge for concretisers and for the constants
handed to TLC, so that expected verdicts never come from hed-python itself.
"""
import functools
import os
import re
import xml.etree.ElementTree as ET

REPO = os.environ.get("VERIF_REPO", "/repo")
DATA = os.path.join(REPO, "hed", "schema", "schema_data")


def bundled():
    """[(version string as accepted by load_schema_version, path)] for every bundled XML."""
    out = []
    for n in sorted(os.listdir(DATA)):
        m = re.match(r"^HED(?:_([a-z0-9]+)_)?(\d+\.\d+\.\d+)\.xml$", n)
        if m:
            out.append(((m.group(1) + "_" if m.group(1) else "") + m.group(2), os.path.join(DATA, n)))
    return out


def _attrs(el, tag="attribute"):
    d = {}
    for a in el.findall(tag):
        name = a.findtext("name")
        vals = [v.text or "" for v in a.findall("value")]
        if name in d and d[name] is not True:
            d[name] = d[name] + vals
        else:
            d[name] = vals if vals else True
    return d


class Facts:
    def __init__(self, path):
        self.path = path
        root = ET.parse(path).getroot()
        self.header = dict(root.attrib)
        self.version = root.get("version")
        self.library = root.get("library", "")
        self.with_standard = root.get("withStandard", "")
        self.unmerged = root.get("unmerged", "")
        self.prologue = root.findtext("prologue") or ""
        self.epilogue = root.findtext("epilogue") or ""
        # --- attribute / property definitions
        self.attr_defs = {}
        sec = root.find("schemaAttributeDefinitions")
        for a in (sec.findall("schemaAttributeDefinition") if sec is not None else []):
            self.attr_defs[a.findtext("name")] = {"props": _attrs(a, "property"), "desc": a.findtext("description") or ""}
        self.prop_defs = {}
        sec = root.find("propertyDefinitions")
        for a in (sec.findall("propertyDefinition") if sec is not None else []):
            self.prop_defs[a.findtext("name")] = {"props": _attrs(a, "property"), "desc": a.findtext("description") or ""}
        self.is83 = "annotationProperty" in self.prop_defs
        if self.is83:
            self.inheritable = [n for n, d in self.attr_defs.items() if "annotationProperty" not in d["props"]]
        else:
            self.inheritable = [n for n, d in self.attr_defs.items() if "isInheritedProperty" in d["props"]]
        if not self.inheritable:
            self.inheritable = ["extensionAllowed"]
        # --- tags
        self.tags = []          # dicts in document order
        self.by_long = {}
        sch = root.find("schema")

        def walk(el, parent):
            for n in el.findall("node"):
                name = n.findtext("name")
                long = (parent["long"] + "/" + name) if parent else name
                t = {"name": name, "long": long, "parent": parent["long"] if parent else None,
                     "attrs": _attrs(n), "desc": n.findtext("description") or "",
                     "depth": (parent["depth"] + 1) if parent else 0, "children": []}
                self.tags.append(t)
                self.by_long[long] = t
                if parent:
                    parent["children"].append(long)
                walk(n, t)
        walk(sch, None)
        for t in self.tags:
            inh = dict(t["attrs"])
            for a in self.inheritable:
                p = t
                while p is not None:
                    if a in p["attrs"]:
                        if a not in inh:
                            inh[a] = p["attrs"][a]
                        break
                    p = self.by_long.get(p["parent"]) if p["parent"] else None
            t["inh"] = inh
            t["placeholder"] = t["name"] == "#"
            t["has_value_child"] = any(c.endswith("/#") for c in t["children"])
        # --- unit classes, units, modifiers, value classes
        self.unit_classes = {}
        sec = root.find("unitClassDefinitions")
        for uc in (sec.findall("unitClassDefinition") if sec is not None else []):
            units = {}
            for u in uc.findall("unit"):
                units[u.findtext("name")] = {"attrs": _attrs(u), "desc": u.findtext("description") or ""}
            self.unit_classes[uc.findtext("name")] = {"attrs": _attrs(uc), "units": units,
                                                      "desc": uc.findtext("description") or ""}
        self.modifiers = {}
        sec = root.find("unitModifierDefinitions")
        for m in (sec.findall("unitModifierDefinition") if sec is not None else []):
            self.modifiers[m.findtext("name")] = {"attrs": _attrs(m), "desc": m.findtext("description") or ""}
        self.value_classes = {}
        sec = root.find("valueClassDefinitions")
        for m in (sec.findall("valueClassDefinition") if sec is not None else []):
            self.value_classes[m.findtext("name")] = {"attrs": _attrs(m), "desc": m.findtext("description") or ""}

    # ---- convenience views -------------------------------------------------
    def real_tags(self):
        return [t for t in self.tags if not t["placeholder"]]

    def has(self, t, attr):
        return attr in t["inh"]

    def value_child(self, t):
        for c in t["children"]:
            if c.endswith("/#"):
                return self.by_long[c]
        return None

    def short_unique(self):
        """names that occur once (every bundled schema keeps short names unique, libraries merged included)."""
        seen = {}
        for t in self.real_tags():
            seen.setdefault(t["name"].casefold(), []).append(t["long"])
        return {k: v[0] for k, v in seen.items() if len(v) == 1}

    def suffix_forms(self, t):
        parts = t["long"].split("/")
        return ["/".join(parts[i:]) for i in range(len(parts) - 1, -1, -1)]   # short first, long last


@functools.lru_cache(maxsize=None)
def load(version):
    for v, p in bundled():
        if v == version:
            return Facts(p)
    raise KeyError(version)


def partner_facts(version):
    """For a withStandard library: (library facts, standard facts)."""
    f = load(version)
    return f, (load(f.with_standard) if f.with_standard else None)
