"""File-system step interposition for real hed-python backup runs (C18).

A *child* is forked from a process that has already imported hed.  In stepping
mode it installs shims on the MUTATING file-system primitives BackupManager uses
and, before each of them, reports the pending operation to the parent and blocks
until granted one step.  The parent can therefore SIGKILL it between any two
file-system operations (and in the middle of a copy / of the JSON record) and
inspect the real directory after every step.

Scheduling points (= actions of specs/Backup.tla), only for paths under the data root:
  mkdir       os.mkdir of a directory that does not exist yet (os.makedirs calls it per level)
  copy_open   destination of shutil.copy2/copy/copyfile created or truncated
  copy_write  one chunk written (CHUNKS per file, cut points drawn per file)
  copy_meta   shutil.copystat / copymode at the end of copy2 / copy
  open_w      builtins.open(path, 'w'|'a'|'x'|'+')
  write       one piece of a write() on such a file (LOCK_CHUNKS pieces per call, flushed + fsynced);
              json.dump(obj, fp) on such a file is one write() of the whole text
  close       close of such a file
  remove / replace / rmtree   os.remove, os.unlink, os.replace, os.rename, shutil.rmtree
Directory listings (os.scandir / os.listdir, hence os.walk) are sorted in every child.
"""
import json
import os
import random
import select
import signal
import sys
import time

CHUNKS = 2
LOCK_CHUNKS = 2


def cut_points(n, parts, salt):
    """parts-1 strictly increasing positions inside 1..n-1 (fewer if the text is too short)."""
    if parts <= 1 or n < 2:
        return []
    want = min(parts - 1, n - 1)
    r = random.Random("%s:%d:%d" % (salt, n, parts))
    return sorted(r.sample(range(1, n), want))


def pieces(data, parts, salt):
    cuts = [0] + cut_points(len(data), parts, salt) + [len(data)]
    out = [data[cuts[i]:cuts[i + 1]] for i in range(len(cuts) - 1)]
    while len(out) < parts:
        out.append(data[:0])
    return out


def _under(path, root):
    try:
        p = os.path.abspath(os.fspath(path))
    except TypeError:
        return False
    if isinstance(p, bytes):
        p = os.fsdecode(p)
    return p == root or p.startswith(root + os.sep)


class _Chan:
    def __init__(self, wfd, rfd):
        self.w = wfd
        self.r = rfd

    def send(self, obj):
        os.write(self.w, (json.dumps(obj, default=str) + "\n").encode())

    def wait(self):
        b = os.read(self.r, 1)
        if not b:
            os._exit(99)
        return b

    def readline(self):
        buf = b""
        while not buf.endswith(b"\n"):
            b = os.read(self.r, 1)
            if not b:
                os._exit(99)
            buf += b
        return json.loads(buf)


class InjectedIOError(OSError):
    """The I/O error the parent injects at a scheduling point (grant byte 'e'): the operation does not happen."""


class _SortedScandir:
    def __init__(self, entries):
        self._it = iter(entries)

    def __iter__(self):
        return self

    def __next__(self):
        return next(self._it)

    def __enter__(self):
        return self

    def __exit__(self, *a):
        return False

    def close(self):
        pass


def install_sorted_listings():
    real_scandir, real_listdir = os.scandir, os.listdir

    def scandir(path="."):
        with real_scandir(path) as it:
            entries = sorted(it, key=lambda e: e.name)
        return _SortedScandir(entries)

    def listdir(path="."):
        return sorted(real_listdir(path))
    os.scandir = scandir
    os.listdir = listdir


def install_step_shims(chan, root, salt, chunks=CHUNKS, lock_chunks=LOCK_CHUNKS):
    """Patch the mutating primitives; every operation under `root` becomes a scheduling point."""
    import builtins
    import shutil

    def rel(p):
        return os.path.relpath(os.path.abspath(os.fspath(p)), root)

    def point(op, **kw):
        kw.update(t="op", op=op)
        chan.send(kw)
        if chan.wait() == b"e":
            import errno
            raise InjectedIOError(errno.ENOSPC, "No space left on device (injected)", kw.get("path"))

    real_open = builtins.open
    real_mkdir = os.mkdir
    real_copystat, real_copymode = shutil.copystat, shutil.copymode
    real_remove, real_unlink, real_replace, real_rename = os.remove, os.unlink, os.replace, os.rename
    real_rmtree = shutil.rmtree

    def mkdir(path, mode=0o777, *a, **k):
        if _under(path, root) and not os.path.lexists(path):
            point("mkdir", path=rel(path))
        return real_mkdir(path, mode, *a, **k)

    def chunked(src, dst, meta):
        if os.path.isdir(dst):
            dst = os.path.join(dst, os.path.basename(src))
        if not _under(dst, root):
            with real_open(src, "rb") as f, real_open(dst, "wb") as g:
                g.write(f.read())
            if meta:
                meta(src, dst)
            return dst
        with real_open(src, "rb") as f:       # raises FileNotFoundError before anything is created, like copyfile
            data = f.read()
        r = rel(dst)
        point("copy_open", path=r)
        with real_open(dst, "wb", buffering=0) as g:
            for i, piece in enumerate(pieces(data, chunks, salt + r)):
                point("copy_write", path=r, k=i + 1)
                g.write(piece)
                os.fsync(g.fileno())
        if meta:
            point("copy_meta", path=r)
            meta(src, dst)
        return dst

    def copy2(src, dst, *a, **k):
        return chunked(src, dst, real_copystat)

    def copy(src, dst, *a, **k):
        return chunked(src, dst, real_copymode)

    def copyfile(src, dst, *a, **k):
        return chunked(src, dst, None)

    class StepFile:
        """A file opened for writing under the data root: every write reaches the disk in steps."""

        def __init__(self, f, path):
            self._f = f
            self._p = path
            self._closed = False

        def write(self, s):
            ps = pieces(s, lock_chunks, salt + self._p) if len(s) else [s]
            for i, piece in enumerate(ps):
                point("write", path=self._p, k=i + 1)
                self._f.write(piece)
                self._f.flush()
                try:
                    os.fsync(self._f.fileno())
                except OSError:
                    pass
            return len(s)

        def writelines(self, lines):
            for x in lines:
                self.write(x)

        def close(self):
            if not self._closed:
                self._closed = True
                point("close", path=self._p)
                self._f.close()

        def __enter__(self):
            return self

        def __exit__(self, *a):
            self.close()
            return False

        def __getattr__(self, name):
            return getattr(self._f, name)

    def open_(file, mode="r", *a, **k):
        if isinstance(file, (str, bytes, os.PathLike)) and any(c in mode for c in "wax+") and _under(file, root):
            point("open_w", path=rel(file))
            return StepFile(real_open(file, mode, *a, **k), rel(file))
        return real_open(file, mode, *a, **k)

    real_dump = json.dump

    def dump(obj, fp, **kw):
        if isinstance(fp, StepFile):
            fp.write(json.dumps(obj, **kw))
            return None
        return real_dump(obj, fp, **kw)

    def remove(path, *a, **k):
        if _under(path, root):
            point("remove", path=rel(path))
        return real_remove(path, *a, **k)

    def unlink(path, *a, **k):
        if _under(path, root):
            point("remove", path=rel(path))
        return real_unlink(path, *a, **k)

    def replace(src, dst, *a, **k):
        if _under(dst, root):
            point("replace", path=rel(dst), src=rel(src))
        return real_replace(src, dst, *a, **k)

    def rename(src, dst, *a, **k):
        if _under(dst, root):
            point("replace", path=rel(dst), src=rel(src))
        return real_rename(src, dst, *a, **k)

    def rmtree(path, *a, **k):
        if _under(path, root):
            point("rmtree", path=rel(path))
        return real_rmtree(path, *a, **k)

    os.mkdir = mkdir
    shutil.copy2, shutil.copy, shutil.copyfile = copy2, copy, copyfile
    builtins.open = open_
    json.dump = dump
    os.remove, os.unlink, os.replace, os.rename = remove, unlink, replace, rename
    shutil.rmtree = rmtree


def _describe(ex):
    d = {"result": "exc", "exc": type(ex).__name__, "msg": str(ex)[:200]}
    code = getattr(ex, "code", None)
    d["code"] = code if isinstance(code, str) and type(ex).__name__ == "HedFileError" else type(ex).__name__
    return d


def child_main(chan, root, task, step, salt):
    """Runs in the forked child.  Never returns.  task = (kind, ...):
         backup_cli argv | backup_api argv(name) | reopen name | restore_cli argv | restore_api name tasks | remodel_cli argv
    """
    root = os.path.realpath(root)
    install_sorted_listings()
    if step:
        install_step_shims(chan, root, salt)
    from hed.tools.remodeling.backup_manager import BackupManager
    from hed.tools.remodeling.cli import run_remodel, run_remodel_backup, run_remodel_restore
    from hed.tools.util import io_util
    out = {"t": "fin", "result": "ok"}
    try:
        kind = task[0]
        if kind == "backup_cli":
            out["ret"] = run_remodel_backup.main(list(task[1]))
        elif kind == "backup_api":
            # what run_remodel_backup.main does, without its own `BackupExists` guard
            name, exclude, tasks = task[1], list(task[2]), list(task[3])
            files = io_util.get_file_list(root, name_suffix=["events"], extensions=[".tsv"], exclude_dirs=exclude)
            if tasks:
                files = io_util.get_filtered_by_element(files, tasks)
            out["ret"] = BackupManager(root).create_backup(files, backup_name=name)
        elif kind == "backup_two":
            # ONE manager object creates two backups whose file selections differ (task filters)
            bm = BackupManager(root)
            out["rets"] = []
            for name, exclude, tasks in task[1]:
                files = io_util.get_file_list(root, name_suffix=["events"], extensions=[".tsv"], exclude_dirs=list(exclude))
                if tasks:
                    files = io_util.get_filtered_by_element(files, list(tasks))
                out["rets"].append(bm.create_backup(files, backup_name=name))
            if len(task) > 2 and task[2]:
                bm.restore_backup(task[2], task_names=[], verbose=False)      # ... and restores one of them
        elif kind == "backup_api_retry":
            # ONE manager object; an injected I/O error is caught by the caller, who calls create_backup on it again
            name, exclude, tasks = task[1], list(task[2]), list(task[3])
            files = io_util.get_file_list(root, name_suffix=["events"], extensions=[".tsv"], exclude_dirs=exclude)
            if tasks:
                files = io_util.get_filtered_by_element(files, tasks)
            bm = BackupManager(root)
            while True:
                try:
                    out["ret"] = bm.create_backup(files, backup_name=name)
                    break
                except InjectedIOError as ex:
                    chan.send({"t": "op", "op": "caught", "exc": type(ex).__name__, "path": getattr(ex, "filename", None)})
                    if chan.wait() == b"e":
                        raise
        elif kind == "session":
            # ONE manager object serving several requests (restores with different task selections, ...)
            bm = None
            while True:
                chan.send({"t": "op", "op": "ready"})
                cmd = chan.readline()
                res = {"t": "res", "result": "ok"}
                try:
                    if cmd[0] == "quit":
                        break
                    if bm is None:
                        bm = BackupManager(root)
                    if cmd[0] == "restore_api":
                        bm.restore_backup(cmd[1], task_names=list(cmd[2]), verbose=False)
                    else:
                        res["result"] = "badtask"
                except BaseException as ex:   # noqa
                    res.update(_describe(ex))
                chan.send(res)
        elif kind == "reopen":
            bm = BackupManager(root)
            rec = bm.get_backup(task[1])
            out["listed"] = rec is not None
            if rec is not None:
                out["keys"] = list(rec.keys())
                try:
                    out["files"] = [os.path.relpath(p, root) for p in bm.get_backup_files(task[1])]
                    out["originals"] = [os.path.relpath(p, root) for p in bm.get_backup_files(task[1], original_paths=True)]
                except Exception as ex:     # empty record: "not a valid backup"
                    out["files_exc"] = type(ex).__name__
        elif kind == "restore_cli":
            run_remodel_restore.main(list(task[1]))
        elif kind == "restore_api":
            BackupManager(root).restore_backup(task[1], task_names=list(task[2]), verbose=False)
        elif kind == "remodel_cli":
            run_remodel.main(list(task[1]))
        else:
            out["result"] = "badtask"
    except BaseException as ex:   # noqa  (SystemExit from argparse included)
        out.update(_describe(ex))
    try:
        chan.send(out)
    finally:
        os._exit(0)


class Child:
    def __init__(self, name, pid, rfd, wfd):
        self.name = name
        self.pid = pid
        self.rfd = rfd
        self.wfd = wfd
        self.buf = b""
        self.pending = None     # pending op dict, or None
        self.fin = None
        self.dead = False

    def _readline(self, timeout=60.0):
        t_end = time.time() + timeout
        while b"\n" not in self.buf:
            left = t_end - time.time()
            if left <= 0:
                raise TimeoutError("child %s silent" % self.name)
            r, _, _ = select.select([self.rfd], [], [], left)
            if not r:
                continue
            b = os.read(self.rfd, 65536)
            if not b:
                return None
            self.buf += b
        line, self.buf = self.buf.split(b"\n", 1)
        return json.loads(line)

    def advance(self):
        """Read until the child is blocked at its next scheduling point, or finished."""
        self.pending = None
        m = self._readline()
        if m is None:
            self.dead = True
        elif m["t"] == "op":
            self.pending = m
        elif m["t"] == "fin":
            self.fin = m
        return m

    def grant(self):
        os.write(self.wfd, b"g")

    def fail(self):
        """Let the pending operation fail with an I/O error instead of happening; returns the next report."""
        os.write(self.wfd, b"e")
        return self.advance()

    def command(self, cmd):
        """Session children: send one request, return its result (the child is then ready for the next one)."""
        os.write(self.wfd, (json.dumps(cmd) + "\n").encode())
        res = self._readline()
        if res is None:
            self.dead = True
            return {"result": "died"}
        nxt = self._readline()
        self.pending = nxt if nxt and nxt.get("t") == "op" else None
        if nxt is None:
            self.dead = True
        return res

    def step(self):
        self.grant()
        return self.advance()

    def run_to_end(self, limit=10000):
        n = 0
        while self.pending and n < limit:
            self.step()
            n += 1
        return self.fin

    def kill(self):
        try:
            os.kill(self.pid, signal.SIGKILL)
        except ProcessLookupError:
            pass
        self.reap()
        self.dead = True
        self.pending = None

    def reap(self):
        try:
            os.waitpid(self.pid, 0)
        except ChildProcessError:
            pass
        for fd in (self.rfd, self.wfd):
            try:
                os.close(fd)
            except OSError:
                pass
        self.rfd = self.wfd = -1


def spawn(name, root, task, step=False, salt=""):
    """Fork a child (hed must already be imported in this process) and wait for its first report."""
    c2p_r, c2p_w = os.pipe()
    p2c_r, p2c_w = os.pipe()
    sys.stdout.flush()
    sys.stderr.flush()
    pid = os.fork()
    if pid == 0:
        try:
            os.close(c2p_r)
            os.close(p2c_w)
            devnull = os.open(os.devnull, os.O_RDWR)
            os.dup2(devnull, 0)
            os.dup2(devnull, 1)
            os.dup2(devnull, 2)
            child_main(_Chan(c2p_w, p2c_r), root, task, step, salt)
        finally:
            os._exit(98)
    os.close(c2p_w)
    os.close(p2c_r)
    ch = Child(name, pid, c2p_r, p2c_w)
    ch.advance()
    return ch


def run_once(root, task, salt=""):
    """Run a task in a fresh child without stepping; returns its final report (or {'result': 'died'})."""
    ch = spawn(task[0], root, task, step=False, salt=salt)
    fin = ch.fin or {"result": "died"}
    ch.reap()
    return fin
