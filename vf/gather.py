"""Replay of specs/Gather.tla into hed.models.def_expand_gather.DefExpandGatherer (C09, family `gather`).

TLC emits, for every history of Def-expand instances up to MaxLen, the abstract state (known / ambiguous / errors per name)
the gatherer must be in after it.  Every maximal history is fed to ONE real gatherer object, one annotation per call, and the
projected state is compared after EVERY step with the state TLC printed for that prefix.  Further entry points are compared
at the end of the history: the whole list in one call, df_util.process_def_expands, and a chain of fresh gatherers that hand
the (known, ambiguous, errors) triple on through the constructor.
"""
import json

SKEL = {2: ["Age", "Label"], 3: ["Age", "Item-count", "Label"]}
LONG = {"Age": "Property/Agent-property/Agent-trait/Age", "Label": "Property/Informational-property/Label",
        "Item-count": "Property/Data-property/Data-value/Quantitative-value/Item-count"}
WRAPS = ["{0}", "Red, {0}", "(Blue, {0})", "{0}, (Green, Square)"]
_G = {}


def _init(_=None):
    from hed import load_schema_version
    _G["schema"] = load_schema_version("8.3.0")


def text_of(inst, k, salt):
    """Concrete annotation for one abstract instance; the spelling varies with `salt` (order of the content tags, long
    forms, letter case of the name, surrounding annotation) - none of which may matter."""
    tags = SKEL[k]
    vec = inst["vec"]
    parts = []
    for p, t in enumerate(tags):
        name = LONG[t] if (salt >> 1) % 3 == 1 and p == 0 else t
        parts.append("%s/%d" % (name, vec[p]))
    if salt % 2:
        parts.reverse()
    n = inst["n"]
    if (salt >> 2) % 3 == 1:
        n = n.lower()
    elif (salt >> 2) % 3 == 2:
        n = n.upper()
    head = "Def-expand/%s" % n + ("/%d" % inst["v"] if inst["hv"] else "")
    if (salt >> 3) % 2:
        grp = "((%s), %s)" % (", ".join(parts), head)
    else:
        grp = "(%s, (%s))" % (head, ", ".join(parts))
    return WRAPS[(salt >> 4) % len(WRAPS)].format(grp)


def _vec(group, k):
    """{tag -> value} of a content group as a vector over the skeleton; '#' -> 0."""
    out = [None] * k
    for t in group.get_all_tags():
        b = t.short_base_tag
        if b in SKEL[k]:
            e = t.extension
            out[SKEL[k].index(b)] = 0 if e == "#" else (int(e) if e.isdigit() else e)
    return out


def project(g, names, k):
    known, amb, errs = {}, {}, {}
    for n in names:
        e = g.def_dict.defs.get(n.casefold())
        known[n] = None if e is None else {"tv": bool(e.takes_value), "pat": _vec(e.contents, k)}
        a = g.ambiguous_defs.get(n.casefold())
        amb[n] = [] if a is None else [_vec(x, k) for x in a.placeholder_defs]
        errs[n] = [_vec(x, k) for x in g.errors.get(n.casefold(), [])]
    extra = (set(g.def_dict.defs) | set(g.ambiguous_defs) | set(g.errors)) - {n.casefold() for n in names}
    return {"known": known, "amb": amb, "errs": errs, "extra": sorted(extra)}


def expected(rec, names):
    known = {n: (None if rec["known"][n]["none"] else {"tv": rec["known"][n]["tv"], "pat": list(rec["known"][n]["pat"])})
             for n in names}
    return {"known": known, "amb": {n: [list(x) for x in rec["amb"][n]] for n in names},
            "errs": {n: [list(x) for x in rec["errs"][n]] for n in names}, "extra": []}


def diff(exp, got):
    for part in ("known", "amb", "errs", "extra"):
        if exp[part] != got[part]:
            return part
    return None


def run_history(job):
    """job: {k, names, hist:[inst], states:[expected state after each step], salt}"""
    from hed.models.def_expand_gather import DefExpandGatherer
    from hed.models import df_util
    k, names, hist, salt = job["k"], job["names"], job["hist"], job["salt"]
    texts = [text_of(i, k, salt + 7 * j) for j, i in enumerate(hist)]
    probs = []
    shape = "".join(("v" if i["hv"] else "p") for i in hist)

    def bad(kind, step, exp, got, part):
        probs.append(("gather:%s:%s:%s" % (kind, part, shape[:step + 1]),
                      "%s after feeding %r: %s expected %s, the gatherer has %s"
                      % (kind, texts[:step + 1], part, json.dumps(exp[part]), json.dumps(got[part]))))
    # (1) one object, one annotation per call, compared after every step
    try:
        g = DefExpandGatherer(_G["schema"])
        for j, t in enumerate(texts):
            g.process_def_expands([t])
            got = project(g, names, k)
            part = diff(job["states"][j], got)
            if part:
                bad("step", j, job["states"][j], got, part)
                break
    except Exception as ex:      # noqa
        probs.append(("gather:raises:%s:%s" % (type(ex).__name__, shape), "feeding %r one by one raised %r" % (texts, ex)))
        return probs
    final = job["states"][-1]
    last = len(texts) - 1
    # (2) the whole list in one call (with unrelated rows in between: no Def-expand, empty, missing)
    try:
        import pandas as pd
        rows = []
        for j, t in enumerate(texts):
            rows.append(t)
            rows.append(["Red", "", "n/a", "(Blue, Green)"][(salt + j) % 4])
        series = pd.Series(rows, index=[(5 * i + salt) % 101 + (1000 if i % 2 else 0) for i in range(len(rows))]) \
            if salt % 3 == 0 else rows
        g2 = DefExpandGatherer(_G["schema"])
        g2.process_def_expands(series)
        got = project(g2, names, k)
        part = diff(final, got)
        if part:
            bad("one-call", last, final, got, part)
        # the helper in df_util: same answer (it returns the three parts)
        dd, am, er = df_util.process_def_expands(list(rows), _G["schema"])

        class _V:
            def_dict, ambiguous_defs, errors = dd, am, er
        got = project(_V, names, k)
        part = diff(final, got)
        if part:
            bad("df_util", last, final, got, part)
    except Exception as ex:      # noqa
        probs.append(("gather:raises-one-call:%s:%s" % (type(ex).__name__, shape), "feeding %r at once raised %r" % (texts, ex)))
    # (3) a chain of gatherers handing their state on through the constructor
    try:
        kd, am, er = None, None, None
        for j, t in enumerate(texts):
            g3 = DefExpandGatherer(_G["schema"], known_defs=kd, ambiguous_defs=am, errors=er)
            kd, am, er = g3.process_def_expands([t])
        got = project(g3, names, k)
        part = diff(final, got)
        if part:
            bad("handed-on", last, final, got, part)
    except Exception as ex:      # noqa
        probs.append(("gather:raises-handed-on:%s:%s" % (type(ex).__name__, shape), "chain over %r raised %r" % (texts, ex)))
    # (3b) known definitions handed in as a DefinitionDict OBJECT: the gatherer works on its own copy - the caller's dictionary of
    # declared definitions is what it was (no recovered definition is written into it), and the outcome is the same
    try:
        from hed.models.definition_dict import DefinitionDict
        mine = DefinitionDict("(Definition/Zzdecl, (Blue))", _G["schema"])
        before = {k: str(v.contents) for k, v in mine.defs.items()}
        g4 = DefExpandGatherer(_G["schema"], known_defs=mine)
        g4.process_def_expands(list(texts))
        after = {k: str(v.contents) for k, v in mine.defs.items()}
        if after != before:
            probs.append(("gather:callers-dictionary-changed:%s" % shape,
                          "gathering from %r with known_defs=<DefinitionDict %s> left the caller's dictionary as %s" % (texts, before, after)))
        got = project(g4, names, k)
        got["extra"] = [x for x in got["extra"] if x != "zzdecl"]
        part = diff(final, got)
        if part:
            bad("with-known-dictionary", last, final, got, part)
    except Exception as ex:      # noqa
        probs.append(("gather:raises-known-dictionary:%s:%s" % (type(ex).__name__, shape), "gathering %r with a known dictionary raised %r" % (texts, ex)))
    # (4) what is known reproduces, by the library's own expansion, every instance that was consistent with it
    try:
        from hed.models.hed_string import HedString
        for n in names:
            e = g.def_dict.defs.get(n.casefold())
            kn = final["known"][n]
            if e is None or kn is None:
                continue
            for j, i in enumerate(hist):
                if i["n"] != n or i["hv"] != kn["tv"] or [i["v"] if x == 0 else x for x in kn["pat"]] != list(i["vec"]):
                    continue                # not an instance of what is known (reported as an error, or replaced)
                use = "Def/%s" % n + ("/%d" % i["v"] if i["hv"] else "")
                hs = HedString(use, _G["schema"], def_dict=g.def_dict)
                hs.expand_defs()
                vec = _vec(hs, k)
                if vec != list(i["vec"]):
                    probs.append(("gather:expansion-differs:%s" % shape,
                                  "gathered from %r: %s expands to %s, the instance it was gathered from had %s"
                                  % (texts, use, hs, i["vec"])))
    except Exception as ex:      # noqa
        probs.append(("gather:raises-expand:%s:%s" % (type(ex).__name__, shape), "expanding with the gathered dictionary of %r raised %r" % (texts, ex)))
    # (5) the gathered dictionary judges Def-expand groups: an instance is accepted exactly when it is the expansion
    try:
        from hed.models.hed_string import HedString
        from hed.validator.hed_validator import HedValidator
        val = HedValidator(_G["schema"], def_dicts=g.def_dict)
        for n in names:
            kn = final["known"][n]
            if kn is None or g.def_dict.defs.get(n.casefold()) is None:
                continue
            seen = set()
            for j, i in enumerate(hist):
                if i["n"] != n or i["hv"] != kn["tv"]:
                    continue
                for delta in (0, 1):
                    vec = list(i["vec"])
                    if delta:
                        vec[(salt + j) % k] = 7          # a content no instance had
                    key = (i["v"] if i["hv"] else None, tuple(vec))
                    if key in seen:
                        continue
                    seen.add(key)
                    good = [i["v"] if x == 0 else x for x in kn["pat"]] == vec
                    t = text_of({"n": n, "hv": i["hv"], "v": i["v"], "vec": vec}, k, salt + j + delta)
                    codes = {x["code"] for x in val.validate(HedString(t, _G["schema"]), allow_placeholders=False)}
                    flagged = "DEF_EXPAND_INVALID" in codes
                    if flagged == good or (codes - {"DEF_EXPAND_INVALID"}):
                        probs.append(("gather:judged:%s:%s" % ("rejected-good" if good else "accepted-bad", shape),
                                      "dictionary gathered from %r (known %s): %r gives %s"
                                      % (texts, json.dumps(kn), t, sorted(codes))))
    except Exception as ex:      # noqa
        probs.append(("gather:raises-validate:%s:%s" % (type(ex).__name__, shape),
                      "validating with the dictionary gathered from %r raised %r" % (texts, ex)))
    return probs


def jobs_from(lines, k, names, maxlen, seed, take=None):
    """TLC lines -> one job per maximal history (prefix states looked up)."""
    by = {}
    for rec in lines:
        by[json.dumps(rec["hist"], sort_keys=True)] = rec
    jobs = []
    n = 0
    for key, rec in sorted(by.items()):
        h = rec["hist"]
        if len(h) != maxlen:
            continue
        n += 1
        if take is not None and (n + seed) % take:
            continue
        states = []
        for j in range(1, len(h) + 1):
            states.append(expected(by[json.dumps(h[:j], sort_keys=True)], names))
        jobs.append({"k": k, "names": names, "hist": h, "states": states, "salt": n * 13 + seed})
    return jobs
