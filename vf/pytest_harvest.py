"""pytest plugin (-p vf.pytest_harvest): record every text handed to HedString(...) while the repository's own
test-suite runs, so that the executions the suite already produces can be validated against the specification
(the suite's assertions are not needed for that).  Output: JSON list of distinct texts in $VERIF_HARVEST_OUT."""
import json
import os

_texts = set()


def pytest_configure(config):
    from hed.models import hed_string as hs
    real = hs.HedString.__init__

    def init(self, hed_string, *a, **k):
        if isinstance(hed_string, str) and len(hed_string) <= 400:
            _texts.add(hed_string)
        return real(self, hed_string, *a, **k)
    hs.HedString.__init__ = init


def pytest_unconfigure(config):
    out = os.environ.get("VERIF_HARVEST_OUT")
    if out:
        with open(out, "w") as f:
            json.dump(sorted(_texts), f)
