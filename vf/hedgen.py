"""Concretiser for abstract annotation trees of specs/HedRules.tla (shared by C01, C04, C13).

Abstract kinds -> real tags / values drawn by rotation over the WHOLE vocabulary of a schema, read
independently from the XML by vf/facts.py.
"""
import re

from . import facts

SPECIAL_NAMES = {"Def", "Def-expand", "Definition", "Onset", "Offset", "Inset", "Duration", "Delay", "Event-context"}
SPECIAL_ATTRS = ("requireChild", "tagGroup", "topLevelTagGroup", "unique", "required", "deprecatedFrom", "reserved")
# (Nnn: the placeholder sits in a NESTED group of the definition)
DEFS = "(Definition/Aaa, (Red, Blue)), (Definition/Bbb/#, (Age/#, Green)), (Definition/Nnn/#, (Red, (Age/#, Blue)))"
DEF_USES = ["Def/Aaa", "Def/Bbb/4", "Def/aaa", "Def/Bbb/7", "Def/Nnn/5"]
DEX_USES = ["(Def-expand/Aaa, (Red, Blue))", "(Def-expand/Bbb/4, (Age/4, Green))", "(Def-expand/aaa, (Blue, Red))",
            "(Def-expand/Bbb/7, (Green, Age/7))", "(Def-expand/Nnn/5, (Red, (Age/5, Blue)))"]      # the expansions of DEF_USES
VALUE_BY_CLASS = {"numericClass": "3", "textClass": "abc", "nameClass": "abc", "dateTimeClass": "2000-01-01T10:00:00"}


class Vocab:
    def __init__(self, version):
        f = facts.load(version)
        self.f = f
        self.version = version
        names = {}
        for t in f.real_tags():
            names.setdefault(t["name"].casefold(), 0)
            names[t["name"].casefold()] += 1
        self.plain = []
        self.noext = []
        # Duration / Delay carry group rules only where the schema marks them topLevelTagGroup (8.2.0 on); before that they
        # are ordinary value tags and belong to the vocabulary like any other
        toplevel0 = {t["name"] for t in f.real_tags() if "topLevelTagGroup" in t["attrs"]}
        # (they are NOT drawn as ordinary vocabulary all the same: the temporal checks find Delay / Duration by NAME under every
        #  schema - observation O12 in DESIGN.md - so a randomly placed old-schema Delay would blur single-rule cases; the old-schema
        #  reading is checked by a directed family in c01 instead)
        special = set(SPECIAL_NAMES)
        self.plain_duration_delay = not ({"Duration", "Delay"} <= toplevel0) and any(t["name"] == "Duration" for t in f.real_tags())
        for t in f.real_tags():
            if t["name"] in special or any(a in t["inh"] for a in SPECIAL_ATTRS):
                continue
            if names[t["name"].casefold()] != 1 or not re.match(r"^[A-Za-z0-9-]+$", t["name"]):
                continue
            self.plain.append(t)
            if "extensionAllowed" not in t["inh"] and not t["has_value_child"]:
                self.noext.append(t)
        self.ext_ok = [t for t in self.plain if "extensionAllowed" in t["inh"] and not t["has_value_child"]]
        self.value = []      # (tag dict, value text, kind)
        self.unit_tags = []
        self.num_tags = []
        for t in f.tags:
            if not t["placeholder"]:
                continue
            parent = f.by_long[t["parent"]]
            if parent["name"] in special or any(a in parent["inh"] for a in SPECIAL_ATTRS if a != "requireChild"):
                continue
            if names[parent["name"].casefold()] != 1:
                continue
            ucs = t["attrs"].get("unitClass")
            vcs = t["attrs"].get("valueClass") or []
            if isinstance(ucs, list):
                val = None
                for uc in ucs:
                    cd = f.unit_classes.get(uc)
                    if not cd:
                        continue
                    for u, ud in cd["units"].items():
                        if " " in u or "unitPrefix" in ud["attrs"] or "deprecatedFrom" in ud["attrs"]:
                            continue
                        val = "3 " + u
                        break
                    if val:
                        break
                if val and (not vcs or "numericClass" in vcs):
                    self.value.append((parent, val, "unit"))
                    self.unit_tags.append(parent)
                    # ... and the same unit with an SI prefix (symbol prefix for symbols, name prefix for names)
                    un = val.split(" ", 1)[1]
                    ud = next((cd["units"][un] for cd in f.unit_classes.values() if un in cd["units"]), None)
                    if ud and "SIUnit" in ud["attrs"]:
                        sym = "unitSymbol" in ud["attrs"]
                        pre = [m for m, md in f.modifiers.items() if ("SIUnitSymbolModifier" if sym else "SIUnitModifier") in md["attrs"]]
                        pre = [m for m in pre if m in ("k", "m", "kilo", "milli")] or pre
                        if pre:
                            self.value.append((parent, "3 " + sorted(pre)[0] + un, "unit-si"))
            elif vcs and all(vc in VALUE_BY_CLASS for vc in vcs):
                # a value is legal when it fits ANY of the tag's value classes: one sample per class
                for vc in vcs:
                    self.value.append((parent, VALUE_BY_CLASS[vc], vc))
                if vcs == ["numericClass"]:
                    self.num_tags.append(parent)
            elif not vcs:
                pass
        self.require_child = [t for t in f.real_tags() if "requireChild" in t["attrs"] and t["name"] not in special
                              and names[t["name"].casefold()] == 1]
        self.has = {n: any(t["name"] == n for t in f.real_tags()) for n in SPECIAL_NAMES}
        self.toplevel = {t["name"] for t in f.real_tags() if "topLevelTagGroup" in t["attrs"]}
        self.dur_ok = "Duration" in self.toplevel and "Delay" in self.toplevel
        self.inset_ok = "Inset" in self.toplevel
        # flaw menu: (name, text maker, expected code, needs placeholders disallowed)
        self.flaws = []
        self.flaws.append(("unknown", lambda i: "Qqzzx%d" % (i % 7), "TAG_INVALID", False))
        if len(self.plain) > 3 and self.ext_ok:
            self.flaws.append(("ext-is-term", lambda i: self.form(self.ext_ok[i % len(self.ext_ok)], i) + "/" +
                               self._foreign_term(self.ext_ok[i % len(self.ext_ok)], i), "TAG_EXTENSION_INVALID", False))
        if self.noext:
            self.flaws.append(("ext-forbidden", lambda i: self.form(self.noext[i % len(self.noext)], i) + "/Newterm",
                               "TAG_EXTENSION_INVALID", False))
        if self.require_child:
            self.flaws.append(("missing-child", lambda i: self.form(self.require_child[i % len(self.require_child)], i),
                               "TAG_REQUIRES_CHILD", False))
        if self.unit_tags:
            self.flaws.append(("bad-unit", lambda i: self.form(self.unit_tags[i % len(self.unit_tags)], i) + "/3 qqzz",
                               "UNITS_INVALID", False))
        if self.unit_tags:
            # a unit that is not of the "prefix" kind written IN FRONT of the number is not a unit
            def _before(i):
                t = self.unit_tags[i % len(self.unit_tags)]
                val = [v for (p_, v, k) in self.value if p_ is t and k == "unit"][0]       # "3 <unit>"
                num, unit = val.split(" ", 1)
                return self.form(t, i) + "/" + unit + " " + num
            self.flaws.append(("unit-before-number", _before, "UNITS_INVALID", False))
        if self.num_tags:
            self.flaws.append(("bad-value", lambda i: self.form(self.num_tags[i % len(self.num_tags)], i) + "/abc",
                               "VALUE_INVALID", False))
        if self.value:
            self.flaws.append(("placeholder", lambda i: self.form(self.value[i % len(self.value)][0], i) + "/#",
                               "PLACEHOLDER_INVALID", True))
        if self.noext:
            self.flaws.append(("placeholder-stray", lambda i: self.form(self.noext[i % len(self.noext)], i) + "/#",
                               "PLACEHOLDER_INVALID", False))
        # a tag text with a stray slash (caught by the formatting stage, before any schema lookup)
        self.flaws.append(("slash-leading", lambda i: "/" + self.form(self.plain[i % len(self.plain)], i), "TAG_INVALID", False))
        self.flaws.append(("slash-trailing", lambda i: self.form(self.plain[i % len(self.plain)], i) + "/", "TAG_INVALID", False))
        self.flaws.append(("bad-char", lambda i: self.form(self.plain[i % len(self.plain)], i) + "[", "CHARACTER_INVALID", False))
        # a forbidden punctuation character inside an EXTENSION (the allow-list of extensions is a list of characters, not a range)
        if self.ext_ok:
            self.flaws.append(("bad-char-ext", lambda i: self.form(self.ext_ok[i % len(self.ext_ok)], i) + "/My-" +
                               "@;<=>?!$%&*|"[(i // 2) % 12] + "thing_2", "CHARACTER_INVALID", False))
        # a forbidden character inside an otherwise legal text / name VALUE (checked by a different routine than tag names)
        self.text_tags = [t for t, v, k in self.value if k in ("textClass", "nameClass")]
        if self.text_tags:
            self.flaws.append(("bad-char-value", lambda i: self.form(self.text_tags[i % len(self.text_tags)], i) + "/ab" +
                               "[]"[(i // 3) % 2] + "c", "CHARACTER_INVALID", False))
        # a definition whose placeholder takes a unit: the same definition used with a good and a wrongly valued Def
        self.defs = DEFS
        self.def_unit = None
        for t in self.unit_tags:
            du = self._unit_case_pair(t)
            if du and self.has["Def"]:
                self.def_unit = du
                self.defs = DEFS + ", (Definition/Ccc/#, (%s/#, Green))" % t["name"]
                good, bad = du
                self.flaws.append(("def-unit-case", lambda i, bad=bad: "Def/%s/%s" % (["Ccc", "ccc"][i % 2], bad), "DEF_INVALID", False))
                self.flaws.append(("def-bad-unit", lambda i: "Def/Ccc/3 qqzz", "DEF_INVALID", False))
                break
        if self.has["Def"]:
            if any(t["name"] == "Age" for t in self.num_tags):      # (the definitions' placeholder tag Age/# is numeric in this schema)
                self.flaws.append(("def-nested-bad-value", lambda i: "Def/Nnn/abc", "DEF_INVALID", False))
                self.flaws.append(("def-bad-value", lambda i: "Def/Bbb/abc", "DEF_INVALID", False))
            self.flaws.append(("undeclared-def", lambda i: "Def/Nopezz%d" % (i % 5), "DEF_INVALID", False))
            self.flaws.append(("def-extra-value", lambda i: "Def/Aaa/3", "DEF_INVALID", False))
            self.flaws.append(("def-missing-value", lambda i: "Def/Bbb", "DEF_INVALID", False))

    def _unit_case_pair(self, t):
        """(good value, bad value) for unit tag t where the two differ only in the letter case of a unit SYMBOL
        (symbols and symbol prefixes are case-sensitive, unit names are not) and the second is no unit of t's classes."""
        f = self.f
        ph = [c for c in f.tags if c["placeholder"] and c["parent"] == t["long"]][0]
        sym, names = set(), set()
        msym = [m for m, md in f.modifiers.items() if "SIUnitSymbolModifier" in md["attrs"]]
        mname = [m for m, md in f.modifiers.items() if "SIUnitModifier" in md["attrs"]]
        cands = []
        for uc in ph["attrs"].get("unitClass") or []:
            for u, ud in (f.unit_classes.get(uc) or {"units": {}})["units"].items():
                a = ud["attrs"]
                if "unitSymbol" in a:
                    sym.add(u)
                    if "SIUnit" in a:
                        sym.update(m + u for m in msym)
                    if "unitPrefix" not in a and "deprecatedFrom" not in a and " " not in u:
                        cands.append(u)
                else:
                    for n in (u.lower(), u.lower() + "s"):
                        names.add(n)
                        if "SIUnit" in a:
                            names.update(m.lower() + n for m in mname)
        for u in cands:
            for w in (u.swapcase(), "m" + u.upper() if "m" + u in sym else None):
                if w and w != u and w not in sym and w.lower() not in names:
                    return "3 " + u, "3 " + w
        return None

    def _foreign_term(self, t, i):
        """name of a schema term that is NOT a descendant of t (so that t/<term> is an extension, not a tag)"""
        j = (i * 13 + 5) % len(self.plain)
        for _ in range(len(self.plain)):
            c = self.plain[j]
            if not c["long"].startswith(t["long"] + "/") and c is not t:
                return c["name"]
            j = (j + 1) % len(self.plain)
        return "Qqzzx"

    def form(self, t, i, namespace=""):
        """i-th spelling of tag t: short, partial paths, long."""
        forms = self.f.suffix_forms(t)
        return namespace + forms[i % len(forms)]

    def usable(self, case):
        kinds = set(case["kind"])
        if kinds & {"dur", "del", "dur2", "del2"} and not self.dur_ok:
            return False
        if ("on" in kinds or "off" in kinds or "def" in kinds or "dex" in kinds) and not (self.has["Onset"] and self.has["Def"]):
            return False
        if "uq" in kinds and not self.has["Event-context"]:
            return False
        if "v" in kinds and not self.value:
            return False
        if "ext" in kinds and not self.ext_ok:
            return False
        return True


def render(case, vocab, rot, allow_ph=False, style=0, perm=None, ns="", forms=None, casing=0, ext_ascii_mix=False):
    """Abstract case {par, kind, sflaw} -> (text, flaw description or None).

    rot   : rotation index selecting concrete tags / values / flaw
    style : spacing style 0..3            perm : optional function reordering sibling lists (C04)
    forms : optional offset so that the SAME tags are spelled differently (C04)
    """
    par, kind = case["par"], case["kind"]
    n = len(kind)
    fo = rot if forms is None else forms
    p1 = vocab.plain[rot % len(vocab.plain)]
    p2 = vocab.plain[(rot * 7 + 3) % len(vocab.plain)]
    if p2 is p1:
        p2 = vocab.plain[(rot * 7 + 4) % len(vocab.plain)]
    vtag = vocab.value[rot % len(vocab.value)] if vocab.value else None
    menu = [fl for fl in vocab.flaws if not (fl[3] and allow_ph)]
    flaw = menu[rot % len(menu)]
    flaw_used = None
    sp = [", ", ",", " , ", ",  "][style % 4]
    lp, rp = [("(", ")"), ("( ", " )"), ("(", ")"), (" (", ") ")][style % 4]

    leafno = [0]
    badleaves = [k for k in range(n) if kind[k] == "bad"]

    def cs(txt):
        if casing == 3:      # mixed: every other tag occurrence in lower case
            leafno[0] += 1
            return txt.lower() if leafno[0] % 2 else txt
        if casing == 4:      # mixed: every other tag occurrence in upper case
            leafno[0] += 1
            return txt.upper() if leafno[0] % 2 else txt
        if casing == 5:      # every other tag occurrence in upper case AND in another spelling (see alt[0] in leaf())
            return txt.upper() if alt[0] else txt
        return txt.lower() if casing == 1 else txt.upper() if casing == 2 else txt

    alt = [0]
    fo0 = fo

    def leaf(k):
        nonlocal flaw_used, fo
        kd = kind[k]
        if casing == 5:
            leafno[0] += 1
            alt[0] = leafno[0] % 2
            fo = fo0 + alt[0]          # the alternate occurrences are spelled differently (short / partial / full path)
        if kd == "p1":
            return ns + cs(vocab.form(p1, fo))
        if kd == "p2":
            return ns + cs(vocab.form(p2, fo + 1))
        if kd == "v":
            if allow_ph and rot % 3 == 0:       # a template value is a legal value where placeholders are allowed
                return ns + cs(vocab.form(vtag[0], fo + 2)) + "/#"
            return ns + cs(vocab.form(vtag[0], fo + 2)) + "/" + vtag[1]
        if kd == "ext":      # the extension is part of the tag's name: it changes letter case with it (non-ASCII where allowed)
            et = vocab.ext_ok[(rot * 5 + 1) % len(vocab.ext_ok)]
            return ns + cs(vocab.form(et, fo + 3) + "/" + ("Maße-ext" if (vocab.f.is83 and (rot % 2 or not ext_ascii_mix)) else "Newword-ext"))
        if kd == "bad":
            # several flawed leaves in one tree carry DIFFERENT flaws (chosen by the leaf's position in the tree, so that every
            # rewrite of the tree writes the same flaw at the same leaf)
            rank = badleaves.index(k)
            fl = flaw if rank == 0 else menu[(rot + 5 * rank) % len(menu)]
            if rank and (fl[0].startswith("def-") or fl[0] == "placeholder"):
                fl = menu[0]
            flaw_used = flaw
            txt = fl[1](rot + rank)
            return ns + txt if ns and not txt.startswith("Qq") else (ns + txt if ns else txt)
        if kd == "def":
            if flaw[0] == "def-unit-case" and "bad" in kind:
                # the same definition, correctly valued, next to the wrongly valued use (values differ in letter case only)
                return ns + ["Def/Ccc/", "Def/ccc/", "DEF/CCC/"][(rot // 3) % 3] + vocab.def_unit[0]
            if vocab.def_unit and rot % (len(DEF_USES) + 1) == len(DEF_USES):
                return ns + cs("Def/Ccc/") + vocab.def_unit[0]          # unit symbols keep their case
            return ns + cs(DEF_USES[rot % (len(DEF_USES) + 1) % len(DEF_USES)])
        if kd == "dex":      # the Def-expand group of the same definition and value the "def" leaves of this tree use
            return cs(DEX_USES[rot % (len(DEF_USES) + 1) % len(DEF_USES)])       # (only used without a namespace prefix)
        if kd == "on":
            return ns + cs("Inset" if (vocab.inset_ok and rot % 3 == 1) else "Onset")
        if kd == "off":
            return ns + cs("Offset")
        if kd == "dur":
            return ns + cs("Duration") + "/" + ["3 s", "3000 ms", "2.5 s"][rot % 3]
        if kd == "del":
            return ns + cs("Delay") + "/" + ["2 s", "1 s", "500 ms"][rot % 3]
        if kd == "dur2":     # the same tag as "dur" with another value
            return ns + cs("Duration") + "/" + ["4 s", "4000 ms", "1.5 s"][rot % 3]
        if kd == "del2":
            return ns + cs("Delay") + "/" + ["3 s", "4 s", "750 ms"][rot % 3]
        if kd == "uq":
            return ns + cs("Event-context")
        raise ValueError(kd)

    def node(k):
        if kind[k] != "g":
            return leaf(k)
        kids = [j for j in range(n) if par[j] == k + 1]
        if perm:
            kids = perm(kids)
        return lp + sp.join(node(j) for j in kids) + rp
    top = [j for j in range(n) if par[j] == 0]
    if perm:
        top = perm(top)
    parts = [node(j) for j in top]
    text = sp.join(parts)
    sf = case.get("sflaw", "none")
    if sf == "PARENTHESES_MISMATCH":
        if ")" in text and rot % 2:
            i = text.rfind(")")
            text = text[:i] + text[i + 1:]
        else:
            text = "(" + text
    elif sf == "TAG_EMPTY":
        gap = ["", " ", "  ", ""][style % 4]          # blanks between the two delimiters of the empty element
        lead = ["", " ", "", "  "][style % 4]
        if len(parts) >= 2 and rot % 2:
            text = parts[0] + "," + gap + "," + lead + sp.join(parts[1:])
        elif rot % 3 == 0:
            text = lead + "," + gap + text
        elif rot % 3 == 1 and parts:
            text = "(" + gap + "," + lead + text + ")"
        else:
            text = text + "," + gap + ","
    elif sf == "COMMA_MISSING":
        base = vocab.form(p1, fo, ns)
        text = (text + sp if text else "") + base + " " + "(" + vocab.form(p2, fo, ns) + ")"
        # "<tag> (<group>)": a tag directly followed by a group without a comma
    return text, (flaw_used[0], flaw_used[2]) if flaw_used else None
