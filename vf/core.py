"""Shared context for property drivers: evidence, known findings, violations, replay files."""
import hashlib
import json
import os
import random
import shutil
import sys
import time
import traceback

from . import tlc as _tlc

VERIF = os.path.dirname(os.path.dirname(os.path.abspath(__file__)))
FINDINGS = os.path.join(VERIF, "known_findings.json")


def sha(obj):
    return hashlib.sha1(json.dumps(obj, sort_keys=True, default=str).encode()).hexdigest()[:16]


class Ctx:
    def __init__(self, pid, tier, seed):
        self.pid = pid
        self.tier = tier
        self.seed = seed
        self.quick = tier == "quick"
        self.rng = random.Random(seed)
        self.t0 = time.time()
        # one scratch directory per invocation (quick and thorough runs of one property may overlap);
        # directories left behind by dead processes are removed first
        base = os.path.join(VERIF, ".work")
        os.makedirs(base, exist_ok=True)
        for d in os.listdir(base):
            if d.startswith(pid + "-run-"):
                owner = d.rsplit("-", 1)[-1]
                if not (owner.isdigit() and os.path.exists("/proc/" + owner)):
                    shutil.rmtree(os.path.join(base, d), ignore_errors=True)
        self.work = os.path.join(base, "%s-run-%s-%d" % (pid, tier, os.getpid()))
        shutil.rmtree(self.work, ignore_errors=True)
        os.makedirs(self.work, exist_ok=True)
        self.states = 0
        self.transitions = 0
        self.tlc_runs = []
        self.traces = 0             # behaviours replayed into / traces validated against the implementation
        self.evaluations = 0
        self.nontrivial = set()
        self.samples = []
        self.violations = []        # (key, text, replay path)
        self.known_hit = []
        self.extra = {}
        self.assumptions = []
        self.actions = {}
        self.rule = ""
        self.exhaustive = False
        self._seen_v = set()
        self.findings = []
        if os.path.exists(FINDINGS):
            self.findings = [f for f in json.load(open(FINDINGS))["findings"] if f["property"] == pid]

    # ---- TLC ----
    def tlc(self, module, cfg=None, label=None, expect_ok=True, **kw):
        kw.setdefault("workdir", self.work)
        r = _tlc.run(module, cfg, **kw)
        self.states += r.distinct
        self.transitions += r.generated
        self.tlc_runs.append(dict(r.as_dict(), module=module, cfg=cfg or module + ".cfg",
                                  label=label or "", violated=r.violated))
        for a, (d, t) in r.coverage.items():
            od, ot = self.actions.get(a, (0, 0))
            self.actions[a] = (od + d, ot + t)
        if expect_ok and r.violated:
            # the MODEL violates its own invariant: the spec (design) is wrong -> machinery failure,
            # unless the driver asked to handle it.
            raise _tlc.TLCFailure("model %s/%s violates %s\n%s" % (module, cfg, r.violated,
                                                                    "\n".join(a + "\n" + s for a, s in r.trace[-3:])))
        return r

    def cfg(self, base, *pairs):
        """A variant of specs/<base> with textual replacements, written into this run's scratch directory.
        Returns the absolute path (TLC takes it with -config)."""
        with open(os.path.join(_tlc.SPECS, base)) as f:
            txt = f.read()
        for old, new in pairs:
            if old not in txt:
                raise _tlc.TLCFailure("cfg variant of %s: %r not found" % (base, old))
            txt = txt.replace(old, new)
        self._ncfg = getattr(self, "_ncfg", 0) + 1
        path = os.path.join(self.work, "%s.%d.cfg" % (base[:-4], self._ncfg))
        with open(path, "w") as f:
            f.write(txt)
        return path

    # ---- bookkeeping ----
    def sample(self, x, cap=6):
        if len(self.samples) < cap:
            self.samples.append(x)

    def case(self, abstract_key=None, nontrivial=True, n=1):
        self.evaluations += n
        if nontrivial and abstract_key is not None:
            self.nontrivial.add(abstract_key if isinstance(abstract_key, (str, int)) else sha(abstract_key))

    def note(self, k, v):
        self.extra[k] = v

    def bump(self, k, n=1):
        self.extra[k] = self.extra.get(k, 0) + n

    # ---- violations ----
    def violation(self, key, text, replay):
        """key: stable identifier of the failing input/history (used for known-findings matching).
        replay: JSON-able dict with the concrete inputs so `--replay` can re-run it."""
        if key in self._seen_v:
            return
        self._seen_v.add(key)
        for f in self.findings:
            if f.get("status") == "known" and _match(f, key):
                self.known_hit.append((f["key"], text))
                return
        d = os.path.join(VERIF, "evidence", "replays", self.pid)
        os.makedirs(d, exist_ok=True)
        path = os.path.join(d, sha([key, replay]) + ".json")
        with open(path, "w") as fh:
            json.dump({"property": self.pid, "key": key, "text": text, "seed": self.seed,
                       "replay": replay}, fh, indent=1, default=str)
        self.violations.append((key, text, path))

    # ---- finish ----
    def finish(self):
        wall = time.time() - self.t0
        for k, text in sorted(set(self.known_hit)):
            print("KNOWN-FINDING: property=%s %s :: %s" % (self.pid, k, text[:300]))
        for key, text, path in self.violations:
            print("VIOLATION property=%s replay=%s" % (self.pid, path))
            print("   " + text[:600].replace("\n", "\n   "))
        never = sorted(a for a, (d, t) in self.actions.items() if t == 0)
        cov = {
            "states": self.states,
            "transitions": self.transitions,
            "traces_validated_against_impl": self.traces,
            "samples": self.samples or ["(none)"],
            "evaluations": self.evaluations,
            "distinct_nontrivial": len(self.nontrivial),
            "rule": self.rule,
            "exhaustive": self.exhaustive,
            "tlc_runs": self.tlc_runs,
            "actions_taken": {a: t for a, (d, t) in sorted(self.actions.items()) if t},
            "actions_never_enabled": never,
            "known_findings_hit": sorted(set(k for k, _ in self.known_hit)),
        }
        cov.update(self.extra)
        ev = {"property_id": self.pid, "tier": self.tier, "seed": self.seed, "level": "model_checking",
              "coverage": cov, "assumptions": self.assumptions, "wall_s": round(wall, 2),
              "violations": len(self.violations)}
        os.makedirs(os.path.join(VERIF, "evidence"), exist_ok=True)
        with open(os.path.join(VERIF, "evidence", self.pid + ".json"), "w") as fh:
            json.dump(ev, fh, indent=1, default=str)
        shutil.rmtree(self.work, ignore_errors=True)
        print("%s %s: states=%d transitions=%d impl_traces=%d evaluations=%d nontrivial=%d known=%d violations=%d wall=%.1fs"
              % (self.pid, self.tier, self.states, self.transitions, self.traces, self.evaluations,
                 len(self.nontrivial), len(set(self.known_hit)), len(self.violations), wall))
        return 1 if self.violations else 0


def _match(f, key):
    k = f["key"]
    if f.get("match", "exact") == "prefix":
        return key.startswith(k)
    return key == k


def main(argv=None):
    import argparse
    import importlib
    ap = argparse.ArgumentParser()
    ap.add_argument("pid")
    ap.add_argument("--tier", default=os.environ.get("VERIF_TIER", "quick"))
    ap.add_argument("--replay")
    ap.add_argument("--selftest", action="store_true")
    a = ap.parse_args(argv)
    seed = int(os.environ.get("VERIF_SEED", "0") or 0)
    pid = a.pid.upper()
    tier = a.tier if a.tier in ("quick", "thorough") else "quick"
    os.environ.setdefault("PYTHONHASHSEED", "0")
    mod = importlib.import_module("vf.props." + pid.lower())
    if a.replay:
        obj = json.load(open(a.replay))
        ok, text = mod.replay(obj["replay"])
        print(("REPRODUCED " if not ok else "NOT-REPRODUCED ") + text)
        return 1 if not ok else 0
    ctx = Ctx(pid, tier, seed)
    try:
        if a.selftest:
            return mod.selftest(ctx)
        mod.run(ctx)
    except _tlc.TLCFailure as ex:
        print("MACHINERY-FAILURE %s: %s" % (pid, ex))
        return 2
    except Exception:
        traceback.print_exc()
        print("MACHINERY-FAILURE %s: driver exception" % pid)
        return 2
    return ctx.finish()


if __name__ == "__main__":
    sys.exit(main())
