"""C04 — validation outcome does not depend on how an annotation is written.

TLC: specs/HedRewrite.tla — the verdict of HedRules.tla is invariant under exchanging sibling leaves and
exchanging a leaf with a sibling group, for every tree <= 4 nodes.  Binding A: every tree TLC enumerates
(valid and invalid, plus deep sampled ones) is rendered in a base form and in rewritten forms (other valid
spellings incl. letter case, other blank padding, reordered siblings at every level, all combined) and the
real validator must report the same multiset of error codes for all of them.
"""
import json
import multiprocessing as mp
import os

from .. import facts, hedgen, tlc

_G = {}


def _schema(version):
    if version not in _G:
        from hed import load_schema_version
        from hed.models.definition_dict import DefinitionDict
        s = load_schema_version(version)
        vocab = hedgen.Vocab(version)
        _G[version] = (s, DefinitionDict(vocab.defs, s), vocab)
    return _G[version]


def _perms():
    return {"reverse": lambda ks: list(reversed(ks)),
            "rotate": lambda ks: ks[1:] + ks[:1],
            "swap-ends": lambda ks: ([ks[-1]] + ks[1:-1] + [ks[0]]) if len(ks) > 1 else ks}


def _shuffler(seed):
    """sibling reordering that differs from group to group (so two copies of a group get different member orders)"""
    import random

    def f(kids):
        r = random.Random(seed * 1000003 + sum(kids) * 31 + len(kids))
        k2 = list(kids)
        r.shuffle(k2)
        return k2
    return f


def variants(case, vocab, rot, allow_ph):
    base = hedgen.render(case, vocab, rot, allow_ph=allow_ph, style=0)[0]
    out = [("base", base)]
    if case.get("sflaw", "none") != "none":
        # damaged text: only the blanks around the delimiters are varied (the damage itself is kept)
        for st in (1, 2, 3):
            out.append(("respace%d" % st, hedgen.render(case, vocab, rot, allow_ph=allow_ph, style=st)[0]))
        return out
    P = _perms()
    if case.get("dup"):
        for k in range(6):
            out.append(("reorder-shuffle%d" % k, hedgen.render(case, vocab, rot, allow_ph=allow_ph, style=0, perm=_shuffler(rot + k))[0]))
    out.append(("respell", hedgen.render(case, vocab, rot, allow_ph=allow_ph, style=0, forms=rot + 1)[0]))
    out.append(("respell-long", hedgen.render(case, vocab, rot, allow_ph=allow_ph, style=0, forms=rot + 2)[0]))
    out.append(("lowercase", hedgen.render(case, vocab, rot, allow_ph=allow_ph, style=0, casing=1)[0]))
    out.append(("uppercase", hedgen.render(case, vocab, rot, allow_ph=allow_ph, style=0, casing=2)[0]))
    out.append(("respace", hedgen.render(case, vocab, rot, allow_ph=allow_ph, style=1 + rot % 3)[0]))
    for name, f in P.items():
        out.append(("reorder-" + name, hedgen.render(case, vocab, rot, allow_ph=allow_ph, style=0, perm=f)[0]))
    out.append(("mixedcase", hedgen.render(case, vocab, rot, allow_ph=allow_ph, style=0, casing=3)[0]))
    out.append(("mixedupper", hedgen.render(case, vocab, rot, allow_ph=allow_ph, style=0, casing=4)[0]))
    out.append(("respelled-upper-alternate", hedgen.render(case, vocab, rot, allow_ph=allow_ph, style=0, casing=5)[0]))
    if not case.get("dup"):      # member order differing from group to group (two written-alike groups no longer are)
        for k in range(2):
            out.append(("reorder-shuffle%d" % k, hedgen.render(case, vocab, rot, allow_ph=allow_ph, style=0, perm=_shuffler(rot + k))[0]))
    out.append(("reorder-mixedcase", hedgen.render(case, vocab, rot, allow_ph=allow_ph, style=0, casing=3, perm=P["rotate"])[0]))
    out.append(("all", hedgen.render(case, vocab, rot, allow_ph=allow_ph, style=2, perm=P["reverse"], forms=rot + 1, casing=1)[0]))
    return out


def run_chunk(args):
    version, cases, base_rot = args
    from hed import HedString
    schema, dd, vocab = _schema(version)
    out = []
    for ci, case in cases:
        if not vocab.usable(case) or case.get("sflaw", "none") == "PARENTHESES_MISMATCH":
            continue
        rot = base_rot + ci * 13
        allow_ph = bool((ci + base_rot) % 2)
        res = []
        for name, text in variants(case, vocab, rot, allow_ph):
            try:
                issues = HedString(text, schema, dd).validate(allow_placeholders=allow_ph)
                res.append((name, text, sorted(i["code"] for i in issues if i.get("severity", 1) == 1)))
            except Exception as ex:  # noqa
                res.append((name, text, ["<raised %s>" % type(ex).__name__]))
        out.append((ci, allow_ph, res))
    return version, out


def run(ctx):
    quick = ctx.quick
    ctx.rule = ("cases = every abstract tree of HedRules.tla <= 3 nodes (<= 4 thorough) plus deep simulated trees <= 6 nodes, valid "
                "and invalid, concretised per schema by rotation; each rendered as base + 9 rewrites (2 respellings, lower/upper "
                "case, blank padding, 3 sibling reorderings at every level, all combined); distinct = (tree, schema); "
                "non-trivial = tree has >= 2 nodes")
    ctx.tlc("MC_HedRewrite", "MC_HedRewrite.cfg", workers=16, label="model: verdict invariant under sibling exchange, all trees <= 4 nodes",
            timeout=1800)
    gen = "MC_HedRules_gen.cfg" if quick else ctx.cfg("MC_HedRules_gen.cfg", ("MaxN = 3", "MaxN = 4"))
    r = ctx.tlc("MC_HedRules", gen, workers=1, label="tree enumeration", timeout=3000, heap="8g")
    cases = [j for j in r.json_lines if len(j["kind"]) >= 2]
    rs = ctx.tlc("MC_HedRules", "MC_HedRules_sim.cfg", workers=1, mode="simulate", simulate="num=%d" % (1500 if quick else 20000),
                 depth=7, seed=ctx.seed + 23, label="deep trees (simulate)", timeout=3000)
    seen = set()
    for j in rs.json_lines:
        k = json.dumps([j["par"], j["kind"]])
        if k not in seen:
            seen.add(k)
            cases.append(j)
    rd = ctx.tlc("MC_HedRules", "MC_HedRules_dup.cfg", workers=1, mode="simulate", simulate="num=%d" % (1200 if quick else 15000),
                 depth=8, seed=ctx.seed + 29, label="trees with a duplicated non-trivial group (simulate, <= 9 nodes)", timeout=3000)
    ndup = 0
    for j in rd.json_lines:
        k = json.dumps([j["par"], j["kind"]])
        if k not in seen:
            seen.add(k)
            j["dup"] = True
            cases.append(j)
            ndup += 1
    ctx.note("trees_with_duplicated_group", ndup)
    rn = ctx.tlc("MC_HedRules", "MC_HedRules_near.cfg", workers=1, label="neighbourhood of valid constructs incl. copied / flattened sub-trees", timeout=3000)
    nn = 0
    for j in rn.json_lines:
        k = json.dumps([j["par"], j["kind"]])
        if k not in seen:
            seen.add(k)
            if "TAG_EXPRESSION_REPEATED" in j["codes"] and "TAG_EMPTY" not in j["codes"]:
                j["dup"] = True      # (repeated EMPTY groups are reported as empty groups)
            cases.append(j)
            nn += 1
    ctx.note("neighbourhood_trees", nn)
    rc = ctx.tlc("MC_HedRules", "MC_HedRules_conf.cfg", workers=1, label="one step from sibling groups holding the same tags in different "
                 "nesting (a copy must be found beside a confusable sibling)", timeout=3000)
    nc = 0
    for j in rc.json_lines:
        k = json.dumps([j["par"], j["kind"]])
        if k not in seen:
            seen.add(k)
            if "TAG_EXPRESSION_REPEATED" in j["codes"] and "TAG_EMPTY" not in j["codes"]:
                j["dup"] = True
            j["always"] = True
            cases.append(j)
            nc += 1
    ctx.note("confusable_sibling_trees", nc)
    rt = ctx.tlc("MC_HedRules", "MC_HedRules_tl.cfg", workers=1, label="<= 2 steps from the Delay / Duration constructs, second tags "
                 "of the same name with another value", timeout=3000)
    ntl = 0
    for j in rt.json_lines:
        k = json.dumps([j["par"], j["kind"]])
        if k not in seen:
            seen.add(k)
            if "TAG_EXPRESSION_REPEATED" in j["codes"] and "TAG_EMPTY" not in j["codes"]:
                j["dup"] = True
            cases.append(j)
            ntl += 1
    ctx.note("delay_duration_neighbourhood_trees", ntl)
    rx = ctx.tlc("MC_HedRules", "MC_HedRules_dex.cfg", workers=1, label="one definition as Def tag and as Def-expand group in one annotation", timeout=3000)
    ndx = 0
    for j in rx.json_lines:
        k = json.dumps([j["par"], j["kind"]])
        if k not in seen and "dex" in j["kind"] and "def" in j["kind"]:
            seen.add(k)
            if "TAG_EXPRESSION_REPEATED" in j["codes"] and "TAG_EMPTY" not in j["codes"]:
                j["dup"] = True
            j["always"] = True
            cases.append(j)
            ndx += 1
    ctx.note("def_and_def_expand_trees", ndx)
    versions = [v for v, _ in facts.bundled()]
    jobs = []
    for vi, v in enumerate(versions):
        sel = [(ci, c) for ci, c in enumerate(cases) if (not quick) or c.get("always") or (ci + vi + ctx.seed) % 4 == 0]
        for b in range(0, len(sel), 400):
            jobs.append((v, sel[b:b + 400], ctx.seed * 53 + vi * 5))
    with mp.get_context("fork").Pool(14) as pool:
        results = pool.map(run_chunk, jobs, chunksize=1)
    nvar = 0
    for version, out in results:
        for ci, allow_ph, res in out:
            ctx.case("%d|%s" % (ci, version), nontrivial=True)
            ctx.traces += 1
            base = res[0]
            if cases[ci].get("dup"):
                for name, text, codes in res:
                    if "TAG_EXPRESSION_REPEATED" not in codes:
                        ctx.violation("repeat-missed:%s" % name.split("-")[0],
                                      "schema %s: %r holds a repeated group but TAG_EXPRESSION_REPEATED is not reported (%s)"
                                      % (version, text, codes), {"version": version, "allow_ph": allow_ph, "a": text, "b": text,
                                                                 "need": "TAG_EXPRESSION_REPEATED"})
            for name, text, codes in res[1:]:
                nvar += 1
                if codes != base[2]:
                    rules = sorted(set(codes) ^ set(base[2])) or sorted(set(codes))
                    ctx.violation("%s:%s" % (name.split("-")[0], ",".join(rules)),
                                  "schema %s: %r reports %s but its %s rewrite %r reports %s"
                                  % (version, base[1], base[2], name, text, codes),
                                  {"version": version, "allow_ph": allow_ph, "a": base[1], "b": text})
    ctx.note("rewritten_variants_validated", nvar)
    for version, out in results[:2]:
        for ci, allow_ph, res in out[5:7]:
            ctx.sample({"schema": version, "base": res[0][1], "codes": res[0][2], "rewrites": [t for _, t, _ in res[1:5]]})
    ctx.assumptions += ["rewrites keep values and units verbatim (unit symbols are case-sensitive by rule)",
                        "text-damaged cases (empty element, missing comma) are only re-spaced; unbalanced ones are not rewritten"]


def replay(obj):
    from hed import HedString
    schema, dd, _ = _schema(obj["version"])
    out = []
    for t in (obj["a"], obj["b"]):
        try:
            out.append(sorted(i["code"] for i in HedString(t, schema, dd).validate(allow_placeholders=obj["allow_ph"])
                              if i.get("severity", 1) == 1))
        except Exception as ex:  # noqa
            out.append(["<raised %s>" % type(ex).__name__])
    if obj.get("need"):
        return obj["need"] in out[0], "%r -> %s" % (obj["a"], out[0])
    return out[0] == out[1], "%r -> %s ; %r -> %s" % (obj["a"], out[0], obj["b"], out[1])
