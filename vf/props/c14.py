"""C14 — schema compliance checking accepts released schemas and flags seeded faults.

TLC: specs/Compliance.tla
  * model mode (MC_Compliance.cfg): the rule table Expected(fault, position features) is Deterministic over every
    (fault kind, well-formed feature vector); two broken tables (overlap / gap) must violate it;
  * facts mode (MC_Compliance_facts.cfg): the attribute declarations, feature vectors, attribute usages and
    allowedCharacter values of every bundled schema (read from the XML by vf/facts.py) are handed in as JSON; TLC
    checks Covered, DomainsClean, RangesDeclared, AllowedCharsKnown;
  * generation (MC_Compliance_gen.cfg): TLC emits, per schema and section, which attributes are declared for that
    section; the driver picks misplaced attributes from TLC's table;
  * trace mode (Trace_Compliance): every seeded case (fault kind, feature vector of the position, what was written,
    the NEW issues the real checker attributed to the position with warnings on / off) is judged by TLC.
Binding: (1) every bundled standard / partnered schema is loaded and checked: no error-severity issue;
(2) the driver edits a copy of the schema XML (ElementTree; many disjoint positions per reload), loads it with
hed.schema.from_string, runs check_compliance(check_for_warnings=True / False), subtracts the issues of the unseeded
schema and attributes the rest to positions through ec_section / ec_schema_tag (duplicates: the term in the message).
"""
import collections
import copy
import json
import multiprocessing as mp
import os
import re
import xml.etree.ElementTree as ET

from .. import facts, tlc

SEC_KEY = {"tag": "HedSectionKey.Tags", "unit": "HedSectionKey.Units", "unitClass": "HedSectionKey.UnitClasses",
           "unitModifier": "HedSectionKey.UnitModifiers", "valueClass": "HedSectionKey.ValueClasses",
           "attribute": "HedSectionKey.Attributes"}
SEC_XML = {"unitClass": ("unitClassDefinitions", "unitClassDefinition"),
           "unitModifier": ("unitModifierDefinitions", "unitModifierDefinition"),
           "valueClass": ("valueClassDefinitions", "valueClassDefinition"),
           "attribute": ("schemaAttributeDefinitions", "schemaAttributeDefinition")}
EXCLUDED = ("score_1.0.0", "testlib_1.0.2")        # stand-alone legacy libraries (statement)
STATEMENT_WHY = ("raises", "fault-not-reported", "fault-reported-with-other-code", "warning-returned-with-warnings-off",
                 "error-dropped-with-warnings-off", "released-schema-has-error")
FOO_ATTR = "fooAttribute"
# attributes whose misuse is the business of another fault kind when they ARE declared for the section
SPECIAL = {"unitClass", "valueClass", "takesValue", "suggestedTag", "relatedTag", "deprecatedFrom", "inLibrary", "hedId",
           "conversionFactor", "defaultUnits", "allowedCharacter", "rooted", "isPartOf"}
_G = {}


# ----------------------------------------------------------------------------------------------- facts -> constants
def vt(s):
    return [int(x) for x in s.split(".")]


def lib_ranges():
    path = os.path.join(facts.DATA, "library_data", "library_data.json")
    try:
        d = json.load(open(path))
    except OSError:
        return {}
    return {(k or "std"): list(v["id_range"]) for k, v in d.items() if "id_range" in v}


def known_versions():
    out = {}
    for v, _ in facts.bundled():
        lib, _, num = v.rpartition("_")
        out.setdefault(lib or "std", []).append(vt(num))
    return {k: sorted(x) for k, x in out.items()}


def schema_consts(f, bump=None):
    cur = {"std": vt(f.with_standard or f.version)}
    if f.library:
        cur[f.library] = vt(f.version)
    if bump:
        cur[f.library or "std"] = vt(bump)
    tags = []
    for t in f.tags:
        if not t["placeholder"]:
            tags += [t["name"], t["long"]]
    return {"gen": "v83" if f.is83 else "old",
            "decl": {a: sorted(d["props"].keys()) for a, d in f.attr_defs.items()},
            "props": list(f.prop_defs), "libs": [f.library] if f.library else [],
            "known": known_versions(), "current": cur, "ranges": lib_ranges(),
            "unitsOf": {c: list(cd["units"]) for c, cd in f.unit_classes.items()},
            "unitClasses": list(f.unit_classes), "valueClasses": list(f.value_classes),
            "tags": sorted(set(tags))}


def positions(f):
    """Every node / unit / class / modifier / attribute-definition occurrence with its feature vector."""
    gen = "v83" if f.is83 else "old"
    out = []

    def add(sec, name, attrs, ph=False, kids=False, sibs=False, cls="", depth=0, short=None):
        lib = attrs["inLibrary"][0] if isinstance(attrs.get("inLibrary"), list) else "std"
        out.append({"sec": sec, "name": name, "short": short or name, "attrs": attrs, "cls": cls, "depth": depth, "lib": lib,
                    "fv": {"sec": sec, "ph": ph, "kids": kids, "sibs": sibs, "lib": "inLibrary" in attrs,
                           "dep": "deprecatedFrom" in attrs, "gen": gen}})
    for t in f.tags:
        parent = f.by_long.get(t["parent"]) if t["parent"] else None
        add("tag", t["long"], t["attrs"], ph=t["placeholder"], kids=bool(t["children"]),
            sibs=bool(parent and len(parent["children"]) > 1), depth=t["depth"], short=t["name"])
    for c, cd in f.unit_classes.items():
        add("unitClass", c, cd["attrs"], kids=bool(cd["units"]), cls=c)
        for u, ud in cd["units"].items():
            add("unit", u, ud["attrs"], cls=c)
    for m, md in f.modifiers.items():
        add("unitModifier", m, md["attrs"])
    for m, md in f.value_classes.items():
        add("valueClass", m, md["attrs"])
    for a, ad in f.attr_defs.items():
        add("attribute", a, ad["props"])
    for i, p in enumerate(out):
        p["i"] = i
    return out


def model_facts(versions):
    schemas = []
    for v in versions:
        f = facts.load(v)
        pos = positions(f)
        fvs = [json.loads(x) for x in sorted({json.dumps(p["fv"], sort_keys=True) for p in pos})]
        usage = sorted({(p["sec"], a) for p in pos for a in p["attrs"]})
        chars = sorted({c for p in pos if isinstance(p["attrs"].get("allowedCharacter"), list) for c in p["attrs"]["allowedCharacter"]})
        schemas.append({"name": v, "S": schema_consts(f), "fvs": fvs, "usage": [{"sec": s, "attr": a} for s, a in usage],
                        "chars": chars})
    return {"schemas": schemas}


# ----------------------------------------------------------------------------------------------- XML editing
def xml_index(root):
    idx = {}

    def walk(el, prefix):
        for n in el.findall("node"):
            long = (prefix + "/" if prefix else "") + (n.findtext("name") or "")
            idx.setdefault(("tag", long), (n, el))
            walk(n, long)
    walk(root.find("schema"), "")
    for sec, (cont, item) in SEC_XML.items():
        c = root.find(cont)
        if c is None:
            continue
        for e in c.findall(item):
            idx.setdefault((sec, e.findtext("name")), (e, c))
            if sec == "unitClass":
                for u in e.iter("unit"):
                    idx.setdefault(("unit", u.findtext("name")), (u, e))
    return idx


def set_attr(el, name, values, prop=False):
    """Write attribute `name` on element: REPLACE the values where the entry already carries it (an added second
    occurrence is silently overridden by the loader), else add it after the name / description."""
    tagn = "property" if prop else "attribute"
    for a in el.findall(tagn):
        if a.findtext("name") == name:
            for v in a.findall("value"):
                a.remove(v)
            for val in (values or []):
                ET.SubElement(a, "value").text = val
            return
    a = ET.Element(tagn)
    ET.SubElement(a, "name").text = name
    for val in (values or []):
        ET.SubElement(a, "value").text = val
    pos = 0
    for i, ch in enumerate(list(el)):
        if ch.tag in ("name", "description", tagn):
            pos = i + 1
    el.insert(pos, a)


def apply_seed(root, idx, sec, name, seed):
    el, par = idx[(sec, name)]
    op = seed["op"]
    if op == "set":
        set_attr(el, seed["attr"], seed["values"], prop=(sec == "attribute"))
        return
    c = copy.deepcopy(el)
    for ch in list(c):
        if ch.tag in ("node", "unit", "units"):
            c.remove(ch)
    if op == "dup":                     # same parent: same full name
        par.append(c)
    else:                               # "dupelse": same name at another place
        for a in list(c.findall("attribute")):
            if a.findtext("name") == "rooted":
                c.remove(a)
        if sec == "tag":
            root.find("schema").append(c)
        else:
            other, _ = idx[("unitClass", seed["into"])]
            units = other.find("units")
            (units if units is not None else other).append(c)


def bumped(version):
    f = facts.load(version)
    a, b, c = vt(f.version)
    return "%d.%d.%d" % (a, b, c + 1)


def xml_text(version, bump):
    key = (version, bump)
    if key not in _G:
        path = dict(facts.bundled())[version]
        txt = open(path, encoding="utf-8").read()
        if bump:
            f = facts.load(version)
            txt, n = re.subn(r'(<HED\b[^>]*?\bversion=")%s(")' % re.escape(f.version), r"\g<1>%s\g<2>" % bump, txt, count=1)
            assert n == 1
        _G[key] = txt
    return _G[key]


# ----------------------------------------------------------------------------------------------- observation
def _install_wrapper():
    """Localise an exception raised while one entry is examined (observation aid; a violation is confirmed on the
    unpatched code with the single seed before it is reported)."""
    from hed.schema import schema_compliance as sc
    cls = getattr(sc, "SchemaValidator", None)
    orig = getattr(cls, "_check_tag_entry_attributes", None) if cls else None
    if orig is None or getattr(orig, "_c14", False):
        return orig is not None
    _G["orig_check"] = orig
    raised = _G.setdefault("raised", [])

    def wrapped(self, tag_entry):
        eh = getattr(self, "error_handler", None)
        depth = len(eh.error_context) if eh is not None and hasattr(eh, "error_context") else None
        try:
            return orig(self, tag_entry)
        except Exception as ex:  # noqa
            if depth is not None:
                del eh.error_context[depth:]
            raised.append((str(getattr(tag_entry, "section_key", "")), getattr(tag_entry, "name", "?"),
                           "%s: %s" % (type(ex).__name__, ex)))
            return []
    wrapped._c14 = True
    cls._check_tag_entry_attributes = wrapped
    return True


_DUP_RE = re.compile(r"Duplicate term '(.*?)' (?:used \d+ places|found in library and standard schemas) in '(HedSectionKey\.\w+)' section", re.S)


def issue_key(i):
    sec, tag = i.get("ec_section"), i.get("ec_schema_tag")
    if tag is None:
        m = _DUP_RE.search(i.get("message", ""))
        if m:
            sec, tag = m.group(2), "dup:" + m.group(1)
    return (str(sec), str(tag), str(i.get("ec_attribute") or ""), i.get("code"), int(i.get("severity", 1)), i.get("message", ""))


def check_both(schema):
    """(issues with warnings, issues without, [(section, name, exception)])"""
    raised = _G.setdefault("raised", [])
    del raised[:]
    out = []
    for w in (True, False):
        out.append(collections.Counter(issue_key(i) for i in schema.check_compliance(check_for_warnings=w)))
    r = sorted(set(raised))
    del raised[:]
    return out[0], out[1], r


def load_text(text, name):
    from hed.schema import from_string
    return from_string(text, schema_format=".xml", name=name)


def baseline(version, bump):
    key = ("base", version, bump)
    if key not in _G:
        s = load_text(xml_text(version, bump), "C14_%s" % version)
        _G[key] = check_both(s)
    return _G[key]


def run_round(job):
    """Seed one round (<= 1 seed per position), reload, check, attribute new issues to the seeded positions."""
    version, bump, seeds = job["version"], job["bump"], job["seeds"]
    _install_wrapper()
    b_on, b_off, _ = baseline(version, bump)
    root = ET.fromstring(xml_text(version, bump))
    idx = xml_index(root)
    for s in seeds:
        apply_seed(root, idx, s["sec"], s["name"], s)
    res = {"round": job["round"], "obs": {}, "stray": [], "load_raised": ""}
    try:
        schema = load_text(ET.tostring(root, encoding="unicode"), "C14_%s" % version)
        on, off, raised = check_both(schema)
    except Exception as ex:  # noqa
        res["load_raised"] = "%s: %s" % (type(ex).__name__, str(ex)[:200])
        return res
    seeded = {}
    for k, s in enumerate(seeds):
        key = (SEC_KEY[s["sec"]], ("dup:" + s["dupkey"]) if s["op"] != "set" else s["name"])
        seeded[key] = k
        res["obs"][k] = {"on": [], "off": [], "raised": ""}
    for name, cnt, base in (("on", on, b_on), ("off", off, b_off)):
        for key in (cnt - base):
            k = seeded.get((key[0], key[1]))
            if k is None:
                if name == "on":
                    res["stray"].append(list(key[:5]) + [key[5][:160]])
            else:
                res["obs"][k][name].append({"attr": key[2], "code": key[3], "sev": key[4], "msg": key[5][:200]})
    for sec, name, exc in raised:
        k = seeded.get((sec, name))
        if k is None:
            res["stray"].append([sec, name, "", "RAISED", 0, exc])
        else:
            res["obs"][k]["raised"] = exc
    return res


def single(version, bump, seed):
    """One seed, unpatched code: (on, off, raised) projected to the seeded position."""
    from hed.schema import schema_compliance as sc
    cls = getattr(sc, "SchemaValidator", None)
    cur = getattr(cls, "_check_tag_entry_attributes", None) if cls else None
    if cur is not None and getattr(cur, "_c14", False) and "orig_check" in _G:
        cls._check_tag_entry_attributes = _G["orig_check"]
    try:
        b_on, b_off, _ = baseline(version, bump)
        root = ET.fromstring(xml_text(version, bump))
        apply_seed(root, xml_index(root), seed["sec"], seed["name"], seed)
        key = (SEC_KEY[seed["sec"]], ("dup:" + seed["dupkey"]) if seed["op"] != "set" else seed["name"])
        try:
            schema = load_text(ET.tostring(root, encoding="unicode"), "C14_%s" % version)
            on, off, _ = check_both(schema)
        except Exception as ex:  # noqa
            return [], [], "%s: %s" % (type(ex).__name__, str(ex)[:200])
        pick = lambda cnt, base: [{"attr": k[2], "code": k[3], "sev": k[4], "msg": k[5][:200]} for k in (cnt - base) if (k[0], k[1]) == key]
        return pick(on, b_on), pick(off, b_off), ""
    finally:
        if cur is not None:
            cls._check_tag_entry_attributes = cur


# ----------------------------------------------------------------------------------------------- seeds
def example_values(f):
    """A value each value-bearing attribute takes somewhere in this schema (so that a misplaced one is otherwise sane)."""
    ex = {}
    for p in positions(f):
        if p["sec"] == "attribute":
            continue
        for a, v in p["attrs"].items():
            if isinstance(v, list) and v and a not in ex:
                ex[a] = [v[0]]
    return ex


def is_bool(f, a):
    pr = f.attr_defs.get(a, {}).get("props", {})
    return "boolProperty" in pr or "boolRange" in pr


def make_seeds(f, S, dom, bump=None):
    """[(position, seed)] for every fault kind x position; `dom[sec]` = attributes declared for the section (from TLC)."""
    pos = positions(f)
    ex = example_values(f)
    known = S["known"]
    out = []
    skipped = collections.Counter()
    good_tags = [t["name"] for t in f.tags if not t["placeholder"] and "deprecatedFrom" not in t["inh"]][:2]
    good_ucs = [c for c, cd in f.unit_classes.items() if "deprecatedFrom" not in cd["attrs"]]
    good_vcs = [c for c, cd in f.value_classes.items() if "deprecatedFrom" not in cd["attrs"]]
    ucs_with_units = [c for c, cd in f.unit_classes.items() if cd["units"]]
    prev_ids = {}
    if bump:
        # the previous released version of each library present: for the re-labelled library itself that is the bundled
        # file; for the standard part of a partnered library it is the release before withStandard
        own = f.library or "std"
        prevs = {own: f}
        if f.library and f.with_standard:
            older = [v for v in known.get("std", []) if v < vt(f.with_standard)]
            if older:
                prevs["std"] = facts.load("%d.%d.%d" % tuple(older[-1]))
        for lk, pf in prevs.items():
            for q in positions(pf):
                h = q["attrs"].get("hedId")
                if isinstance(h, list) and h and re.match(r"^HED_\d+$", h[0]):
                    prev_ids[(lk, q["sec"], q["name"])] = int(h[0][4:])
    rooted_bases = {t["attrs"]["rooted"][0].casefold() for t in f.tags if isinstance(t["attrs"].get("rooted"), list)}

    def ev(p, fault, var, attr, values, op="set", group="mixed", **det):
        d = {"val": (values[0] if values else ""), "ver": [0, 0, 0], "num": 0, "numeric": True, "prev": 0, "cls": p["cls"], "lib": p["lib"]}
        d.update(det)
        s = {"sec": p["sec"], "name": p["name"], "pi": p["i"], "fault": fault, "var": var, "attr": attr, "values": values, "op": op,
             "group": group, "det": d, "fv": p["fv"],
             # the term as the duplicate report names it: tags and unit names are matched case-insensitively
             "dupkey": p["short"].casefold() if p["sec"] == "tag" else
                       (p["name"].casefold() if p["sec"] == "unit" and "unitSymbol" not in p["attrs"] else p["name"])}
        out.append(s)
        return s

    def swap_one(cur, bad, k):
        cur = list(cur) if isinstance(cur, list) else []
        if not cur:
            return [bad]
        cur[k % len(cur)] = bad
        return cur

    for p in pos:
        sec, at, fv = p["sec"], p["attrs"], p["fv"]
        k = p["i"]
        if bump:        # version-bumped copy: only 'changed hedId' (the released version is the previous one and carries ids)
            h = at.get("hedId")
            rng = S["ranges"].get(p["lib"])
            if isinstance(h, list) and h and re.match(r"^HED_\d+$", h[0]) and "hedId" in dom[sec] and rng:
                cur_id = int(h[0][4:])
                old = prev_ids.get((p["lib"], sec, p["name"]), 0)
                new = cur_id + 1 if cur_id + 1 <= rng[1] else cur_id - 1
                # old = 0: the predecessor has no id for this entry -> TLC judges the case a compliant variant
                ev(p, "hedIdChanged", "changed" if old else "ctl-no-predecessor-id", "hedId", ["HED_%07d" % new], group="changed", num=new, prev=old)
                if k % 7 == 0 and old:
                    ev(p, "hedIdChanged", "ctl-same", "hedId", ["HED_%07d" % cur_id], group="changed", num=cur_id, prev=old)
            continue
        # --- duplicated name
        if not fv["ph"]:
            if sec == "unitClass" and set(at) == {"inLibrary"}:
                skipped["dup: unit class whose only attribute is inLibrary (loader merges such a repeat by design)"] += 1
            else:
                ev(p, "dupNode", "same-parent", "", None, op="dup", group="dup0")
                if sec == "tag" and p["depth"] > 0:
                    ev(p, "dupNode", "elsewhere", "", None, op="dupelse", group="dup1")
                elif sec == "unit":
                    others = [c for c in f.unit_classes if c != p["cls"]]
                    if others:
                        ev(p, "dupNode", "elsewhere", "", None, op="dupelse", group="dup1")["into"] = others[k % len(others)]
        # --- attribute not declared (for that section)
        ev(p, "undeclaredAttr", "unknown", FOO_ATTR if sec != "attribute" else "fooProperty", None)
        for a in sorted(f.attr_defs):
            if a in at:
                continue
            if a in dom[sec]:
                if sec == "tag" and a not in SPECIAL and is_bool(f, a):
                    ev(p, "undeclaredAttr", "ctl-declared", a, None)
                continue
            if is_bool(f, a):
                ev(p, "undeclaredAttr", "misplaced", a, None)
            elif a in ex:
                ev(p, "undeclaredAttr", "misplaced", a, ex[a])
            else:
                skipped["misplaced: value-bearing attribute never used in this schema (%s)" % a] += 1
        # --- tags
        if sec == "tag":
            if fv["ph"]:
                for fault, a, bad, good in (("badUnitClass", "unitClass", "fooUnitClass", good_ucs), ("badValueClass", "valueClass", "fooValueClass", good_vcs)):
                    if a in dom[sec]:
                        ev(p, fault, "bad", a, swap_one(at.get(a), bad, k), val=bad)
                        g = [c for c in good if c not in (at.get(a) if isinstance(at.get(a), list) else [])]
                        if g:
                            ev(p, fault, "ctl", a, swap_one(at.get(a), g[k % len(g)], k), val=g[k % len(g)])
            for fault, a in (("badSuggestedTag", "suggestedTag"), ("badRelatedTag", "relatedTag")):
                if a in dom[sec]:
                    ev(p, fault, "bad", a, swap_one(at.get(a), "No-such-tag-xyz", k), val="No-such-tag-xyz")
                    g = [t for t in good_tags if t != p["short"]]
                    if g and k % 5 == 0:
                        ev(p, fault, "ctl", a, swap_one(at.get(a), g[0], k), val=g[0])
            if not fv["ph"]:
                for a, vals in (("takesValue", None), ("unitClass", good_ucs[:1]), ("valueClass", good_vcs[:1])):
                    if a in dom[sec] and a not in at and (vals is None or vals):
                        ev(p, "classAttrNonPlaceholder", a, a, vals)
        # --- deprecatedFrom
        if "deprecatedFrom" in dom[sec]:
            cur = S["current"][p["lib"]] if p["lib"] in S["current"] else None
            kn = known.get(p["lib"], [])
            phase = (p["depth"] % 2) if sec == "tag" else (1 if sec == "unitClass" else 0)
            fmt = lambda v: "%d.%d.%d" % tuple(v)
            if cur:
                cands = [("unknown-old", [0, 0, 1]), ("unknown-new", [99, 0, 0]), ("current", cur)]
                newer = [v for v in kn if v > cur]
                older = [v for v in kn if v < cur]
                if newer:
                    cands.append(("newer", newer[0]))
                if older:
                    cands.append(("ctl-older", older[-1]))
                for var, v in cands:
                    ev(p, "badDeprecatedFrom", var, "deprecatedFrom", [fmt(v)], group="dep:%s:%d" % (var, phase), ver=v)
        # --- units, modifiers
        if sec in ("unit", "unitModifier") and "conversionFactor" in dom[sec]:
            for var, txt, num in (("zero", "0", 0), ("negative", "-1.5", -15), ("zero-float", "0.0", 0), ("ctl-positive", "2.5", 25)):
                ev(p, "nonPositiveFactor", var, "conversionFactor", [txt], num=num)
        if sec == "unitClass" and "defaultUnits" in dom[sec]:
            ev(p, "badDefaultUnits", "unknown", "defaultUnits", ["fooUnit"])
            others = [c for c in ucs_with_units if c != p["name"]]
            if others:
                oc = others[k % len(others)]
                ev(p, "badDefaultUnits", "other-class", "defaultUnits", [list(f.unit_classes[oc]["units"])[0]])
            own = [u for u, ud in f.unit_classes[p["name"]]["units"].items() if "deprecatedFrom" not in ud["attrs"]]
            if own:
                ev(p, "badDefaultUnits", "ctl-own", "defaultUnits", [own[-1]])
        if "allowedCharacter" in dom[sec] and sec != "tag":
            # appended, not swapped: an existing value may be what permits a character of the entry's own name
            have = list(at["allowedCharacter"]) if isinstance(at.get("allowedCharacter"), list) else []
            # an unknown class name; for every other position a known one in ANOTHER letter case (names are case-sensitive)
            badc = ["fooChars", "Digits", "TEXT", "Letters"][k % 4]
            ev(p, "badAllowedCharacter", "unknown", "allowedCharacter", have + [badc], val=badc)
            ev(p, "badAllowedCharacter", "ctl-letters", "allowedCharacter", have + ["letters"], val="letters")
        # --- inLibrary, hedId
        if "inLibrary" in dom[sec]:
            if sec == "tag" and (p["short"].casefold() in rooted_bases or p["name"].casefold() in rooted_bases):
                skipped["foreignInLibrary: standard tag that a library subtree is rooted at (the loader then refuses the schema: second fault)"] += 1
            else:
                # a foreign library name; for every other position one that is a PART of the schema's own library name
                own = f.library or ""
                foreign = (own[1:] if k % 4 == 1 else own[:-1]) if (len(own) > 3 and k % 2) else "foolib"
                ev(p, "foreignInLibrary", "foreign", "inLibrary", [foreign], group="inlib")
        rng = S["ranges"].get(p["lib"])
        if "hedId" in dom[sec] and rng:
            ev(p, "hedIdRange", "below", "hedId", ["HED_%07d" % (rng[0] - 1)], num=rng[0] - 1)
            ev(p, "hedIdRange", "above", "hedId", ["HED_%07d" % (rng[1] + 1)], num=rng[1] + 1)
            if rng[0] > 0:
                ev(p, "hedIdRange", "zero", "hedId", ["HED_0000000"], num=0)          # boundary: the smallest id there is
            if rng[0] > 1:
                ev(p, "hedIdRange", "one", "hedId", ["HED_0000001"], num=1)
            ev(p, "hedIdRange", "ctl-inside", "hedId", ["HED_%07d" % (rng[1] - k % 1000)], num=rng[1] - k % 1000)
    return pos, out, skipped


def pack_rounds(pos, seeds):
    """Rounds with at most one seed per position; kinds are rotated so that every round holds every kind."""
    by_group = collections.OrderedDict()
    for s in seeds:
        by_group.setdefault(s["group"], collections.OrderedDict()).setdefault(s["pi"], []).append(s)
    rounds = []
    for g, perpos in by_group.items():
        n = max(len(q) for q in perpos.values())
        for r in range(n):
            batch = []
            for pi, q in perpos.items():
                if r < len(q):
                    batch.append(q[(r + pi) % len(q)])      # a permutation of q over r = 0 .. len(q) - 1
            rounds.append((g, r, batch))
    return rounds


# ----------------------------------------------------------------------------------------------- per schema
def events_of(S, rounds_res, jobs):
    evs, meta = [], []
    for job, res in zip(jobs, rounds_res):
        for k, s in enumerate(job["seeds"]):
            o = res["obs"].get(k, {"on": [], "off": [], "raised": ""})
            raised = o["raised"] or res["load_raised"]
            e = {"fault": s["fault"], "fv": s["fv"], "attr": s["attr"], "raised": raised,
                 "on": [{"code": x["code"], "sev": x["sev"], "attr": x["attr"]} for x in o["on"]],
                 "off": [{"code": x["code"], "sev": x["sev"], "attr": x["attr"]} for x in o["off"]]}
            e.update(s["det"])
            evs.append(e)
            meta.append((job, s, o))
    return evs, meta


def run_tlc_trace(work, tag, S, evs):
    """TLC judges every DISTINCT recorded event once (identical records of different entries share one state);
    returns the run and [(event number, why, expected code)] for every recorded event that is rejected."""
    uniq, members = {}, []
    for n, e in enumerate(evs):
        k = json.dumps(e, sort_keys=True)
        if k not in uniq:
            uniq[k] = len(members)
            members.append([])
        members[uniq[k]].append(n + 1)
    distinct = [json.loads(k) for k in uniq]
    path = os.path.join(work, "trace_%s.json" % tag)
    with open(path, "w") as fh:
        json.dump({"S": S, "events": distinct}, fh)
    r = tlc.run("Trace_Compliance", "Trace_Compliance.cfg", workers=1, env={"TRACE_FILE": path}, timeout=3000, workdir=work, heap="2g")
    rej = [(int(m.group(1)), m.group(2), m.group(3)) for m in re.finditer(r'<<"REJECT", (\d+), "([\w-]+)", "(\w*)">>', r.stdout)]
    checked = re.search(r'<<"CHECKED", (\d+)>>', r.stdout)
    if not checked or int(checked.group(1)) != len(distinct):
        raise tlc.TLCFailure("Trace_Compliance consumed %s of %s events for %s\n%s" % (checked and checked.group(1), len(distinct), tag, r.stdout[-1500:]))
    os.remove(path)
    return r, [(n, why, code) for i, why, code in rej for n in members[i - 1]]


def do_schema(args):
    """All rounds of one (schema, bump) in this process; returns events judged by TLC."""
    version, bump, dom, quick, seed, work, nshare, share = args
    _setup_cache(work)
    # history: another bundled schema is checked in this process FIRST (the verdict on a schema must not depend on what the
    # process checked before); rotating choice among the other schemas, preferring one with a different library
    others = [v for v, _ in facts.bundled() if v not in EXCLUDED and v != version]
    diff = [v for v in others if facts.load(v).library != facts.load(version).library] or others
    diff = [v for v in diff if facts.load(v).is83 == facts.load(version).is83] or diff      # same generation of rules: shared code paths
    prior = diff[(seed + sum(map(ord, version)) + (1 if bump else 0)) % len(diff)]
    if ("prior", prior) not in _G:
        from hed.schema import load_schema
        _G[("prior", prior)] = len(load_schema(dict(facts.bundled())[prior]).check_compliance(check_for_warnings=True))
    f = facts.load(version)
    S = schema_consts(f, bump)
    pos, seeds, skipped = make_seeds(f, S, dom, bump)
    b_on, b_off, _ = baseline(version, bump)
    # positions that already draw an issue in the released schema are not seeded (the case must start compliant)
    dirty = {(k[0], k[1]) for k in b_on}
    seeds = [s for s in seeds if (SEC_KEY[s["sec"]], s["name"]) not in dirty]
    rounds = pack_rounds(pos, seeds)
    total_rounds = len(rounds)
    if quick:
        rounds = pick_quick(rounds, seed)
    rounds = [r for k, r in enumerate(rounds) if k % nshare == share]
    jobs = [{"version": version, "bump": bump, "round": "%s#%d" % (g, r), "seeds": batch} for g, r, batch in rounds if batch]
    results = [run_round(j) for j in jobs]
    # a round that could not even be loaded (or whose check raised outside the per-entry wrapper): bisect it
    k = 0
    while k < len(jobs):
        if results[k]["load_raised"] and len(jobs[k]["seeds"]) > 1:
            sd = jobs[k]["seeds"]
            halves = [dict(jobs[k], seeds=sd[:len(sd) // 2]), dict(jobs[k], seeds=sd[len(sd) // 2:])]
            jobs[k:k + 1] = halves
            results[k:k + 1] = [run_round(h) for h in halves]
        else:
            k += 1
    evs, meta = events_of(S, results, jobs)
    rel = None
    if not bump and share == 0:
        rel = {"fault": "released", "on": [{"code": k[3], "sev": k[4], "attr": k[2]} for k in b_on],
               "off": [{"code": k[3], "sev": k[4], "attr": k[2]} for k in b_off]}
        evs.append(rel)
    tag = "%s_%s_%d" % (version, bump or "rel", share)
    r, rej = run_tlc_trace(work, tag, S, evs)
    out = {"version": version, "bump": bump, "n": len(evs), "share": share,
           "distinct": len({(s_["sec"], s_["name"], s_["fault"], s_["var"], s_["attr"]) for _, s_, _ in meta}), "states": r.distinct, "transitions": r.generated, "wall": r.wall,
           "rounds": len(jobs), "total_rounds": total_rounds, "positions": len(pos), "dirty": len(dirty),
           "skipped": dict(skipped), "rej": [], "stray": collections.Counter(), "stray_ex": [],
           "faults": collections.Counter(), "released": rel, "sample": None}
    for (job, s, o) in meta:
        out["faults"]["%s/%s" % (s["fault"], s["sec"])] += 1
    for res, j in zip(results, jobs):
        for st in res["stray"]:
            grp = j["round"].split(":")[0].split("#")[0]
            tolerated = (grp == "dep" and st[3] == "SCHEMA_DEPRECATION_ERROR") or \
                        (grp == "inlib" and st[3] == "SCHEMA_DEPRECATION_ERROR")
            out["stray"][("tolerated:" if tolerated else "unattributed:") + "%s:%s:%s" % (grp, st[3], st[2])] += 1
            if not tolerated and len(out["stray_ex"]) < 5:
                out["stray_ex"].append([j["round"]] + st)
    for i, why, code in rej:
        if i - 1 < len(meta):
            job, s, o = meta[i - 1]
            out["rej"].append({"why": why, "code": code, "version": version, "bump": bump, "round": job["round"],
                               "seed": {k: s[k] for k in ("sec", "name", "fault", "var", "attr", "values", "op", "dupkey", "fv") if k in s} | ({"into": s["into"]} if "into" in s else {}),
                               "obs": o})
        else:
            out["rej"].append({"why": why, "code": code, "version": version, "bump": bump, "round": "released", "seed": None,
                               "obs": {"on": [x for x in rel["on"] if x["sev"] == 1][:5], "off": rel["off"][:5], "raised": ""}})
    if meta:
        job, s, o = meta[len(meta) // 3]
        out["sample"] = {"schema": version + (" as " + bump if bump else ""), "fault": s["fault"], "variant": s["var"], "section": s["sec"], "entry": s["name"],
                         "written": {s["attr"]: s["values"]} if s["op"] == "set" else s["op"],
                         "new_issues": [(x["code"], x["sev"]) for x in o["on"]], "with_warnings_off": [(x["code"], x["sev"]) for x in o["off"]]}
    return out


def pick_quick(rounds, seed):
    """A rotating sample: per group family a few rounds, chosen by the seed (every round is reached over seeds)."""
    fam = collections.OrderedDict()
    for r in rounds:
        g = r[0]
        fam.setdefault("dep" if g.startswith("dep:") else ("dup" if g.startswith("dup") else g), []).append(r)
    quota = {"mixed": 4, "dup": 2, "inlib": 1, "changed": 1}
    out = []
    for g, rs in fam.items():
        if g == "dep":      # one round per variant of the version fault (unknown-old / unknown-new / current / newer / older control)
            byvar = collections.OrderedDict()
            for r in rs:
                byvar.setdefault(r[0].split(":")[1], []).append(r)
            out += [v[seed % len(v)] for v in byvar.values()]
            continue
        n = min(len(rs), quota.get(g, 1))
        start = (seed * n) % len(rs)
        step = max(1, len(rs) // n)
        out += [rs[(start + k * step) % len(rs)] for k in range(n)]
    return out


def _setup_cache(work):
    """Private schema cache holding exactly the bundled versions (known versions = released versions)."""
    if _G.get("cache"):
        return
    from hed.schema import hed_cache
    d = os.path.join(work, "hed_cache")
    hed_cache.set_cache_directory(d)
    hed_cache.cache_local_versions(d)
    _G["cache"] = d


# ----------------------------------------------------------------------------------------------- run / replay
def vkey(rj):
    """Class of failing input: failing clause, exception type, fault kind, then the misplaced attribute (its value rule
    is what assumes a section) or section and library membership of the entry."""
    s = rj["seed"]
    if s is None:
        return "%s:%s" % (rj["why"], rj["version"])
    exc = ""
    if rj["why"] == "raises":
        exc = ":" + (rj["obs"].get("raised") or "?").split(":")[0]
    if s["fault"] == "undeclaredAttr":
        return "%s%s:%s:%s" % (rj["why"], exc, s["fault"], s["attr"] if s["var"] == "misplaced" else s["var"])
    return "%s%s:%s:%s:%s" % (rj["why"], exc, s["fault"], s["sec"], "library-entry" if s["fv"]["lib"] else "standard-entry")


def run(ctx):
    import hed  # noqa  (import once in the parent)
    quick = ctx.quick
    ctx.rule = ("cases = (bundled standard / partnered schema) x (every node, unit, unit class, modifier, value class and "
                "attribute definition) x (every fault kind applicable there, in its variants: unknown / misplaced attribute "
                "drawn from TLC's domain table, unknown / current / newer version, below / above id range, ...) plus "
                "compliant control variants; thorough = all of them, quick = a seed-rotated sample of reload rounds; "
                "distinct = (schema, entry, fault kind, variant); non-trivial = every seeded case (the schema is reloaded)")
    versions = [v for v, _ in facts.bundled() if v not in EXCLUDED]
    # --- facts of the bundled schemas: Covered etc., and the domain table the seeder draws misplaced attributes from
    fpath = os.path.join(ctx.work, "facts.json")
    with open(fpath, "w") as fh:
        json.dump(model_facts(versions), fh)
    ctx.tlc("MC_Compliance", "MC_Compliance_facts.cfg", workers=4, coverage=True, env={"FACTS_FILE": fpath},
            label="bundled schemas: Covered, DomainsClean, RangesDeclared, AllowedCharsKnown")
    g = ctx.tlc("MC_Compliance", "MC_Compliance_gen.cfg", workers=1, env={"FACTS_FILE": fpath}, label="domain table per schema and section")
    dom = {}
    for j in g.json_lines:
        dom.setdefault(j["schema"], {})[j["sec"]] = sorted(j["indomain"])
    if set(dom) != set(versions) or any(len(d) != 6 for d in dom.values()):
        raise tlc.TLCFailure("domain table incomplete: %s" % {k: len(v) for k, v in dom.items()})
    _setup_cache(ctx.work)
    # --- seeding (worker processes) while the design runs of the rule table go on in this process
    plan = []
    for v in versions:
        plan.append((v, None))
        f = facts.load(v)
        if f.is83:
            plan.append((v, bumped(v)))        # generated version pair: the released version becomes the predecessor (with ids)
    nshare = 1 if quick else 4
    jobs = [(v, b, dom[v], quick, ctx.seed, ctx.work, (1 if b else nshare), sh) for v, b in plan for sh in range(1 if b else nshare)]
    design_err = []

    def design():
        try:
            ctx.tlc("MC_Compliance", "MC_Compliance.cfg", workers=2, coverage=True,
                    label="rule table: Deterministic, SpecCodesOnly, WarningsOffOnlyErrors")
            for cfg in ("MC_Compliance_overlap.cfg", "MC_Compliance_gap.cfg"):
                r = ctx.tlc("MC_Compliance", cfg, workers=2, expect_ok=False, label="sensitivity: broken rule table")
                if r.violated != "Deterministic":
                    raise tlc.TLCFailure("sensitivity run %s did not violate Deterministic" % cfg)
        except Exception as ex:  # noqa
            design_err.append(ex)
    import threading
    with mp.get_context("fork").Pool(min(14, len(jobs))) as pool:
        th = threading.Thread(target=design)
        th.start()
        results = pool.map(do_schema, jobs, chunksize=1)
        th.join()
    if design_err:
        raise design_err[0]
    drift = collections.Counter()
    drift_ex = {}
    stray = collections.Counter()
    faults = collections.Counter()
    skipped = {}
    per_schema = {}
    for res in results:
        v = res["version"] + ("->" + res["bump"] if res["bump"] else "")
        ctx.states += res["states"]
        ctx.transitions += res["transitions"]
        ctx.tlc_runs.append({"module": "Trace_Compliance", "label": "seeded cases " + v, "states": res["states"],
                             "transitions": res["transitions"], "wall_s": round(res["wall"], 1)})
        ctx.traces += res["n"]
        ctx.case(None, nontrivial=False, n=res["n"])
        faults.update(res["faults"])
        stray.update(res["stray"])
        skipped.update({"%s: %s" % (res["version"], k): n for k, n in res["skipped"].items()})
        ps = per_schema.setdefault(v, {"positions": res["positions"], "rounds": 0, "of_rounds": res["total_rounds"], "cases": 0,
                                       "positions_with_released_warnings": res["dirty"]})
        ps["rounds"] += res["rounds"]
        ps["cases"] += res["n"]
        if res["sample"]:
            ctx.sample(res["sample"], cap=8)
        for rj in res["rej"]:
            why = rj["why"]
            if why.startswith("machinery"):
                raise tlc.TLCFailure("driver produced a case the spec cannot judge: %s" % json.dumps(rj, default=str)[:800])
            if why.startswith("drift"):
                k = "%s:%s:%s:%s" % (why, rj["seed"]["fault"], rj["seed"]["sec"], rj["seed"]["fv"]["gen"])
                drift[k] += 1
                drift_ex.setdefault(k, {"schema": v, "entry": rj["seed"]["name"], "written": {rj["seed"]["attr"]: rj["seed"]["values"]},
                                        "new_issues": [(x["code"], x["sev"], x["msg"][:120]) for x in rj["obs"]["on"]]})
                continue
            _report(ctx, rj)
        for ex in res["stray_ex"]:
            drift_ex.setdefault("unattributed:" + str(ex[4]), ex)
    ctx.nontrivial.update("%s|%s|%d|%d" % (r["version"], r["bump"], r["share"], k) for r in results for k in range(r["distinct"]))
    ctx.note("cases_per_fault_and_section", dict(sorted(faults.items())))
    ctx.note("per_schema", per_schema)
    ctx.note("spec_drift", sum(drift.values()))
    ctx.note("spec_drift_classes", dict(sorted(drift.items())))
    ctx.note("spec_drift_examples", drift_ex)
    ctx.note("issues_at_unseeded_positions", dict(sorted(stray.items())))
    ctx.note("not_seeded", skipped)
    ctx.exhaustive = not quick
    ctx.assumptions += [
        "specification codes per fault kind are transcribed into Compliance.tla from the HED specification's schema-error list "
        "(SCHEMA_ATTRIBUTE_INVALID, SCHEMA_ATTRIBUTE_VALUE_INVALID, SCHEMA_DEPRECATION_ERROR, SCHEMA_DUPLICATE_NODE); the "
        "specification document itself is not available offline",
        "'released versions' = the versions bundled with the package, placed in a private cache directory for the run",
        "'changed hedId' is exercised on generated version pairs: the bundled 8.3-generation schemas (the only ones carrying ids) "
        "are re-labelled with the next patch version, so that the released file in the cache is their predecessor; standard entries "
        "of a partnered library keep a predecessor without ids and are therefore not exercisable for this fault kind",
        "a repeated '#' placeholder is not a duplicated node NAME and is not seeded (the checker does not report it)",
        "positions that already draw a warning in the released schema (8.0.0: 9 issues on 7 entries, score_1.1.0: 1 entry) are not seeded",
        "issues at positions other than the seeded one (e.g. users of an entry that was just deprecated) are counted in "
        "issues_at_unseeded_positions, not judged",
        "severity of value-rule reports (warning) and the absence of further issues at the seeded position are detail beyond the "
        "statement: disagreements are counted as spec_drift",
        "an exception raised while one entry is examined is localised by wrapping SchemaValidator._check_tag_entry_attributes in "
        "the check process; every reported violation is first re-run alone on the unwrapped code"]


def _report(ctx, rj):
    key = vkey(rj)
    if key in ctx._seen_v:
        return
    s = rj["seed"]
    if s is None:
        ctx.violation(key, "released schema %s: check_compliance returns error-severity issues %s" % (rj["version"], rj["obs"]["on"]),
                      {"version": rj["version"], "bump": None, "seed": None, "why": rj["why"], "code": ""})
        return
    # confirm on the unwrapped code with this seed alone
    on, off, raised = single(rj["version"], rj["bump"], s)
    ok, text = _judge(rj["why"], rj["code"], on, off, raised)
    if ok:
        ctx.bump("not_confirmed_alone")
        ctx.note("not_confirmed_example", {"key": key, "text": text})
        return
    what = ("duplicate of the entry (%s)" % s["op"]) if s["op"] != "set" else "%s = %s" % (s["attr"], s["values"] if s["values"] else "(no value)")
    ctx.violation(key, "schema %s%s, %s '%s': seeded %s [%s/%s]; the specification's code for this fault is %s; %s"
                  % (rj["version"], " relabelled " + rj["bump"] if rj["bump"] else "", s["sec"], s["name"], what, s["fault"], s["var"],
                     rj["code"] or "(none: compliant variant)", text),
                  {"version": rj["version"], "bump": rj["bump"], "seed": s, "why": rj["why"], "code": rj["code"]})


def _judge(why, code, on, off, raised):
    """Re-evaluate the one recorded clause on a single-seed observation: (ok, text)."""
    codes_on = [(x["code"], x["sev"]) for x in on]
    codes_off = [(x["code"], x["sev"]) for x in off]
    desc = "check_compliance(True) adds %s at the entry, check_compliance(False) adds %s" % (codes_on or "nothing", codes_off or "nothing")
    if raised:
        return False, "check_compliance raises %s" % raised
    if why == "raises":
        return True, "no exception; " + desc
    if why in ("fault-not-reported", "fault-reported-with-other-code"):
        return any(c == code for c, _ in codes_on), desc
    if why == "warning-returned-with-warnings-off":
        return all(sv == 1 for _, sv in codes_off), desc
    if why == "error-dropped-with-warnings-off":
        return any(c == code for c, _ in codes_off), desc
    return True, desc


def replay(obj):
    import hed  # noqa
    work = os.path.join(os.path.dirname(os.path.dirname(os.path.dirname(os.path.abspath(__file__)))), ".work", "C14_replay")
    os.makedirs(work, exist_ok=True)
    _setup_cache(work)
    if obj.get("seed") is None:
        b_on, b_off, _ = baseline(obj["version"], None)
        import shutil
        shutil.rmtree(work, ignore_errors=True)
        errs = [(k[3], k[1]) for k in b_on if k[4] == 1]
        return (not errs), "released schema %s: error-severity issues %s" % (obj["version"], errs[:5])
    try:
        on, off, raised = single(obj["version"], obj.get("bump"), obj["seed"])
    finally:
        import shutil
        shutil.rmtree(work, ignore_errors=True)
    ok, text = _judge(obj["why"], obj.get("code", ""), on, off, raised)
    return ok, "%s '%s' in %s, %s: %s (expected code %s)" % (obj["seed"]["sec"], obj["seed"]["name"], obj["version"],
                                                             obj["seed"]["fault"], text, obj.get("code") or "-")
