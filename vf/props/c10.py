"""C10 — Onset/Offset/Inset bookkeeping follows the event history exactly.

TLC: specs/Temporal.tla (algorithm == declarative restatement, all histories <= L);
histories enumerated by TLC are concretised into events files (one row / equal-onset rows /
Delay-shifted groups), validated by the real TabularInput.validate, and the per-marker verdicts
and the validator's open-scope set after each time point are validated by TLC (Trace_Temporal).
"""
import json
import multiprocessing as mp
import os
import random
import re

from .. import tlc

NAMES = {"a": "Abc", "b": "Bcd"}
DEFS = "(Definition/Abc, (Red)), (Definition/Bcd/#, (Age/#))"
_G = {}


def _variant(word, i):
    """i-th distinct letter-case variant of word (bit mask over letters)."""
    masks = [0b000, 0b111, 0b100, 0b010, 0b001, 0b110, 0b101, 0b011]
    m = masks[i % 8]
    return "".join(c.upper() if (m >> (len(word) - 1 - j)) & 1 else c.lower() for j, c in enumerate(word))


def _spelling(key, i):
    base, _, val = key.partition("/")
    w = _variant(NAMES[base], i)
    return w + ("/" + val if val else "")


def _marker_text(kind, sp, i, delay=None):
    if delay is not None:
        inner = ", (Blue)" if (kind != "Offset" and i % 2) else ""
        # the Delay tag in any letter case / long form, its value in any unit spelling of the time class
        ms = "%g" % (float(delay) * 1000)
        dtag = ["Delay/%s s" % delay, "DELAY/%s s" % delay, "delay/%s ms" % ms, "Delay/%s second" % delay,
                "Temporal-value/DeLaY/%s ms" % ms, "Delay/%s Seconds" % delay][i % 6]
        if float(ms) != float(delay) * 1000 or "e" in ms:
            dtag = "Delay/%s s" % delay
        return "(%s, %s, Def/%s%s)" % (dtag, kind, sp, inner)
    if kind != "Offset" and i % 3 == 1:
        return "(Def/%s, %s, (Blue))" % (sp, kind)
    if i % 2:
        return "(%s, Def/%s)" % (kind, sp)
    return "(Def/%s, %s)" % (sp, kind)


def concretise(hist, rng):
    """history (list of {k,key,tp}) -> (rows [(onset_str, hed)], tps [[marker idx]], spellings)."""
    tps = []
    for i, m in enumerate(hist):
        if m["tp"]:
            tps.append([])
        tps[-1].append(i)
    rows = []     # (time float, order, onset string, hed)
    spell = {}
    # every fourth history in tenths of a second: carrier onset + Delay then differs from the onset written in the other rows of
    # the time point by floating-point noise (0.1 + 0.2 vs 0.3) - they are still one time point
    small = rng.random() < 0.25
    # every third history: Delay-shifted markers are always written the same way (one spelling per name, one delay, nothing else
    # in the carrier), so that carrier rows of different time points can hold IDENTICAL text
    samecarrier = rng.random() < 0.34
    dfix = rng.choice([3, 5]) if not small else rng.choice([2, 3])
    for j, idxs in enumerate(tps):
        t = (j + 1) * 10
        mode = rng.choice(["one", "one", "rows", "delay", "delay"])
        fmt = rng.choice(["%d", "%d.0", "%d.00"])
        if small:
            fmt = "%g"
        texts = []
        for i in idxs:
            spell[i] = _spelling(hist[i]["key"], i)
        delayed = []
        # two markers of one kind for one name at the end of a time point: (most of the time) both are shifted from ONE carrier row
        # and written the same way but for the letter case of the name - as groups they are equal, as markers they are two
        twin = (len(idxs) >= 2 and hist[idxs[-1]]["k"] == hist[idxs[-2]]["k"] and hist[idxs[-1]]["key"] == hist[idxs[-2]]["key"]
                and rng.random() < 0.7)
        if twin:
            mode = "delay"
        if mode == "delay":
            # the code appends shifted groups after the rows of that onset; sometimes TWO markers of the time
            # point are shifted from one and the same carrier row
            delayed = idxs[-2:] if (len(idxs) >= 2 and (twin or rng.random() < 0.6)) else idxs[-1:]
        for i in idxs:
            if i in delayed:
                continue
            texts.append(_marker_text(hist[i]["k"], spell[i], i))
        if delayed:
            if twin:
                d = dfix
                carrier = ", ".join(_marker_text(hist[i]["k"], spell[i], 0, delay=(d / 100.0 if small else d)) for i in delayed)
            elif samecarrier:
                d = dfix
                for i in delayed:        # (within ONE time point every marker keeps a spelling of its own)
                    fixed = _spelling(hist[i]["key"], 0)
                    if fixed not in [spell[x] for x in idxs if x != i]:
                        spell[i] = fixed
                carrier = ", ".join(_marker_text(hist[i]["k"], spell[i], 0, delay=(d / 100.0 if small else d)) for i in delayed)
            else:
                d = rng.choice([3, 5, 2.5]) if not small else rng.choice([2, 3, 7])
                carrier = ", ".join(_marker_text(hist[i]["k"], spell[i], i, delay=(d / 100.0 if small else d)) for i in delayed)
                if rng.random() < 0.5:
                    carrier = "Green, " + carrier
            ct = t - d
            rows.append((ct, 0, ("%g" % (ct / 100.0)) if small else (("%s" % ct) if d == 2.5 else fmt % int(ct)), carrier, j))
        if mode == "rows" and len(texts) > 1:
            for n, tx in enumerate(texts):
                rows.append((t, 1 + n, ("%g" % (t / 100.0)) if small else (fmt if n % 2 == 0 else "%d.0") % t, tx, j))
        elif texts:
            if rng.random() < 0.3:
                texts.insert(rng.randrange(len(texts) + 1), "Square")
            rows.append((t, 1, ("%g" % (t / 100.0)) if small else fmt % t, ", ".join(texts), j))
        if rng.random() < 0.2:
            rows.append((t + 1, 0, ("%g" % ((t + 1) / 100.0)) if small else fmt % (t + 1), "Circle", None))
    rows.sort(key=lambda r: (r[0], r[1]))
    return [(r[2], r[3]) for r in rows], tps, spell, [r[4] for r in rows]


def _fold(sp):
    base, _, val = sp.partition("/")
    return {"abc": "a", "bcd": "b"}.get(base.casefold(), "?") + ("/" + val if val else "")


def execute(case):
    """Run the real validator on one concretised history; project to per-marker verdicts + open sets."""
    import pandas as pd
    from hed import TabularInput
    from hed.validator import onset_validator as ov
    schema, dd = _G["schema"], _G["dd"]
    hist, rows, tps, spell = case["hist"], case["rows"], case["tps"], case["spell"]
    df = pd.DataFrame({"onset": [r[0] for r in rows], "HED": [r[1] for r in rows]})
    calls = []
    relabel = case.get("n", 0) % 3 == 1
    if relabel:
        df.index = [11 + 2 * i for i in range(len(rows))]       # row labels that are not 0..n-1 (a filtered / re-read table)
    real = ov.OnsetValidator.validate_temporal_relations

    def wrapped(self, hs):
        r = real(self, hs)
        try:
            calls.append((str(hs), sorted(self._onsets.keys())))
        except Exception:
            calls.append((str(hs), None))
        return r
    ov.OnsetValidator.validate_temporal_relations = wrapped
    try:
        issues = TabularInput(df).validate(schema, extra_def_dicts=dd)
    except Exception as ex:   # noqa
        return dict(case, raised="%s: %s" % (type(ex).__name__, ex))
    finally:
        ov.OnsetValidator.validate_temporal_relations = real
    # history: ONE SpreadsheetValidator object validates file after file (a file may legally end with open scopes);
    # what it reports for this file must be what a fresh validator reports
    shared_diff = None
    try:
        from hed.validator.spreadsheet_validator import SpreadsheetValidator
        if "sv" not in _G:
            _G["sv"] = SpreadsheetValidator(schema)
        proj = lambda L: sorted((str(x.get("code")), str(x.get("ec_row")), str(x.get("message"))[:80]) for x in L)
        i2 = _G["sv"].validate(TabularInput(df), dd)
        if proj(i2) != proj(issues):
            shared_diff = "a validator object that validated other files before reports %s, a fresh one %s" % (proj(i2), proj(issues))
    except Exception as ex:  # noqa
        shared_diff = "a validator object that validated other files before raised %s: %s" % (type(ex).__name__, ex)
    # file row (header = 1) in which each marker is written
    rowof = {}
    for sp in set(spell.values()):
        same = sorted(i for i, x in spell.items() if x == sp)        # markers written with this spelling, in history order
        occ = [k + 2 for k, r in enumerate(rows) for _ in re.findall(r"Def/" + re.escape(sp) + r"(?![\w/])", r[1])]
        if len(same) == 1:
            if occ:
                rowof[same[0]] = occ[-1]
        # several markers share the spelling: their rows are found through the time points below (onset / carrier), not here
    # rows that belong to a marker's time point: rows with that onset and the carrier rows of its Delay-shifted markers
    # (issues of a merged time point are labelled with ONE of its rows)
    tprows = {}
    for j, idxs in enumerate(tps):
        rs = {rowof[i] for i in idxs if i in rowof} | {k + 2 for k, tp in enumerate(case.get("rowtp") or []) if tp == j} | {k + 2 for k, r in enumerate(rows) if min(abs(float(r[0]) - (j + 1) * 10), abs(float(r[0]) * 100 - (j + 1) * 10)) < 1e-6}
        for i in idxs:
            tprows[i] = rs
    wrongrow = []
    verdict = {i: "ok" for i in range(len(hist))}
    unattributed = []
    other = []
    by_sp = {}            # (a 3-letter name has 8 letter-case spellings: histories of 9+ markers re-use one, told apart by the row)
    for i, sp in sorted(spell.items()):
        by_sp.setdefault(sp, []).append(i)
    if relabel:          # issues name the row by its LABEL (+2): translate back to the position in the file
        for L in (issues,):
            for iss in L:
                r = iss.get("ec_row")
                if isinstance(r, int) and (r - 13) % 2 == 0 and 0 <= (r - 13) // 2 < len(rows):
                    iss["ec_row"] = (r - 13) // 2 + 2
                elif r is not None:
                    iss["ec_row"] = -r          # a row that does not exist in the table
    for iss in issues:
        if iss.get("code") != "TEMPORAL_TAG_ERROR":
            if iss.get("severity", 1) == 1 and iss.get("code") not in ("TAG_EXPRESSION_REPEATED",):
                other.append((iss.get("code"), iss.get("message", "")[:100]))
            continue
        txt = ""
        tag = iss.get("source_tag")
        par = getattr(tag, "_parent", None)
        if par is not None:
            txt = str(par)
        m = re.search(r"Def/([A-Za-z]+(?:/\d+)?)", txt) or re.search(r"Def/([A-Za-z]+(?:/\d+)?)", iss.get("message", ""))
        name = m.group(1) if m else None
        if name is None:
            m = re.search(r"name '([A-Za-z]+(?:/\d+)?)'", iss.get("message", ""))
            name = m.group(1) if m else None
        if name in by_sp:
            cands = by_sp[name]
            here = [i for i in cands if iss.get("ec_row") is None or not tprows.get(i) or iss.get("ec_row") in tprows[i]]
            pick = ([i for i in here if verdict[i] == "ok"] or here or cands)[0]
            verdict[pick] = "error"
            if not here:
                wrongrow.append((name, iss.get("ec_row"), sorted(tprows[pick])))
        else:
            unattributed.append(iss.get("message", "")[:120])
    opens = []
    hasopen = True
    lastcall = -1
    for idxs in tps:
        first = "Def/" + spell[idxs[0]]
        # (calls come in time order; a spelling may recur in a later time point: look only behind the previous point's call)
        hitx = [(ci, c) for ci, c in enumerate(calls) if ci > lastcall and first in c[0]]
        hit = [c for _, c in hitx]
        if hitx:
            lastcall = hitx[0][0]
        if not hit or hit[0][1] is None:
            hasopen = False
            opens.append([])
        else:
            opens.append(sorted(_fold(k) for k in hit[0][1]))
    return dict(case, obs=[[verdict[i] for i in idxs] for idxs in tps], open=opens, hasopen=hasopen,
                unattributed=unattributed, other=other, wrongrow=wrongrow, shared_diff=shared_diff)


def _init(g):
    from hed import load_schema_version
    from hed.models.definition_dict import DefinitionDict
    _G["schema"] = load_schema_version("8.3.0")
    _G["dd"] = DefinitionDict(DEFS, _G["schema"])


def _run_cases(cases):
    with mp.get_context("fork").Pool(14, initializer=_init, initargs=(None,)) as pool:
        return pool.map(execute, cases, chunksize=64)


def _trace_validate(ctx, done, label):
    """TLC validates every recorded run; returns set of rejected indices -> stuck time point."""
    path = os.path.join(ctx.work, "temporal_cases.json")
    payload = []
    for c in done:
        tps = [[{"k": c["hist"][i]["k"], "key": c["hist"][i]["key"]} for i in idxs] for idxs in c["tps"]]
        # the spec knows verdicts ok/dup/unmatched; the code reports one published code for both errors
        payload.append({"tps": tps, "obs": c["obs"], "open": c["open"], "hasopen": c["hasopen"]})
    with open(path, "w") as f:
        json.dump(payload, f)
    r = ctx.tlc("Trace_Temporal", "Trace_Temporal.cfg", workers=1, env={"TRACE_FILE": path}, label=label,
                timeout=1800)
    acc = {int(m.group(1)) for m in re.finditer(r'<<"ACCEPT", (\d+)>>', r.stdout)}
    stuck = {}
    for m in re.finditer(r'<<"STUCK", (\d+), (\d+)>>', r.stdout):
        stuck[int(m.group(1))] = int(m.group(2))
    return acc, stuck


def run(ctx):
    quick = ctx.quick
    ctx.rule = ("cases = marker histories over {Onset,Offset,Inset} x {a, b/1, b/2} enumerated by TLC (every reachable "
                "state of Temporal.tla), each realised as an events file (markers of a time point in one row, in "
                "equal-onset rows, or Delay-shifted from an earlier row; unique letter-case spelling per marker); "
                "distinct = distinct history; non-trivial = history contains an Offset/Inset or a same-time-point reuse")
    dcfg = ctx.cfg("MC_Temporal.cfg", ("L = 5", "L = 4")) if quick else "MC_Temporal.cfg"
    ctx.tlc("MC_Temporal", dcfg, workers=16, coverage=not quick,
            label="design: algorithm == declarative restatement, all histories <= %d" % (4 if quick else 5), timeout=900)
    gen_cfg = "MC_Temporal_gen.cfg" if quick else ctx.cfg("MC_Temporal_gen.cfg", ("L = 3", "L = 4"))
    r = ctx.tlc("MC_Temporal", gen_cfg, workers=1, label="history generation", timeout=1200)
    hists = [j for j in r.json_lines if j["hist"]]
    ctx.exhaustive = True
    # deeper histories by TLC simulation (thorough)
    if not quick:
        r2 = ctx.tlc("MC_Temporal", ctx.cfg("MC_Temporal_gen.cfg", ("L = 3", "L = 7")), workers=1, mode="simulate",
                     simulate="num=1500", depth=8, seed=ctx.seed + 5, label="deep histories (simulate, L=7)", timeout=600)
        seen = set()
        for j in r2.json_lines:
            if len(j["hist"]) >= 5:
                k = json.dumps(j["hist"], sort_keys=True)
                if k not in seen:
                    seen.add(k)
                    hists.append(j)
    cases = []
    for n, j in enumerate(hists):
        rng = random.Random(ctx.seed * 7919 + n)
        # observable probe of the final open-scope set: one more time point with an Inset for every name
        hist = j["hist"] + [{"k": "Inset", "key": k, "tp": i == 0} for i, k in enumerate(["a", "b/1", "b/2"])]
        errs = j["errs"] + ["ok" if k in j["open"] else "unmatched" for k in ["a", "b/1", "b/2"]]
        rows, tps, spell, rowtp = concretise(hist, rng)
        cases.append({"n": n, "hist": hist, "spec_errs": errs, "rows": rows, "tps": tps, "spell": spell, "rowtp": rowtp})
    done = _run_cases(cases)
    ok_cases = []
    for c in done:
        key = json.dumps(c["hist"], sort_keys=True)
        nontrivial = any(m["k"] != "Onset" for m in c["hist"]) or any(not m["tp"] for m in c["hist"][1:])
        ctx.case(key, nontrivial=nontrivial)
        if "raised" in c:
            ctx.violation("raises", "file validation raised %s for rows %s" % (c["raised"], c["rows"]),
                          {"rows": c["rows"], "hist": c["hist"]})
            continue
        full = {k: c[k] for k in ("rows", "hist", "tps", "spell", "spec_errs", "rowtp")}
        if c.get("wrongrow"):
            nm, got_r, want_r = c["wrongrow"][0]
            ctx.violation("marker-reported-at-another-row", "the issue about marker Def/%s names file row %s; the marker's time point is made of the rows %s "
                          "(the reported marker does not exist there); rows=%s" % (nm, got_r, want_r, c["rows"]), full)
        if c.get("shared_diff"):
            ctx.violation("depends-on-earlier-files", "%s; rows=%s" % (c["shared_diff"], c["rows"]), full)
        if c["unattributed"]:
            ctx.bump("unattributed_temporal_issues")
        if c["other"]:
            ctx.bump("cases_with_other_errors")
            if len(ctx.extra.setdefault("other_error_examples", [])) < 5:
                ctx.extra["other_error_examples"].append({"rows": c["rows"], "errors": c["other"][:3]})
        ok_cases.append(c)
    acc, stuck = _trace_validate(ctx, ok_cases, "trace validation of %d recorded validations" % len(ok_cases))
    ctx.traces += len(ok_cases)
    rej = [c for i, c in enumerate(ok_cases, 1) if i not in acc]
    if rej:
        # second opinion without the INTERNAL open-set projection: only observable verdicts gate a violation
        # (the final probe time point makes the open set observable)
        acc2, stuck2 = _trace_validate(ctx, [dict(c, hasopen=False) for c in rej], "re-validation on observable verdicts only")
        for i, c in enumerate(rej, 1):
            c["_obs_ok"] = i in acc2
            c["_stuck"] = stuck2.get(i, 1)
    for i, c in enumerate(ok_cases, 1):
        if i in acc:
            continue
        if c.get("_obs_ok"):
            ctx.bump("spec_drift_internal_open_set")
            continue
        stuck[i] = c.get("_stuck", stuck.get(i, 1))
        t = stuck.get(i, 1)
        idxs = c["tps"][t - 1]
        marks = [(c["hist"][k]["k"], c["hist"][k]["key"]) for k in idxs]
        obs = c["obs"][t - 1]
        # which clause fails: verdicts or open set
        spec_v = ["ok" if c["spec_errs"][k] == "ok" else "error" for k in idxs]
        if obs != spec_v:
            kinds = sorted({("%s-%s" % (c["hist"][k]["k"], c["spec_errs"][k])) for k, o, s in zip(idxs, obs, spec_v) if o != s})
            key = "verdict:" + ",".join(kinds)
            text = ("time point %d markers %s: code reported %s, specification %s; rows=%s"
                    % (t, marks, obs, [c["spec_errs"][k] for k in idxs], c["rows"]))
        else:
            key = "open-set"
            text = ("after time point %d (markers %s) the validator's open scopes are %s, not those the history implies; rows=%s"
                    % (t, marks, c["open"][t - 1], c["rows"]))
        ctx.violation(key, text, {k: c[k] for k in ("rows", "hist", "tps", "spell", "spec_errs", "rowtp")})
    for c in ok_cases[5:8] + ok_cases[-2:]:
        ctx.sample({"history": [(m["k"], m["key"], m["tp"]) for m in c["hist"]], "rows": c["rows"], "observed": c["obs"],
                    "open_after_each_time_point": c["open"]})
    ctx.note("histories_exhaustive_bound", 3 if quick else 4)
    ctx.note("state_level_binding", "OnsetValidator._onsets projected after each time point"
             if all(c["hasopen"] for c in ok_cases) else "unavailable for some cases (API-only comparison)")
    ctx.assumptions += ["marker verdict attribution uses the issue's source tag (its parent group text) and a unique "
                        "letter-case spelling per marker", "times are multiples of 10 s; Delay values 2.5, 3, 5 s",
                        "both temporal error kinds carry the published code TEMPORAL_TAG_ERROR; the trace spec "
                        "compares ok/error per marker and the open-scope set"]


def replay(obj):
    _init(None)
    c = execute({"hist": obj["hist"], "rows": [tuple(r) for r in obj["rows"]], "tps": obj["tps"],
                 "spell": {int(k): v for k, v in obj["spell"].items()}, "rowtp": obj.get("rowtp")})
    if "raised" in c:
        return False, c["raised"]
    if c.get("wrongrow") or c.get("shared_diff"):
        return False, "%s %s" % (c.get("wrongrow"), c.get("shared_diff"))
    if "raised" in c:
        return False, c["raised"]
    spec = [["ok" if obj["spec_errs"][k] == "ok" else "error" for k in idxs] for idxs in obj["tps"]]
    if c["obs"] != spec:
        return False, "observed %s, specification (history order) %s" % (c["obs"], spec)
    return True, "verdicts agree with the specification in history order: %s" % c["obs"]
