"""C06 — event-file rows assemble into exactly the annotation the sidecar prescribes.

TLC: specs/Assemble.tla enumerates every template tree (tag tokens, groups, references {A} {B}) up to
MaxN nodes x kind of the referenced column (categorical / value / the HED column) x kind of the host
column, and computes for every row (cell states of host, A, B, C) which template nodes survive and which
columns are listed separately (NoEmptyGroup, ParentsSurvive, NotListedTwice checked on the model).
Binding A: each case becomes a real sidecar + events table (one row per cell combination), run through
TabularInput: series_a / dataframe_a / assemble() twice; rows compared as canonical trees; the table
(values, columns, dtypes) and the sidecar must be unchanged.
"""
import copy
import io
import json
import multiprocessing as mp
import os
import random
import re

from .. import tlc
from .c09 import tree

_G = {}
NAMES = [("colA", "colB"), ("resp-hand", "stim_type2"), ("Col_a", "col-B9"), ("a", "b-1_x")]
A_TEXT = {"cat": "Square", "val": "Age/33", "hed": "Circle"}


_UNK = ["zzz"]          # the unknown category key of this build (sometimes a real key with a blank added: still unknown)


def _cell(col, state, akind=None):
    if col == "host_cat":
        return {"ok": "h1", "na": "n/a"}[state]
    if col == "host_val":
        return {"ok": "abc", "na": "n/a"}[state]
    if col == "A":
        if akind == "cat":
            return {"ok": "a1", "na": "n/a", "unk": _UNK[0]}[state]
        if akind == "val":
            return {"ok": "33", "na": "n/a"}[state]
        return {"ok": "Circle", "na": "n/a", "empty": ""}[state]
    if col == "B":
        return {"ok": "7", "na": "n/a"}[state]
    if col == "C":
        return {"ok": "c1", "na": "n/a"}[state]


def render_template(case, style, alive=None, subst=None, names=("colA", "colB")):
    """template text (alive=None) or the expected text for a row (alive = surviving nodes, subst = ref texts)"""
    par, kind = case["par"], case["kind"]
    n = len(kind)
    sp = [", ", ",", " , ", ",  "][style % 4]
    lp, rp = [("(", ")"), ("( ", " )"), ("(", ")"), (" (", ") ")][style % 4]
    aname = "HED" if case["akind"] == "hed" else names[0]

    def node(k):
        kd = kind[k]
        if kd == "t1":
            return "Red"
        if kd == "t2":
            return "Blue"
        if kd == "rA":
            return subst["A"] if subst else "{%s}" % aname
        if kd == "rB":
            return subst["B"] if subst else "{%s}" % names[1]
        kids = [j for j in range(n) if par[j] == k + 1 and (alive is None or (j + 1) in alive)]
        return lp + sp.join(node(j) for j in kids) + rp
    top = [j for j in range(n) if par[j] == 0 and (alive is None or (j + 1) in alive)]
    return sp.join(node(j) for j in top)


def has_empty_group(case):
    par, kind = case["par"], case["kind"]
    return any(kd == "g" and not any(p == k + 1 for p in par) for k, kd in enumerate(kind))


def build(case, seed):
    rng = random.Random(seed)
    _UNK[0] = ["zzz", "a1 ", " a1", "A1"][seed % 4]
    style = rng.randrange(4)
    names = NAMES[seed % len(NAMES)]
    na, nb = names
    tmpl = render_template(case, style, names=names)
    sidecar = {}
    if case["hkind"] == "cat":
        sidecar["host"] = {"HED": {"h1": tmpl}}
    else:
        sidecar["host"] = {"HED": tmpl + ", Label/#"}
    if case["akind"] == "cat":
        sidecar[na] = {"HED": {"a1": "Square"}}
    elif case["akind"] == "val":
        sidecar[na] = {"HED": "Age/#"}
    sidecar[nb] = {"HED": "Item-count/#"}
    h2 = case.get("h2", "none")
    # lean variant: no unreferenced column C and no ignored column, so that the number of columns left to join can be ONE
    lean = (seed % 3 == 0) and h2 == "none"
    if not lean:
        sidecar["colC"] = {"Description": "unreferenced", "HED": {"c1": "Triangle"}}
        sidecar["ignored"] = {"Description": "no HED here"}
    aref = "HED" if case["akind"] == "hed" else na
    if h2 != "none":
        ref = {"A": "{%s}" % aref, "B": "{%s}" % nb}.get(h2)
        sidecar["host2"] = {"HED": {"g1": ("(%s, Ellipse)" % ref) if ref else "(Ellipse)"}}
    if seed % 2:
        # documentation text that mentions columns in curly braces: it is not annotation, nothing is referenced by it
        doc = "coded as in {colC} / {%s} / {HED}; see {host} and {%s}" % (nb, na)
        for cname, entry in sidecar.items():
            if "HED" in entry:
                entry["Description"] = doc
                if isinstance(entry["HED"], dict):
                    entry["Levels"] = {k: "level %s, cf. {%s} {colC}" % (k, nb) for k in entry["HED"]}
    cols = {"onset": [], "host": [], nb: []} if lean else {"onset": [], "host": [], nb: [], "colC": [], "ignored": []}
    if h2 != "none":
        cols["host2"] = []
    acol = "HED" if case["akind"] == "hed" else na
    cols[acol] = []
    expected = []
    for i, row in enumerate(case["rows"]):
        c = row["cells"]
        cols["onset"].append(str(1.0 + i))
        cols["host"].append(_cell("host_" + case["hkind"], c["h"]))
        cols[acol].append(_cell("A", c["a"], case["akind"]))
        cols[nb].append(_cell("B", c["b"]))
        if not lean:
            cols["colC"].append(_cell("C", c["c"]))
        if h2 != "none":
            cols["host2"].append({"ok": "g1", "na": "n/a"}[c.get("g", "na")])
        if not lean:
            cols["ignored"].append(rng.choice(["x", "n/a", "7"]))
        subst = {"A": A_TEXT[case["akind"]], "B": "Item-count/7"}
        parts = []
        if c["h"] == "ok":
            body = render_template(case, 0, alive=set(row["alive"]), subst=subst, names=names)
            if body:
                parts.append(body)
            if case["hkind"] == "val":
                parts.append("Label/abc")
        hp = row.get("h2part", "none")
        if hp == "withA":
            parts.append("(%s, Ellipse)" % A_TEXT[case["akind"]])
        elif hp == "withB":
            parts.append("(Item-count/7, Ellipse)")
        elif hp == "bare":
            parts.append("(Ellipse)")
        for x in row["extras"]:
            if lean and x == "C":
                continue
            parts.append({"A": A_TEXT[case["akind"]], "B": "Item-count/7", "C": "Triangle"}[x])
        expected.append(", ".join(parts))
    order = list(cols)
    rng.shuffle(order)
    return sidecar, {k: cols[k] for k in order}, expected, tmpl


def wellformed(s):
    depth = 0
    prev = ","
    for ch in s:
        if ch == " ":
            continue
        if ch == "(":
            depth += 1
        elif ch == ")":
            depth -= 1
            if depth < 0 or prev in "(,":
                return False
        elif ch == ",":
            if prev in "(,":
                return False
        prev = ch
    return depth == 0 and (prev != "," or not s.strip())


def execute(args):
    ci, case, seed = args
    import pandas as pd
    from hed import Sidecar, TabularInput
    sidecar, cols, expected, tmpl = build(case, seed)
    problems = []
    try:
        sc = Sidecar(io.StringIO(json.dumps(sidecar)))
        df = pd.DataFrame(cols, dtype=str)
        t = TabularInput(df, sidecar=sc)
        before_vals = t.dataframe.astype(str).values.tolist()
        before_cols = list(t.dataframe.columns)
        before_dtypes = [str(x) for x in t.dataframe.dtypes]
        before_sc = copy.deepcopy(sc.loaded_dict)
        s1 = list(t.series_a)
        t.assemble(skip_curly_braces=True)
        da = t.dataframe_a
        s2 = list(t.series_a)
        after_vals = t.dataframe.astype(str).values.tolist()
        after_dtypes = [str(x) for x in t.dataframe.dtypes]
        # histories on one object: the answer is a function of the CURRENT sidecar and the table only.  `alt` has the same
        # columns but a host template without references (so the set of referenced columns differs)
        alt = copy.deepcopy(sidecar)
        alt["host"] = {"HED": {"h1": "Green"}} if case["hkind"] == "cat" else {"HED": "Green, Label/#"}
        alt.pop("host2", None)
        alt_sc = Sidecar(io.StringIO(json.dumps(alt)))
        fresh_alt = list(TabularInput(pd.DataFrame(cols, dtype=str), sidecar=alt_sc).series_a)
        t2 = TabularInput(pd.DataFrame(cols, dtype=str), sidecar=Sidecar(io.StringIO(json.dumps(alt))))
        asked_alt = list(t2.series_a)
        t2.reset_column_mapper(Sidecar(io.StringIO(json.dumps(sidecar))))
        s3 = list(t2.series_a)
        t.reset_column_mapper(Sidecar(io.StringIO(json.dumps(alt))))
        s4 = list(t.series_a)
        # assembly is row by row: a table holding only SOME of the rows (e.g. no row whose host template is selected, no n/a
        # anywhere in the referenced column, a single row) must give exactly those rows' annotations
        rows = case["rows"]
        picks = {"host-never-selected": [i for i, r in enumerate(rows) if r["cells"]["h"] != "ok"],
                 "referenced-column-without-n/a": [i for i, r in enumerate(rows) if r["cells"]["a"] != "na"],
                 "referenced-column-only-n/a": [i for i, r in enumerate(rows) if r["cells"]["a"] == "na"],
                 "single-row": [seed % len(rows)] if rows else [],
                 "random-half": [i for i in range(len(rows)) if random.Random(seed * 7 + i).random() < 0.5]}
        subs = {}
        label_probs = []
        for nm, idx in picks.items():
            if idx and len(idx) < len(rows):  # noqa
                # every other sub-table is cut out of the full frame (it then keeps the row labels of the full table: a
                # DataFrame whose index is not 0..n-1, as filtering produces)
                if (seed + len(nm)) % 2:
                    dfs = pd.DataFrame(cols, dtype=str).iloc[idx]
                else:
                    dfs = pd.DataFrame({k: [v[i] for i in idx] for k, v in cols.items()}, dtype=str)
                tsub = TabularInput(dfs, sidecar=Sidecar(io.StringIO(json.dumps(sidecar))))
                sa = tsub.series_a
                subs[nm] = (idx, list(sa))
                # the annotation stays attached to ITS row: the Series (and the assembled frame) carry the table's row labels
                if list(sa.index) != list(dfs.index) or list(tsub.dataframe_a.index) != list(dfs.index):
                    label_probs.append(("row-labels-lost", "sub-table %s with row labels %s: series_a is labelled %s, dataframe_a %s"
                                        % (nm, list(dfs.index), list(sa.index), list(tsub.dataframe_a.index))))
        rev = list(range(len(rows)))[::-1]
        if len(rev) > 1:           # the whole table with its rows (and row labels) in reverse order
            trev = TabularInput(pd.DataFrame(cols, dtype=str).iloc[rev], sidecar=Sidecar(io.StringIO(json.dumps(sidecar))))
            sa = trev.series_a
            subs["rows-reversed-keeping-labels"] = (rev, list(sa))
            if list(sa.index) != rev:
                label_probs.append(("row-labels-lost", "table with row labels %s: series_a is labelled %s" % (rev, list(sa.index))))
    except Exception as ex:  # noqa
        return ci, [("raises", "assembly raised %s: %s; sidecar=%s table=%s" % (type(ex).__name__, ex, sidecar, cols))], None
    problems += label_probs
    if len(s1) != len(expected):
        problems.append(("row-count", "%d rows assembled for %d table rows" % (len(s1), len(expected))))
    if s1 != s2:
        problems.append(("not-repeatable", "second call differs: %s vs %s" % (s1, s2)))
    if [tree(x) for x in s3] != [tree(x) for x in s1]:
        problems.append(("history:switch-to", "an object that assembled with another sidecar first and was then given this sidecar "
                         "(reset_column_mapper) assembles %s, a fresh object %s; sidecar=%s" % (s3, s1, json.dumps(sidecar))))
    if [tree(x) for x in s4] != [tree(x) for x in fresh_alt] or asked_alt != fresh_alt:
        problems.append(("history:switch-from", "an object that assembled with this sidecar first and was then given a sidecar without "
                         "references assembles %s, a fresh object %s; first sidecar=%s" % (s4, fresh_alt, json.dumps(sidecar))))
    for nm, (idx, got_rows) in subs.items():
        want_rows = [expected[i] for i in idx]
        if len(got_rows) != len(want_rows) or any(tree(g) != tree(w) for g, w in zip(got_rows, want_rows)):
            k = [j for j, (g, w) in enumerate(zip(got_rows, want_rows)) if tree(g) != tree(w)]
            j = k[0] if k else 0
            problems.append(("sub-table:" + nm, "template %r: a table holding only the rows %s (%s) assembles row %d as %r, prescribed %r; "
                             "sidecar=%s" % (tmpl, idx, nm, idx[j] if idx else -1, got_rows[j] if j < len(got_rows) else None,
                                             want_rows[j] if j < len(want_rows) else None, json.dumps(sidecar))))
    if before_vals != after_vals or before_cols != list(t.dataframe.columns):
        problems.append(("table-changed", "table values/columns changed by assembly"))
    elif before_dtypes != after_dtypes:
        problems.append(("table-dtypes-changed", "column dtypes of the table changed by assembly: %s -> %s" % (before_dtypes, after_dtypes)))
    if before_sc != sc.loaded_dict:
        problems.append(("sidecar-changed", "sidecar changed by assembly"))
    for i, (got, want) in enumerate(zip(s1, expected)):
        cells = case["rows"][i]["cells"]
        if tree(got) != tree(want):
            if "{" in got:
                kind = "reference-left"
            elif not wellformed(got):
                kind = "malformed:%s-%s" % (case["akind"], cells["a"]) if cells["a"] != "ok" and "rA" in case["kind"] else "malformed"
            else:
                kind = "row-differs:%s-%s" % (case["akind"], cells["a"]) if "rA" in case["kind"] else "row-differs"
            problems.append((kind, "template %r, cells %s (A is a %s column): assembled %r, prescribed %r; sidecar=%s"
                             % (tmpl, cells, case["akind"], got, want, json.dumps(sidecar))))
        elif not wellformed(got):
            problems.append(("malformed", "template %r cells %s: %r is not delimiter-well-formed" % (tmpl, cells, got)))
    return ci, problems, {"template": tmpl, "rows": list(zip([r["cells"] for r in case["rows"]], s1))[:3]}


def run(ctx):
    quick = ctx.quick
    ctx.rule = ("cases = every template tree <= MaxN nodes over {2 tag tokens, group, {A}, {B}} (each reference at most once) x "
                "kind of column A (categorical / value / HED column) x kind of the host column (categorical / value); one events "
                "table per case with one row per combination of cell states (host ok/n-a, A ok/n-a/unknown key/empty, B, C ok/n-a), "
                "random column order and template spacing; each case also as a history on one object (assemble, switch the sidecar with "
                "reset_column_mapper, assemble again; both directions); distinct = (template, kinds); non-trivial = template holds a reference")
    cfg = "MC_Assemble.cfg" if quick else ctx.cfg("MC_Assemble.cfg", ("MaxN = 3", "MaxN = 4"))
    r = ctx.tlc("MC_Assemble", cfg, workers=1, label="template enumeration with prescribed rows; NoEmptyGroup, ParentsSurvive, NotListedTwice",
                timeout=3000, heap="8g")
    cases = [j for j in r.json_lines if not has_empty_group(j)]
    ctx.exhaustive = True
    # larger templates (<= 6 nodes) sampled by simulating the template grammar
    rs = ctx.tlc("MC_Assemble", ctx.cfg("MC_Assemble.cfg", ("MaxN = 3", "MaxN = 6")), workers=1, mode="simulate",
                 simulate="num=%d" % (150 if quick else 2500), depth=7, seed=ctx.seed + 3,
                 label="larger templates (simulate, <= 6 nodes)", timeout=3000)
    seen = set()
    for j in rs.json_lines:
        k = json.dumps([j["par"], j["kind"], j["akind"], j["hkind"], j.get("h2")])
        if len(j["kind"]) >= 5 and k not in seen and not has_empty_group(j):
            seen.add(k)
            cases.append(j)
    ctx.note("larger_templates_sampled", len(seen))
    jobs = [(ci, c, ctx.seed * 977 + ci) for ci, c in enumerate(cases)]
    with mp.get_context("fork").Pool(14) as pool:
        res = pool.map(execute, jobs, chunksize=16)
    nrows = 0
    for ci, problems, sample in res:
        c = cases[ci]
        ctx.case(json.dumps([c["par"], c["kind"], c["akind"], c["hkind"], c.get("h2")]), nontrivial=("rA" in c["kind"] or "rB" in c["kind"] or c.get("h2") in ("A", "B")))
        ctx.traces += 1
        nrows += len(c["rows"])
        for kind, text in problems:
            ctx.violation(kind, text, {"case": c, "seed": ctx.seed * 977 + ci})
        if sample and ci % 97 == 5:
            ctx.sample(sample)
    ctx.note("templates", len(cases))
    ctx.note("rows_assembled", nrows)
    ctx.assumptions += ["assembled rows are compared as trees up to sibling order (independent parser)",
                        "templates with childless groups are not generated (not valid sidecar content)",
                        "an unknown category key contributes nothing, like n/a (the file-level check reports it separately)"]


def replay(obj):
    ci, problems, _ = execute((0, obj["case"], obj["seed"]))
    return (not problems), "; ".join(t for _, t in problems)[:1500] or "rows agree with the specification"
