"""C12 — every reported issue is well-formed and points at the offending text.

TLC: specs/Issues.tla part 1 (context/decoration machine along HedValidator.validate, with the
re-decorating call path as a sensitivity run) and part 2 (issue / list predicates).  Binding B: issue
lists recorded from the string, sidecar and table entry points (warnings on and off, caller-supplied
handler with the string in context, shuffled lists through sort_issues, export through
replace_tag_references) are validated clause by clause by TLC (Trace_Issues).
"""
import io
import json
import multiprocessing as mp
import os
import random
import re

from .. import tlc

VALID = ["Red", "Blue", "Item-count/3", "Age/25", "Event", "Sensory-event", "Agent-action", "(Red, Square)",
         "Label/abc", "Green", "(Item, (Circle, Triangle))", "Weight/3 kg"]
WARN = ["Item/Ext", "Item/Ext/Ext2", "Action/Jumpy", "Age/25 years", "Item-count",
        # tags written in long / partially long form whose issue points INTO the tag text (extension, value)
        "Item/Object/Blorp", "Item/Object/Man-made-object/Device/Blorp/Extra", "Property/Informational-property/Label/Ext-x/Y"]
ERR = ["Blah", "Red/Blue", "Property/Red", "(Duration/3 xyz, (Red))", "Age/abc", "Age/#", "Def/Unknown", "(Onset, Red)",
       "Sensory-presentation/Red", "Blahblah/Foo", "Weight/3 xyz", "(Def-expand/Nope, (Red))", "Item/Bläh~",
       "Event/Sensory-event/Wrong", "Red, Red", "(Blue, Green), (Green, Blue)", "Definition/Xyz", "Inset",
       "Label/a$b", "Item-count/abc",
       "Property/Informational-property/Label/ab%c", "Informational-property/Label/#", "Event/Sensory-event/Bläh", "Property/Data-property/Data-value/Quantitative-value/Item-count/x$y",
       "Attribute/Blech/Blorp",
       "Label/a\\b", "Item/Ext\\x", "Pathname/C:\\data"]        # a backslash (one raw character) inside a value / an extension
STRUCT = [",, ", "(", ")", " Red (Blue) "]
DEFS = "(Definition/Acc/#, (Acceleration/#, Red)), (Definition/Plain, (Square))"
DEFUSE = ["Def/Acc/3 hz", "Def/Acc/3", "Def/Acc/3 m-per-s^2", "(Def-expand/Acc/3 hz, (Acceleration/3 hz, Red))", "Def/Plain/3", "Def/Acc",
          "(Def-expand/Plain, (Circle))", "Def/Plain"]
# definitions declared INSIDE a sidecar: legal ones, and ones rejected with an error bound to a tag of the definition
SCDEFS = ["(Definition/Good2, (Red))", "(Definition/Val2/#, (Age/#, Blue))", "(Definition/Nested, (Def/Plain, Blue))",
          "(Definition/Bad/Ext/#, (Speed/# mph))", "(Definition/Two/#, (Age/#, Item-count/#))", "(Definition/Inner, (Definition/Deep, (Red)))",
          "(Definition/Good2, (Green))", "(Definition/NoVal/#, (Red))", "(Definition/Exp, ((Def-expand/Plain, (Square)), Blue))"]
_G = {}


def compose(rng, n_err=None):
    k = rng.randint(1, 4)
    parts = []
    for _ in range(k):
        pool = rng.choice([VALID, VALID, WARN, ERR, DEFUSE])
        parts.append(rng.choice(pool))
    if rng.random() < 0.3 and len(parts) > 1:
        i = rng.randrange(len(parts) - 1)
        parts[i:i + 2] = ["(" + parts[i] + rng.choice([", ", ","]) + parts[i + 1] + ")"]
    seps = [rng.choice([", ", ",", " , ", ",  "]) for _ in parts]
    s = rng.choice(["", " ", "  "]) + "".join(p + sep for p, sep in zip(parts, seps[:-1] + [""])) + rng.choice(["", " "])
    if rng.random() < 0.08:
        pos = rng.randrange(len(s) + 1)
        s = s[:pos] + rng.choice(STRUCT) + s[pos:]
    return s


def _init(_):
    from hed import load_schema_version
    from hed.models.definition_dict import DefinitionDict
    _G["schema"] = load_schema_version("8.3.0")
    _G["dd"] = DefinitionDict(DEFS, _G["schema"])


def _occurrences(text, frag):
    out, i = [], text.find(frag)
    while i >= 0 and frag:
        out.append([i, i + len(frag)])
        i = text.find(frag, i + 1)
    return out


def _record(issues_w, issues_e, rid, seed):
    """Project real issue lists to the trace format of Trace_Issues.tla."""
    from hed.errors.error_reporter import sort_issues, replace_tag_references
    texts, tindex = [""], {"": 1}
    evs = []

    def sig(i):
        return "%s|%s|%s|%s|%s|%s|%s" % (i.get("code"), i.get("ec_row"), i.get("ec_column"), i.get("ec_sidecarColumnName"),
                                         i.get("ec_sidecarKeyName"), i.get("char_index"), i.get("char_index_end"))
    for i in issues_w:
        hs = i.get("ec_HedString")
        text = ""
        if hs is not None:
            try:
                text = hs.get_original_hed_string()
            except Exception:
                text = str(hs)
        if text not in tindex:
            texts.append(text)
            tindex[text] = len(texts)
        tag = i.get("source_tag")
        org = None
        try:
            org = tag.org_tag
        except Exception:
            try:
                org = tag.get_original_hed_string()
            except Exception:
                org = None
        hasoff = "char_index" in i
        evs.append({"hascode": isinstance(i.get("code"), str) and bool(i.get("code")),
                    "hasmsg": isinstance(i.get("message"), str) and bool(i.get("message")),
                    "hassev": isinstance(i.get("severity"), int),
                    "msg": i.get("message") if isinstance(i.get("message"), str) else "",
                    "hasoff": hasoff, "ci": int(i.get("char_index", 0)), "cie": int(i.get("char_index_end", 0)),
                    "tspans": _occurrences(text, org) if (hasoff and org) else [], "ti": tindex[text],
                    "quotes": re.findall(r"'([^']*)'", i.get("message") or "") + re.findall(r'"([^"]*)"', i.get("message") or "")
                    if isinstance(i.get("message"), str) else []})
    # sorting: shuffled copy through sort_issues; rank the key fields independently
    rng = random.Random(seed)
    shuffled = list(issues_w)
    rng.shuffle(shuffled)
    shuffled = [dict(i, _oi=n + 1) for n, i in enumerate(shuffled)]      # shallow copies: the list may hold one object twice
    srt = sort_issues(shuffled)
    fields = ["ec_filename", "ec_sidecarColumnName", "ec_sidecarKeyName", "ec_row", "ec_column"]

    def ranks(f):
        if f == "ec_row":
            vals = sorted({i.get(f, -1) for i in shuffled})
        else:
            vals = sorted({str(i.get(f, "")) if i.get(f, "") is not None else "" for i in shuffled})
        return {v: k for k, v in enumerate(vals)}
    rk = {f: ranks(f) for f in fields}
    sortkeys = [[rk[f][i.get(f, -1) if f == "ec_row" else (str(i.get(f, "")) if i.get(f, "") is not None else "")]
                 for f in fields] for i in srt]
    sortoi = [i["_oi"] for i in srt]
    srt_rev = sort_issues(shuffled, reverse=True)
    sortkeys_rev = [[rk[f][i.get(f, -1) if f == "ec_row" else (str(i.get(f, "")) if i.get(f, "") is not None else "")]
                     for f in fields] for i in srt_rev]
    sortoi_rev = [i["_oi"] for i in srt_rev]
    codes = [i.get("code") for i in issues_w]
    exported = [dict(i) for i in issues_w]
    json_ok = True
    try:
        replace_tag_references(exported)
        json.dumps(exported)
        codes_after = [i.get("code") for i in exported]
    except Exception as ex:  # noqa
        json_ok = False
        codes_after = ["<export failed: %s>" % type(ex).__name__]
    return {"id": rid, "texts": texts, "issues": evs, "sig": [sig(i) for i in issues_w],
            "sev": [1 if i.get("severity", 1) == 1 else 10 for i in issues_w],
            "errsig": [sig(i) for i in issues_e], "sortkeys": sortkeys, "sortoi": sortoi,
            "sortkeysrev": sortkeys_rev, "sortoirev": sortoi_rev,
            "codes": codes, "codesafter": codes_after, "json_ok": json_ok}


def run_case(case):
    from hed import HedString, Sidecar, TabularInput
    from hed.errors.error_reporter import ErrorHandler
    from hed.errors.error_types import ErrorContext
    import pandas as pd
    schema = _G["schema"]
    kind, rid, seed = case["kind"], case["id"], case["seed"]
    try:
        if kind == "string":
            out = {}
            h = None
            # same_object: ONE HedString object is validated twice (errors only, then with warnings) - the second report is the
            # one that is examined in full
            for w in ((False, True) if case.get("same_object") else (True, False)):
                if h is None or not case.get("same_object"):
                    h = HedString(case["text"], schema, _G["dd"])
                    if case.get("expand_first"):      # history: the object's definitions are expanded before it is validated
                        h.expand_defs()
                eh = ErrorHandler(check_for_warnings=w)
                eh.push_error_context(ErrorContext.HED_STRING, h)
                out[w] = h.validate(allow_placeholders=case["ph"], error_handler=eh)
            return _record(out[True], out[False], rid, seed)
        if kind == "string-default":
            h = HedString(case["text"], schema, _G["dd"])
            iw = h.validate(allow_placeholders=case["ph"])
            ie = [i for i in HedString(case["text"], schema, _G["dd"]).validate(allow_placeholders=case["ph"],
                                                                     error_handler=ErrorHandler(check_for_warnings=False))]
            return _record(iw, ie, rid, seed)
        if kind == "sidecar":
            out = []
            sc = None
            for w in (True, False):
                if sc is None or not case.get("same_object"):     # same_object: the second validation is of the SAME Sidecar object
                    sc = Sidecar(io.StringIO(json.dumps(case["sidecar"])))
                out.append(sc.validate(schema, extra_def_dicts=_G["dd"], error_handler=ErrorHandler(check_for_warnings=w)))
            return _record(out[0], out[1], rid, seed)
        if kind == "table":
            out = []
            for w in (True, False):
                sc = Sidecar(io.StringIO(json.dumps(case["sidecar"])))
                df = pd.DataFrame(case["table"])
                t = TabularInput(df, sidecar=sc, name="events_%s.tsv" % rid)
                out.append(t.validate(schema, extra_def_dicts=_G["dd"], error_handler=ErrorHandler(check_for_warnings=w)))
            return _record(out[0], out[1], rid, seed)
    except Exception as ex:  # noqa
        return {"id": rid, "raised": "%s: %s" % (type(ex).__name__, str(ex)[:200])}


def make_cases(ctx, n):
    rng = random.Random(ctx.seed * 31337 + 12)
    cases = []
    for i in range(n):
        kind = ["string", "string", "string", "string-default", "sidecar", "table"][i % 6]
        c = {"kind": kind, "id": i + 1, "seed": ctx.seed * 1000 + i}
        if kind.startswith("string"):
            c["text"] = compose(rng)
            c["ph"] = bool(i % 2)
            if kind == "string" and i % 5 == 1:
                c["same_object"] = True
            if kind == "string" and i % 18 == 0:
                c["expand_first"] = True
                if "Def/" not in c["text"]:
                    c["text"] += ", " + rng.choice(["Def/Acc/3 hz", "Def/Acc/3 m-per-s^2", "Def/Plain/3"])
        else:
            cat = {"k%d" % j: compose(rng) for j in range(rng.randint(1, 3))}
            sc = {"trial_type": {"HED": cat}, "resp": {"HED": "Label/#, " + compose(rng)}}
            if rng.random() < 0.5:
                sc["other"] = {"HED": {"x": compose(rng), "y": compose(rng)}}
                if rng.random() < 0.5:      # a second column whose name differs only in letter case (and keys that do)
                    sc["Other"] = {"HED": {"x": compose(rng), "X": compose(rng)}}
            if rng.random() < 0.5:
                sc["defs"] = {"HED": {"d%d" % j: rng.choice([", ", ","]).join(rng.sample(SCDEFS, rng.randint(1, 2)))
                                      for j in range(rng.randint(1, 2))}}
                c["same_object"] = rng.random() < 0.5
            c["sidecar"] = sc
            if kind == "table" and rng.random() < 0.5:
                # clean, oddly spaced cells with a tag repeated across columns: the row-level issue names a tag of a
                # LATER column, so its offsets depend on the span bookkeeping of the assembled row
                pads = [" ,  ", ",   ", " , ", ",\t".replace("\t", "  ")]
                def clean(rng, must=None):
                    parts = rng.sample(VALID[:6], rng.randint(1, 3))
                    if must and must not in parts:
                        parts.insert(rng.randrange(len(parts) + 1), must)
                    return rng.choice(["", " ", "  "]) + rng.choice(pads).join(parts) + rng.choice(["", "  "])
                rep = rng.choice(["Blue", "Green", "Agent-action", "Event"])
                cat = {"k0": clean(rng, rep), "k1": clean(rng)}
                c["sidecar"] = {"trial_type": {"HED": cat}, "zcol": {"HED": {"z0": clean(rng, rep), "z1": clean(rng)}}}
                nrow = rng.randint(1, 3)
                c["table"] = {"onset": [str(1.0 + r) for r in range(nrow)],
                              "trial_type": [rng.choice(["k0", "k0", "k1"]) for _ in range(nrow)],
                              "HED": [clean(rng, rng.choice([rep, None])) for _ in range(nrow)],
                              "zcol": [rng.choice(["z0", "z0", "z1", "n/a"]) for _ in range(nrow)]}
                # without a time line (no onset column, or onset n/a) the row string is assembled from the cell objects
                # and offsets are mapped back through the cells' spans
                mode = rng.choice(["onset", "no-onset-column", "na-onsets"])
                if mode == "no-onset-column":
                    del c["table"]["onset"]
                elif mode == "na-onsets":
                    c["table"]["onset"] = ["n/a"] * nrow
            elif kind == "table":
                nrow = rng.randint(1, 4)
                keys = list(cat)
                c["table"] = {"onset": [str(1.0 + r) for r in range(nrow)],
                              "trial_type": [rng.choice(keys + ["n/a"]) for _ in range(nrow)],
                              "resp": [rng.choice(["3", "n/a", "abc"]) for _ in range(nrow)],
                              "HED": [rng.choice([compose(rng), "n/a"]) for _ in range(nrow)]}
                if rng.random() < 0.4:
                    c["table"]["other"] = [rng.choice(["x", "y", "n/a"]) for _ in range(nrow)]
        cases.append(c)
    return cases


def run(ctx):
    quick = ctx.quick
    ctx.rule = ("cases = validation runs (string with the caller's handler holding the string as context / default handler, "
                "sidecar, events table with sidecar), each executed with warnings on and off, over seeded compositions of "
                "valid, warning-producing and rule-violating fragments with varied spacing, grouping and structural damage; "
                "distinct = distinct input; non-trivial = the run returned at least one issue")
    for cfg, lab in [("MC_Issues_TRUE.cfg", "warnings on"), ("MC_Issues_FALSE.cfg", "warnings off")]:
        ctx.tlc("MC_Issues", cfg, workers=4, coverage=True, label="design: decoration machine, " + lab)
    r = ctx.tlc("MC_Issues", "MC_Issues_redecorate.cfg", workers=4, expect_ok=False,
                label="sensitivity: re-decorating the accumulated list must break SuffixOnce")
    if r.violated != "SuffixOnce":
        raise tlc.TLCFailure("re-decorating call path should violate SuffixOnce, got %s" % r.violated)
    cases = make_cases(ctx, 600 if quick else 6000)
    with mp.get_context("fork").Pool(14, initializer=_init, initargs=(None,)) as pool:
        recs = pool.map(run_case, cases, chunksize=16)
    good = []
    for c, rec in zip(cases, recs):
        key = json.dumps({k: c[k] for k in c if k not in ("id", "seed")}, sort_keys=True)
        if "raised" in rec:
            # totality of the entry points is the business of C01/C07/C08; here it only means nothing to check
            ctx.case(key, nontrivial=False)
            ctx.bump("runs_that_raised")
            if len(ctx.extra.setdefault("raised_examples", [])) < 5:
                ctx.extra["raised_examples"].append({"case": {k: c[k] for k in c if k != "seed"}, "raised": rec["raised"]})
            continue
        ctx.case(key, nontrivial=bool(rec["issues"]))
        if not rec["json_ok"]:
            ctx.violation("export-not-serialisable", "issues of %s not JSON-serialisable after replace_tag_references: %s"
                          % (c, rec["codesafter"]), {"case": c})
        good.append((c, rec))
    # TLC validates every recorded run, in batches
    B = 300
    bycase = {c["id"]: c for c, _ in good}
    nrej = 0
    for b in range(0, len(good), B):
        batch = [rec for _, rec in good[b:b + B]]
        path = os.path.join(ctx.work, "issues_%d.json" % b)
        with open(path, "w") as f:
            json.dump(batch, f)
        r = ctx.tlc("Trace_Issues", "Trace_Issues.cfg", workers=1, env={"TRACE_FILE": path},
                    label="trace validation of recorded issue lists (batch %d)" % (b // B), timeout=1800)
        m = re.search(r'<<"CHECKED", (\d+)>>', r.stdout)
        if not m or int(m.group(1)) != len(batch):
            raise tlc.TLCFailure("Trace_Issues did not consume the whole batch:\n" + r.stdout[-800:])
        ctx.traces += len(batch)
        for m in re.finditer(r'<<"REJECT", (\d+), (\d+), "([\w-]+)">>', r.stdout):
            rid, k, why = int(m.group(1)), int(m.group(2)), m.group(3)
            c = bycase[rid]
            rec = [x for x in batch if x["id"] == rid][0]
            nrej += 1
            detail = ""
            if k:
                e = rec["issues"][k - 1]
                detail = " issue %r offsets (%s,%s) text %r" % (e["msg"], e["ci"], e["cie"], rec["texts"][e["ti"] - 1])
            code = rec["codes"][k - 1] if k else ""
            ctx.violation("%s:%s:%s" % (why, c["kind"], code), "%s in %s run %s;%s" % (why, c["kind"],
                          {x: c[x] for x in c if x not in ("seed",)}, detail), {"case": c})
    ctx.note("runs_recorded", len(good))
    ctx.note("issues_checked", sum(len(rec["issues"]) for _, rec in good))
    ctx.note("issues_with_offsets", sum(1 for _, rec in good for e in rec["issues"] if e["hasoff"]))
    for c, rec in good[:40]:
        if rec["issues"] and any(e["hasoff"] for e in rec["issues"]):
            e = [e for e in rec["issues"] if e["hasoff"]][0]
            ctx.sample({"entry": c["kind"], "text": rec["texts"][e["ti"] - 1], "message": e["msg"], "offsets": [e["ci"], e["cie"]]})
    ctx.assumptions += ["validated text of an issue = original text of the HedString in its context",
                        "'the tag it names' = any occurrence in that text of the source tag's original spelling",
                        "rank order of sort keys computed with Python string/int order; texts limited to Latin-1"]


def replay(obj):
    _init(None)
    c = obj["case"]
    rec = run_case(c)
    if "raised" in rec:
        return True, "run raised (%s): nothing to check" % rec["raised"]
    bad = []
    for e in rec["issues"]:
        text = rec["texts"][e["ti"] - 1]
        n = e["msg"].count("Problem spans string indexes")
        if e["hasoff"]:
            if not (0 <= e["ci"] <= e["cie"] <= len(text)):
                bad.append("offsets outside text: %s" % e["msg"])
            elif not any(a <= e["ci"] and e["cie"] <= b for a, b in e["tspans"]):
                bad.append("offsets outside tag: %s" % e["msg"])
            elif e["ci"] != e["cie"] and text[e["ci"]:e["cie"]] not in e["msg"]:
                bad.append("fragment not quoted: %s" % e["msg"])
            elif n != 1:
                bad.append("suffix count %d: %s" % (n, e["msg"]))
        elif n:
            bad.append("suffix without offsets: %s" % e["msg"])
    if sorted(s for s, v in zip(rec["sig"], rec["sev"]) if v == 1) != sorted(rec["errsig"]):
        bad.append("errors-only run is not the error subset")
    if rec["codes"] != rec["codesafter"]:
        bad.append("codes changed by export")
    return (not bad), "; ".join(bad) or "all clauses hold"
