"""C09 — definitions expand to their declared content and shrink back losslessly.

TLC: specs/Defs.tla — (1) the expand/shrink/copy/validate object machine incl. the cached-expansion
flags (design run + sensitivity run with unmaintained flags), (2) the acceptance rule table over all
definition shapes, (3) the table of Def-expand content variants.  Binding A: every operation sequence
emitted by TLC is replayed on real HedString objects with the printed tree compared after EVERY step;
every shape / variant is concretised and judged by the real DefinitionDict / validator.
"""
import json
import multiprocessing as mp
import re

from .. import tlc
from .. import gather

DEF_TEXT = ("(Definition/Aaa, (Red, Blue, (Square, Triangle))), (Definition/Bbb/#, (Age/#, Green)), "
            "(Definition/Ccc/#, (Distance/#, Circle)), (Definition/Ddd, (Action)), "
            "(Definition/Eee/#, (Speed/# mph, Square))")        # placeholder followed by a unit inside the definition
USES = [  # (Def form, Def-expand form)
    ("Def/Aaa", "(Def-expand/Aaa, (Blue, Red, (Square, Triangle)))"),
    ("Def/Bbb/4", "(Def-expand/Bbb/4, (Age/4, Green))"),
    ("Def/Ccc/3 m", "(Def-expand/Ccc/3 m, (Circle, Distance/3 m))"),
    ("Def/aaa", "(Def-expand/aaa, (Blue, Red, (Square, Triangle)))"),
    ("Def/Ddd", "(Def-expand/Ddd, (Action))"),
    ("Def/Eee/3", "(Def-expand/Eee/3, (Square, Speed/3 mph))"),
    ("def/Ddd", "(def-expand/Ddd, (Action))"),                       # the Def / Def-expand tag itself in another letter case
    ("DEF/Bbb/4", "(DEF-EXPAND/Bbb/4, (Age/4, Green))"),
]
SKEL = {1: ["Item, {0}", "({0}, Item)", "((Item, {0}), Event)", "{0}"],
        2: ["{0}, {1}", "({0}, Item), ({1}, Event)", "(({0}), Item), {1}", "(Item, ({0}, ({1}, Event)))"]}
_G = {}


def tree(text):
    """Order-insensitive canonical form of an annotation string (own parser, no hed)."""
    text = text.strip()
    pos = 0

    def parse_list(end):
        nonlocal pos
        items = []
        cur = ""
        while pos < len(text):
            c = text[pos]
            if c == "(":
                pos += 1
                items.append(parse_list(")"))
            elif c == ")":
                if cur.strip():
                    items.append(re.sub(r"\s+", " ", cur.strip()).casefold())
                pos += 1
                return tuple(sorted(items, key=repr))
            elif c == ",":
                if cur.strip():
                    items.append(re.sub(r"\s+", " ", cur.strip()).casefold())
                cur = ""
                pos += 1
            else:
                cur += c
                pos += 1
        if cur.strip():
            items.append(re.sub(r"\s+", " ", cur.strip()).casefold())
        return tuple(sorted(items, key=repr))
    return parse_list(None)


def _init(_):
    from hed import load_schema_version
    from hed.models.definition_dict import DefinitionDict
    _G["schema"] = load_schema_version("8.3.0")
    _G["dd"] = DefinitionDict(DEF_TEXT, _G["schema"])
    gather._G["schema"] = _G["schema"]


def render(skel, uses, forms):
    return skel.format(*[uses[k][0] if f == "D" else uses[k][1] for k, f in enumerate(forms)])


def run_ops(case):
    """Replay one TLC behaviour on real objects; compare printed trees after every step."""
    from hed import HedString
    schema, dd = _G["schema"], _G["dd"]
    init, ops, skel, uses = case["init"], case["ops"], case["skel"], case["uses"]
    text0 = render(skel, uses, init)
    problems = []
    try:
        objs = {1: HedString(text0, schema, dd)}
    except Exception as ex:  # noqa
        return [("raises", "constructing %r raised %s" % (text0, type(ex).__name__))]
    done = []
    for step in ops:
        op = step["op"]
        done.append(op)
        try:
            if op[0] == "expand":
                objs[op[1]].expand_defs()
            elif op[0] == "shrink":
                objs[op[1]].shrink_defs()
            elif op[0] == "copy":
                objs[op[2]] = objs[op[1]].copy()
            elif op[0] == "validate":
                issues = objs[op[1]].validate(allow_placeholders=False)
                errs = sorted({i["code"] for i in issues if i.get("severity", 1) == 1})
                if errs:
                    problems.append(("valid-object-rejected", "validate() on %r after %s reported %s"
                                     % (text0, done, errs)))
            for i, forms in enumerate(step["forms"], 1):
                want = tree(render(skel, uses, forms))
                got = tree(str(objs[i]))
                if got != want:
                    kind = "%s-wrong" % op[0] if i == (op[2] if op[0] == "copy" else op[1]) else "alias"
                    problems.append((kind, "start %r, after %s object %d prints %r, specification %r"
                                     % (text0, done, i, str(objs[i]), render(skel, uses, forms))))
                    return problems
        except RecursionError:
            problems.append(("raises-RecursionError", "start %r, operations %s: RecursionError (cyclic tree)" % (text0, done)))
            return problems
        except Exception as ex:  # noqa
            problems.append(("raises", "start %r, operations %s: %s: %s" % (text0, done, type(ex).__name__, ex)))
            return problems
    return problems


def run_ops_df(case):
    """Column-wise variants (df_util.expand_defs / shrink_defs) on a one-column frame."""
    import pandas as pd
    from hed.models import df_util
    schema, dd = _G["schema"], _G["dd"]
    init, ops, skel, uses = case["init"], case["ops"], case["skel"], case["uses"]
    text0 = render(skel, uses, init)
    problems = []
    df = pd.DataFrame({"HED": [text0, "Item"]})
    done = []
    forms_now = None
    for step in ops:
        op = step["op"]
        if op[0] == "copy" or op[1] != 1:
            break
        done.append(op[0])
        try:
            if op[0] == "expand":
                df_util.expand_defs(df, schema, dd, ["HED"])
            elif op[0] == "shrink":
                df_util.shrink_defs(df, schema, ["HED"])
            else:
                continue
        except Exception as ex:  # noqa
            problems.append(("df-raises", "df column %r ops %s: %s: %s" % (text0, done, type(ex).__name__, ex)))
            break
        want = tree(render(skel, uses, step["forms"][0]))
        got = tree(df["HED"][0])
        if got != want or df["HED"][1] != "Item":
            problems.append(("df-%s-wrong" % op[0], "df column start %r after %s holds %r, specification %r"
                             % (text0, done, df["HED"][0], render(skel, uses, step["forms"][0]))))
            break
    return problems


def shape_text(s, n):
    # (the offending '#' or '/' of a bad name sits in the middle of the name or at its very end)
    name = {"plain": "Nn%d" % n, "slash": ["Nn%d/Mm", "Nn%d/"][n % 2] % n if not s["takesValue"] else "Nn%d/Mm" % n,
            "hash": ["Nn#%d", "Nn%d#", "Nn%d##"][n % 3] % n}[s["nameKind"]]
    full = name + ("/#" if s["takesValue"] else "")
    inner = ["Red"]
    if s["nPH"] >= 1:
        inner.append("Age/#" if s["phOnValueTag"] else "Blue/#")
    if s["nPH"] == 2:
        inner.append("Item-count/#")
    if s["nested"] == "Def":
        inner.append("Def/Ddd")
    elif s["nested"] == "Def-expand":
        inner.append("(Def-expand/Ddd, (Action))")
    elif s["nested"] == "Definition":
        inner.append("(Definition/Inner%d, (Green))" % n)
    parts = ["Definition/" + full]
    if s["extraTag"]:
        parts.append("Item")
    if s["nGroups"] >= 1:
        parts.append("(" + ", ".join(inner) + ")")
    if s["nGroups"] == 2:
        parts.append("(Event)")
    g = "(" + ", ".join(parts) + ")"
    if not s["top"]:
        g = "(" + g + ", Item)"
    return g, name


def run_shape(args):
    from hed import HedString
    from hed.models.definition_dict import DefinitionDict
    n, rec = args
    s = rec["shape"]
    schema = _G["schema"]
    text, name = shape_text(s, n)
    pre = "(Definition/%s, (Square))" % name.upper() if s["dup"] and "/" not in name and "#" not in name else None
    if s["dup"] and pre is None:
        pre = "(Definition/%s, (Square))" % name.split("/")[0].upper()
    try:
        dd = DefinitionDict(pre, schema) if pre else DefinitionDict(None, schema)
        before = {k: str(v.contents) for k, v in dd.defs.items()}
        issues = dd.check_for_definitions(HedString(text, schema))
    except Exception as ex:  # noqa
        return [("accept-raises", "check_for_definitions(%r) raised %s: %s" % (text, type(ex).__name__, ex))]
    key = name.casefold()
    has = key in dd.defs and key not in before
    out = []
    if rec["accept"]:
        if issues or not has:
            out.append(("valid-definition-rejected", "definition %r should be accepted: issues %s, entry added %s"
                        % (text, [i["code"] for i in issues], has)))
    elif rec["silent"]:
        if has:
            out.append(("non-toplevel-definition-gathered", "definition %r (not a top-level group) was added" % text))
    else:
        if has:
            out.append(("invalid-definition-accepted", "definition %r was added to the dictionary (shape %s)" % (text, s)))
        elif not issues:
            out.append(("invalid-definition-silent", "definition %r rejected without any reported issue (shape %s)" % (text, s)))
        for k, v in before.items():
            if k not in dd.defs or str(dd.defs[k].contents) != v:
                out.append(("duplicate-overwrote", "definition %r changed the existing entry %s" % (text, k)))
    return out


def variant_text(v):
    val = v["hasValue"]
    a, b = ("Age/5" if val else "Red"), ("Green" if val else "Blue")
    sib = v.get("sib", "other")
    if sib != "other":       # definition Xxx: (Label/#, Label/Mid, (Square, Triangle)); value before / after "Mid"
        a, b = ("Label/Zed" if sib == "sameBefore" else "Label/Abc"), "Label/Mid"
    c, d = "Square", "Triangle"
    if v["mut"] == "innerWrong":
        c = "Circle"
    inner = {"c": c, "d": d}
    items = []
    for x in v["outer"]:
        if x == "a":
            items.append(("Age/6" if sib == "other" else "Label/Other") if (v["mut"] == "wrongValue") else a)
        elif x == "b":
            if v["mut"] == "missingTag":
                continue
            items.append("Item" if v["mut"] == "wrongTag" else b)
        else:
            items.append("(" + ", ".join(inner[k] for k in v["inner"]) + ")")
    if v["mut"] == "extraTag":
        items.append("Item")
    tag = "Def-expand/Vvv/5" if val else "Def-expand/Www"
    if sib != "other":
        tag = "Def-expand/Xxx/" + a.split("/")[1]
    content = "(" + ", ".join(items) + ")"
    return "(%s, %s)" % ((tag, content) if v["defFirst"] else (content, tag))


def run_variant(rec):
    from hed import HedString
    from hed.models.definition_dict import DefinitionDict
    schema = _G["schema"]
    if "vdd" not in _G:
        _G["vdd"] = DefinitionDict("(Definition/Vvv/#, (Age/#, Green, (Square, Triangle))), "
                                   "(Definition/Xxx/#, (Label/#, Label/Mid, (Square, Triangle))), "
                                   "(Definition/Www, (Red, Blue, (Square, Triangle)))", schema)
    text = variant_text(rec["v"])
    try:
        issues = HedString("Item, " + text, schema, _G["vdd"]).validate(allow_placeholders=False)
    except Exception as ex:  # noqa
        return [("expand-validate-raises", "validate(%r) raised %s: %s" % (text, type(ex).__name__, ex))]
    codes = sorted({i["code"] for i in issues if i.get("severity", 1) == 1})
    # the verdict on a (hand-written) Def-expand group must not depend on what was done to the object before:
    # validate; expand (a no-op for Def-expand groups); validate; copy; validate the copy
    try:
        h = HedString("Item, " + text, schema, _G["vdd"])
        seq = [sorted({i["code"] for i in h.validate(allow_placeholders=False) if i.get("severity", 1) == 1})]
        h.expand_defs()
        seq.append(sorted({i["code"] for i in h.validate(allow_placeholders=False) if i.get("severity", 1) == 1}))
        h2 = h.copy()
        seq.append(sorted({i["code"] for i in h2.validate(allow_placeholders=False) if i.get("severity", 1) == 1}))
        if any(x != codes for x in seq):
            return [("def-expand-verdict-unstable", "%r: fresh object reports %s, but along validate/expand/validate/copy/validate "
                     "the same content reports %s" % (text, codes, seq))]
    except Exception as ex:  # noqa
        return [("expand-validate-raises", "validate/expand/copy on %r raised %s: %s" % (text, type(ex).__name__, ex))]
    if rec["accept"] and codes:
        return [("def-expand-reordered-rejected", "%r equals the expansion up to sibling order but validation reports %s"
                 % (text, codes))]
    if not rec["accept"] and "DEF_EXPAND_INVALID" not in codes:
        return [("def-expand-altered-accepted:" + rec["v"]["mut"], "%r differs from the expansion (%s) but DEF_EXPAND_INVALID is "
                 "not reported (codes %s)" % (text, rec["v"]["mut"], codes))]
    return []


MERGE_NAMES = {"na": ["Mna", "MNA", "mna"], "nb": ["Mnb", "mnB", "MNB"]}
MERGE_CONTENT = {"c1": "(Red)", "c2": "(Blue, Square)"}


def run_merge(rec):
    """One case of the merge table of Defs.tla part 4, through the four real ways of combining declarations."""
    from hed import HedString
    from hed.models.definition_dict import DefinitionDict
    from hed.validator import HedValidator
    schema = _G["schema"]
    n = [0]

    def texts(src):
        out = []
        for x in src:
            n[0] += 1
            out.append("(Definition/%s, %s)" % (MERGE_NAMES[x["name"]][n[0] % 3], MERGE_CONTENT[x["content"]]))
        return out
    t1, t2 = texts(rec["s1"]), texts(rec["s2"])
    want = {"m" + e["name"]: MERGE_CONTENT[e["content"]] for e in rec["entries"]}
    ways = {}
    try:
        ways["DefinitionDict([d1, d2])"] = DefinitionDict([DefinitionDict(t1, schema), DefinitionDict(t2, schema)], schema)
        d = DefinitionDict(t1, schema)
        d.add_definitions(DefinitionDict(t2, schema))
        ways["d1.add_definitions(d2)"] = d
        ways["HedValidator(def_dicts=[d1, d2])"] = HedValidator(schema, def_dicts=[DefinitionDict(t1, schema), DefinitionDict(t2, schema)])._def_validator
        ways["DefinitionDict(list of strings)"] = DefinitionDict(t1 + t2, schema)
    except Exception as ex:  # noqa
        return [("merge-raises", "combining %s and %s raised %s: %s" % (t1, t2, type(ex).__name__, ex))]
    out = []
    for how, m in ways.items():
        got = {k: str(v.contents) for k, v in m.defs.items()}
        if {k: tree(v) for k, v in got.items()} != {k: tree(v) for k, v in want.items()}:
            out.append(("duplicate-not-ignored:" + how.split("(")[0], "%s with d1 = %s, d2 = %s holds %s; the first declaration of each "
                        "name must be kept: %s" % (how, t1, t2, got, want)))
            continue
        if rec["newdups"] and not any(i.get("code") == "DEFINITION_INVALID" for i in m.issues) and how != "DefinitionDict(list of strings)":
            out.append(("duplicate-not-reported:" + how.split("(")[0], "%s with d1 = %s, d2 = %s reports no duplicate (%s)"
                        % (how, t1, t2, [i.get("code") for i in m.issues])))
        for k, v in want.items():      # and the kept declaration is the one that expands
            h = HedString("Item, Def/%s" % k, schema, m)
            h.expand_defs()
            if tree(str(h)) != tree("Item, (Def-expand/%s, %s)" % (k, v)):
                out.append(("duplicate-not-ignored:expansion", "%s: Def/%s expands to %s, declared first: %s" % (how, k, h, v)))
    return out


def run(ctx):
    quick = ctx.quick
    ctx.rule = ("cases = (a) operation sequences over {expand, shrink, copy, validate} on up to 2-3 live objects "
                "(every reachable state of Defs.tla) x annotation skeletons x definitions (plain, valued, unit-carrying, "
                "case variant), compared after every step; (b) all consistent definition shapes of the acceptance table; "
                "(c) all Def-expand content variants; distinct = distinct abstract case x concretisation; "
                "non-trivial = at least one expand/shrink, or a rejected shape / altered variant")
    ctx.tlc("MC_Defs", "MC_Defs.cfg", workers=8, coverage=True, label="design: object machine, 3 objects, 6 ops")
    r = ctx.tlc("MC_Defs", "MC_Defs_nomaintain.cfg", workers=4, expect_ok=False,
                label="sensitivity: flags not maintained (code as found) must break the machine")
    if not r.violated:
        raise tlc.TLCFailure("Defs.tla with MAINTAIN=FALSE should violate WellNested/ExpandAll")
    ctx.note("unmaintained_flags_rejected_by_spec", r.violated)
    import os
    gen = "MC_Defs_gen.cfg" if quick else ctx.cfg("MC_Defs_gen.cfg", ("MaxObjs = 2", "MaxObjs = 3"), ("MaxOps = 4", "MaxOps = 5"))
    r = ctx.tlc("MC_Defs", gen, workers=1, label="behaviour + table generation", timeout=1800)
    tables = [j for j in r.json_lines if "shapes" in j][0]
    behs = [j for j in r.json_lines if "ops" in j and j["ops"]]
    ctx.exhaustive = True
    cases = []
    for n, b in enumerate(behs):
        k = len(b["init"])
        nsk = len(SKEL[k])
        variants = range(nsk) if not quick else [(n + ctx.seed) % nsk]
        for sk in variants:
            u0 = (n // 3 + sk * 5 + ctx.seed) % len(USES)      # (n + sk would always be even in quick)
            uses = [USES[(u0 + i * 2) % len(USES)] for i in range(k)]
            if k == 2 and uses[0][0].casefold() == uses[1][0].casefold():      # two uses of one definition would be a repeated tag
                uses[1] = USES[(u0 + 1) % len(USES)]
            cases.append({"init": b["init"], "ops": b["ops"], "skel": SKEL[k][sk], "uses": uses})
    with mp.get_context("fork").Pool(14, initializer=_init, initargs=(None,)) as pool:
        res = pool.map(run_ops, cases, chunksize=32)
        res_df = pool.map(run_ops_df, [c for c in cases if c["ops"][0]["op"][0] in ("expand", "shrink")][:4000], chunksize=32)
        shapes = list(enumerate(tables["shapes"]))
        res_s = pool.map(run_shape, shapes, chunksize=32)
        res_v = pool.map(run_variant, tables["variants"], chunksize=16)
        merges = sorted(tables["merges"], key=lambda r: json.dumps(r, sort_keys=True))
        res_m = pool.map(run_merge, merges, chunksize=16)
    # Gather.tla: the state machine that recovers definitions from their expansions (DefExpandGatherer)
    ctx.tlc("MC_Gather", "MC_Gather.cfg" if not quick else ctx.cfg("MC_Gather.cfg", ("Names <- NamesDef", "Names <- Names1")),
            workers=8, label="design: gatherer machine, Sound / Complete / Deterministic")
    for vc, inv in (("MC_Gather_vac1.cfg", "CompleteTooStrong"), ("MC_Gather_vac2.cfg", "NeverErrors")):
        rv = ctx.tlc("MC_Gather", vc, workers=2, expect_ok=False, label="vacuity guard: %s must be violated" % inv)
        if not rv.violated:
            raise tlc.TLCFailure("Gather.tla: %s should be violated (vacuous Sound/Complete)" % inv)
    gjobs = []
    gconfs = [("Names1", 2, "ValsDef", 3, None), ("NamesDef", 2, "ValsDef", 3, 8)] if quick else \
             [("Names1", 2, "ValsDef", 4, None), ("NamesDef", 2, "ValsDef", 3, None), ("Names1", 3, "ValsDef", 3, None),
              ("Names1", 2, "Vals3", 3, None)]
    for names, k, vals, maxlen, take in gconfs:
        gcfg = ctx.cfg("MC_Gather_gen.cfg", ("Names <- Names1", "Names <- " + names), ("K = 2", "K = %d" % k),
                       ("Vals <- ValsDef", "Vals <- " + vals), ("MaxLen = 3", "MaxLen = %d" % maxlen))
        rg = ctx.tlc("MC_Gather", gcfg, workers=1, label="gatherer histories %s K=%d %s len<=%d" % (names, k, vals, maxlen),
                     timeout=1800)
        gjobs += gather.jobs_from(rg.json_lines, k, ["Aaa", "Bbb"] if names == "NamesDef" else ["Aaa"], maxlen, ctx.seed, take)
    with mp.get_context("fork").Pool(14, initializer=_init, initargs=(None,)) as pool:
        res_g = pool.map(gather.run_history, gjobs, chunksize=16)
    for job, probs in zip(gjobs, res_g):
        ctx.case("gather:" + json.dumps([job["k"], job["hist"]], sort_keys=True),
                 nontrivial=any(st["known"][n] is not None or st["errs"][n] for st in job["states"] for n in job["names"]))
        ctx.traces += 1
        for kind, text in probs:
            ctx.violation(kind, text, {"mode": "gather", "job": job})
    ctx.note("gatherer_histories_replayed", len(gjobs))
    for c, probs in zip(cases, res):
        opsk = [s["op"] for s in c["ops"]]
        ctx.case(json.dumps([c["init"], opsk, c["skel"], c["uses"][0][0]]),
                 nontrivial=any(o[0] in ("expand", "shrink") for o in opsk))
        ctx.traces += 1
        for kind, text in probs:
            ctx.violation(kind, text, {"mode": "ops", "case": c})
    for probs in res_df:
        ctx.case(None, nontrivial=False)
        for kind, text in probs:
            ctx.violation(kind, text, {"mode": "opsdf"})
    for (n, rec), probs in zip(shapes, res_s):
        ctx.case("shape:" + json.dumps(rec["shape"], sort_keys=True), nontrivial=not rec["accept"])
        for kind, text in probs:
            ctx.violation(kind, text, {"mode": "shape", "n": n, "rec": rec})
    for rec, probs in zip(tables["variants"], res_v):
        ctx.case("variant:" + json.dumps(rec["v"], sort_keys=True), nontrivial=True)
        for kind, text in probs:
            ctx.violation(kind, text, {"mode": "variant", "rec": rec})
    for rec, probs in zip(merges, res_m):
        ctx.case("merge:" + json.dumps([rec["s1"], rec["s2"]], sort_keys=True), nontrivial=bool(rec["newdups"]))
        for kind, text in probs:
            ctx.violation(kind, text, {"mode": "merge", "rec": rec})
    ctx.note("dictionary_merge_cases", len(merges))
    ctx.note("behaviours_replayed", len(cases))
    ctx.note("df_behaviours_replayed", len(res_df))
    ctx.note("definition_shapes", len(shapes))
    ctx.note("def_expand_variants", len(tables["variants"]))
    for c in cases[10:12]:
        ctx.sample({"start": render(c["skel"], c["uses"], c["init"]), "ops": [s["op"] for s in c["ops"]],
                    "expected_after_last": render(c["skel"], c["uses"], c["ops"][-1]["forms"][0])})
    ctx.sample({"definition_shape": shape_text(shapes[40][1]["shape"], 40)[0], "accept": shapes[40][1]["accept"]})
    ctx.sample({"def_expand_variant": variant_text(tables["variants"][7]["v"]), "accept": tables["variants"][7]["accept"]})
    ctx.assumptions += ["printed trees are compared up to sibling order and letter case with an independent parser",
                        "definitions used: plain with nested content, numeric placeholder, unit-carrying placeholder"]


def replay(obj):
    _init(None)
    if obj["mode"] == "ops":
        p = run_ops(obj["case"])
    elif obj["mode"] == "shape":
        p = run_shape((obj["n"], obj["rec"]))
    elif obj["mode"] == "variant":
        p = run_variant(obj["rec"])
    elif obj["mode"] == "merge":
        p = run_merge(obj["rec"])
    elif obj["mode"] == "gather":
        p = gather.run_history(obj["job"])
    else:
        return True, "df replay: rerun the check"
    return (not p), "; ".join(t for _, t in p) or "agrees with the specification"
