"""C20 — temporal context of every event equals the set of processes ongoing at that time.

TLC: specs/EventCtx.tla (incremental algorithm == declarative context, all histories in bounds);
every history enumerated by TLC is realised as a valid events file and run through the real
EventManager; base / contexts / residual strings / process end indices are compared with the
values the specification prescribes.
"""
import collections
import json
import multiprocessing as mp
import os
import random
import re

from .. import tlc

NAMES = {"a": "Abc", "b": "Bcd"}
DEFS = ("(Definition/Abc, (Action, Condition-variable/Va)), (Definition/Bcd, (Agent, Condition-variable/Vb)), "
        "(Definition/Acc/#, (Acceleration/# m-per-s^2, Condition-variable/Vc))")
# valued mode: the two process names are ONE placeholder definition with two values (each value is a name of its own)
NAMES_V = {"a": "Acc/4.5", "b": "Acc/5.5"}
DEFVAR_V = {"a": "vc.acc/4.5", "b": "vc.acc/5.5"}
DEFVAR = {"a": "va.abc", "b": "vb.bcd"}      # factor column of the variable a definition carries: <variable>.<definition>
PROC_TAGS = ["Red", "Green", "Blue", "Square", "Circle", "Triangle", "Cross", "Ellipse"]
PLAIN_TAGS = ["Sensory-event", "Agent-action", "Data-feature", "Experiment-control"]
_G = {}


def _variant(word, i):
    if "/" in word:          # a valued name: only the name part changes letter case
        w, _, v = word.partition("/")
        return _variant(w, i) + "/" + v
    masks = [0b000, 0b111, 0b100, 0b010, 0b001, 0b110, 0b101, 0b011]
    m = masks[i % 8]
    return "".join(c.upper() if (m >> (len(word) - 1 - j)) & 1 else c.lower() for j, c in enumerate(word))


def _dur_text(d, rng):
    """duration of d ms in a randomly chosen accepted unit spelling"""
    forms = [("%g s" % (d / 1000.0)), ("%d ms" % d), ("%g second" % (d / 1000.0)), ("%g seconds" % (d / 1000.0)),
             ("%g Seconds" % (d / 1000.0)), ("%g minute" % (d / 60000.0)), ("%g" % (d / 1000.0)),
             ("%d milliseconds" % d), ("%d MilliSeconds" % d), ("%d millisecond" % d)]       # prefixed unit NAMES, singular and plural
    if (d / 60000.0) != float("%g" % (d / 60000.0)):
        forms.pop(5)
    return rng.choice(forms)


def _word(w, pid, on):
    """Onset / Offset / Duration / Delay in another letter case (tags are case-insensitive), for every third process when on"""
    if not on or pid % 3 != 1:
        return w
    return [w.lower(), w.upper(), w[0].lower() + w[1:].upper()][(pid // 3) % 3]


def concretise(case, rng):
    times, acts = case["times"], case["acts"]
    tokens = {}     # proc id -> identifying token in printed content
    plain = {}
    nplain = 0
    parts = {j: [] for j in range(1, len(times) + 1)}
    cv = rng.random() < 0.6      # contents carry a type variable of their own (Condition-variable/P<n>)
    valued = rng.random() < 0.3
    recase = rng.random() < 0.4      # reserved tags of some processes are written in another letter case
    names, defvar = (NAMES_V, DEFVAR_V) if valued else (NAMES, DEFVAR)
    varof = {}                   # proc id -> factor columns it switches on
    for j, (t, al) in enumerate(zip(times, acts), 1):
        for a in al:
            pid = a["id"]
            can_delay = True
            if a["a"] == "on":
                sp = _variant(names[a["key"]], pid)
                if pid % 3 == 0:
                    txt = "(Def/%s, %s)" % (sp, _word("Onset", pid + 1, recase))
                    tokens[pid] = "Def/" + sp
                else:
                    tag = PROC_TAGS[pid % len(PROC_TAGS)]
                    tokens[pid] = tag
                    if cv:
                        varof.setdefault(pid, []).append("p%d" % pid)
                        tag = "%s, Condition-variable/P%d" % (tag, pid) if pid % 4 < 2 else "Condition-variable/P%d, %s" % (pid, tag)
                    ow = _word("Onset", pid, recase)
                    txt = "(Def/%s, %s, (%s))" % (sp, ow, tag) if pid % 2 else "(%s, (%s), Def/%s)" % (ow, tag, sp)
                varof.setdefault(pid, []).append(defvar[a["key"]])
            elif a["a"] == "off":
                sp = _variant(names[a["key"]], 7 - (pid % 8))
                txt = "(Def/%s, %s)" % (sp, _word("Offset", pid, recase))
                can_delay = False
            else:
                # Duration processes come in pairs with IDENTICAL content: two different ongoing processes may read the same
                tag = PROC_TAGS[(pid // 2) % len(PROC_TAGS)]
                tokens[pid] = tag
                if cv:
                    varof.setdefault(pid, []).append("q%d" % (pid // 2))
                    tag = "%s, Condition-variable/Q%d" % (tag, pid // 2)
                txt = "(%s/%s, (%s))" % (_word("Duration", pid, recase), _dur_text(a["d"], rng), tag)
            if can_delay and j > 1 and rng.random() < 0.3:
                # Delay-shifted: written in the row of an EARLIER time point of the same history
                jc = rng.randrange(1, j)
                d = t - times[jc - 1]
                parts[jc].append("(%s/%s, %s)" % (_word("Delay", pid + 2, recase), rng.choice(["%g s" % (d / 1000.0), "%d ms" % d, "%d milliseconds" % d]), txt[1:-1]))
            else:
                parts[j].append(txt)
    rows = []       # (time_ms, order, hed)
    for j, t in enumerate(times, 1):
        ps = parts[j]
        if rng.random() < 0.6:
            p = PLAIN_TAGS[nplain % len(PLAIN_TAGS)]
            nplain += 1
            plain.setdefault(j, []).append(p)
            ps.insert(rng.randrange(len(ps) + 1), p)
        if len(ps) > 1 and rng.random() < 0.35:
            k = rng.randrange(1, len(ps))
            rows.append((t, 1, ", ".join(ps[:k])))
            rows.append((t, 2, ", ".join(ps[k:])))
        else:
            rows.append((t, 1, ", ".join(ps) if ps else "n/a"))
    rows.sort(key=lambda r: (r[0], r[1]))
    fmt = rng.choice(["%.1f", "%.3f", "%g"])
    # where the time axis starts: usually 1 s; sometimes so that a Duration process ENDS exactly at time 0 (onsets before it are
    # negative - legal), which is a boundary of its own
    off = 1000
    ends = [times[j - 1] + a["d"] for j, al in enumerate(acts, 1) for a in al if a["a"] == "dur"]
    if ends and rng.random() < 0.3:
        off = -rng.choice(ends)
    out = [(fmt % ((r[0] + off) / 1000.0), r[2]) for r in rows]
    return out, tokens, plain, off, varof


def execute(c):
    import pandas as pd
    from hed import TabularInput
    from hed.tools.analysis.event_manager import EventManager
    schema, dd = _G["schema"], _G["dd"]
    rows = c["rows"]
    df = pd.DataFrame({"onset": [r[0] for r in rows], "HED": [r[1] for r in rows]})
    if c.get("n", 0) % 3 == 1:
        df.index = [11 + 2 * i for i in range(len(rows))]       # row labels that are not 0..n-1 (a filtered / re-read table)
    try:
        em = EventManager(TabularInput(df), schema, extra_defs=dd)
        onsets = [float(x) for x in em.onsets]
        res = {"onsets": onsets, "base": list(em.base), "contexts": list(em.contexts),
               "resid": [str(h) for h in em.hed_strings],
               "events": [[(str(e.contents), e.start_index, e.end_index) for e in lst] for lst in em.event_list]}
        # downstream: factor vectors of the type variables (two entry points), computed on the same manager
        from hed.tools.analysis.hed_type import HedType
        from hed.tools.analysis.hed_type_manager import HedTypeManager
        fdf = HedType(em, "f", "condition-variable").get_type_factors()
        res["factors"] = {} if fdf is None else {str(col): [int(x) for x in fdf[col]] for col in fdf.columns}
        tm = HedTypeManager(em)
        tm.add_type("condition-variable")
        fdf2 = tm.get_factor_vectors("condition-variable")
        res["factors2"] = {} if fdf2 is None else {str(col): [int(x) for x in fdf2[col]] for col in fdf2.columns}
        from hed.tools.analysis.hed_tag_manager import HedTagManager
        objs = HedTagManager(em).get_hed_objs(include_context=True)
        res["tagobjs"] = ["" if o is None else str(o) for o in objs]
        # histories on one manager: filtered views are asked for (types removed: the plain tags of this file), then the
        # manager is looked at again - what it reports for every point must be what it reported before
        types = sorted({re.split(r"[/ ]", p)[0] for ps in c["plain"].values() for p in ps}) or ["Condition-variable"]
        v1 = em.unfold_context(remove_types=types)
        v0 = em.unfold_context()
        objs = em.get_hed_objs(include_context=True, remove_types=types) if hasattr(em, "get_hed_objs") else None
        res["after_views"] = {"base": list(em.base), "contexts": list(em.contexts), "resid": [str(h) for h in em.hed_strings],
                              "unfiltered_new": [str(x) for x in v0[0]], "filtered_new": [str(x) for x in v1[0]], "types": types}
    except Exception as ex:  # noqa
        res = {"raised": "%s: %s" % (type(ex).__name__, str(ex)[:200])}
    return dict(c, res=res)


def judge(c):
    """Compare the EventManager's output with the specification's prescription. Returns (problems, drift)."""
    res = c["res"]
    if "raised" in res:
        return [("raises", "EventManager raised %s" % res["raised"])], []
    times = c["times"]
    exp = c["expected"]
    tokens = {int(k): v for k, v in c["tokens"].items()}
    plain = {int(k): v for k, v in c["plain"].items()}
    prob, drift = [], []
    tp_of = {}
    for i, o in enumerate(res["onsets"]):
        ms = round(o * 1000 - c.get("off", 1000))
        tp_of[i] = times.index(ms) + 1 if ms in times else None
    first = {}
    for i in sorted(tp_of):
        if tp_of[i] is not None and tp_of[i] not in first:
            first[tp_of[i]] = i
    if any(res["onsets"][i] > res["onsets"][i + 1] for i in range(len(res["onsets"]) - 1)):
        prob.append(("order", "entries are not in time order: %s" % res["onsets"]))

    def found(text):
        return {p for p, tok in tokens.items() if re.search(r"(?<![\w/-])" + re.escape(tok) + r"(?![\w/-])", text)}

    def count(text):
        """how often each process token occurs in the text (two processes may carry the same token)"""
        c = collections.Counter()
        for tok in set(tokens.values()):
            k = len(re.findall(r"(?<![\w/-])" + re.escape(tok) + r"(?![\w/-])", text))
            if k:
                c[tok] = k
        return c

    def toks(pids):
        return collections.Counter(tokens[p] for p in pids)
    for j in range(1, len(times) + 1):
        if j not in first:
            prob.append(("missing-time-point", "no entry for time point %d (t=%d ms)" % (j, times[j - 1])))
            continue
        i0 = first[j]
        want_s, want_c = set(exp[j - 1]["started"]), set(exp[j - 1]["context"])
        entries = [i for i in tp_of if tp_of[i] == j]
        got_s = sum((count(res["base"][i]) for i in entries), collections.Counter())
        if got_s != toks(want_s):
            prob.append(("started", "time point %d: processes listed as starting %s, specification %s" % (j, dict(got_s), dict(toks(want_s)))))
        got_c = count(res["contexts"][i0])
        if got_c != toks(want_c):
            kind = "context-extra" if got_c - toks(want_c) else "context-missing"
            prob.append((kind, "time point %d (entry %d): context %s, specification %s (processes %s)"
                         % (j, i0, dict(got_c), dict(toks(want_c)), sorted(want_c))))
        for i in entries:
            if i == i0:
                continue
            g = count(res["contexts"][i])
            if g == toks(want_c):
                continue
            if g == toks(want_c | want_s) or (not (toks(want_c) - g) and not (g - toks(want_c | want_s))):
                drift.append("follower entry %d of time point %d lists processes started at that same time as context" % (i, j))
            else:
                prob.append(("context-follower", "time point %d follower entry %d: context %s, specification %s" % (j, i, dict(g), dict(toks(want_c)))))
        resid = ",".join(res["resid"][i] for i in entries)
        for p in plain.get(j, []):
            if p not in resid:
                prob.append(("residual-lost", "time point %d: plain tag %s missing from the remaining annotation %r" % (j, p, resid)))
        if found(resid) or re.search(r"\b(Onset|Offset|Duration)\b", resid, re.I):
            prob.append(("residual-temporal", "time point %d: remaining annotation still holds temporal groups: %r" % (j, resid)))
    # factor vectors: a variable is on at a time point exactly when a process carrying it starts or is context there
    if "factors" in res and "varof" in c:
        varof = {int(k): v for k, v in c["varof"].items()}
        cols = sorted({v for vs in varof.values() for v in vs} | set(res["factors"]))
        if res["factors"] != res.get("factors2"):
            prob.append(("factor-entry-points", "HedType gives %s, HedTypeManager %s" % (res["factors"], res.get("factors2"))))
        for col in cols:
            vec = res["factors"].get(col, [0] * len(res["onsets"]))
            if len(vec) != len(res["onsets"]):
                prob.append(("factor-length", "factor %s has %d entries for %d events" % (col, len(vec), len(res["onsets"]))))
                continue
            for j in range(1, len(times) + 1):
                entries = [i for i in tp_of if tp_of[i] == j]
                got = int(any(vec[i] for i in entries))
                want = int(any(col in varof.get(p, []) for p in exp[j - 1]["active"]))
                if got != want:
                    prob.append(("factor-%s" % ("extra" if got else "missing"),
                                 "factor %s at time point %d is %d, specification %d (active processes %s)"
                                 % (col, j, got, want, exp[j - 1]["active"])))
                    break
    # the tag manager's assembled annotations: one per entry, each holding what the manager lists for that entry
    if "tagobjs" in res:
        if len(res["tagobjs"]) != len(res["onsets"]):
            prob.append(("tag-manager-length", "HedTagManager.get_hed_objs returns %d annotations for %d time-ordered entries"
                         % (len(res["tagobjs"]), len(res["onsets"]))))
        else:
            for i, txt in enumerate(res["tagobjs"]):
                want_i = count(res["base"][i]) + count(res["contexts"][i]) + count(res["resid"][i])
                if count(txt) != want_i:
                    prob.append(("tag-manager-entry", "entry %d: HedTagManager assembles %r, the manager lists base %r context %r rest %r"
                                 % (i, txt, res["base"][i], res["contexts"][i], res["resid"][i])))
                    break
    av = res.get("after_views")
    if av:
        for fld in ("base", "contexts", "resid"):
            if av[fld] != res[fld]:
                k = [i for i, (a, b) in enumerate(zip(res[fld], av[fld])) if a != b][0]
                prob.append(("view-changes-manager:" + fld, "after asking for views with types %s removed the manager reports %s[%d] = %r, "
                             "before it was %r" % (av["types"], fld, k, av[fld][k], res[fld][k])))
        if [re.sub(r"\s+", "", x) for x in av["unfiltered_new"]] != [re.sub(r"\s+", "", x) for x in res["resid"]]:
            prob.append(("view-changes-manager:unfold", "an unfiltered view asked for after a filtered one gives %s, the remaining "
                         "annotations are %s" % (av["unfiltered_new"], res["resid"])))
    # process end indices (two processes may read the same: compare, per start point and token, the multisets of end points)
    n = len(res["onsets"])
    got_ends, want_ends = collections.Counter(), collections.Counter()
    for i, lst in enumerate(res["events"]):
        for contents, s, e in lst:
            tk = [t for t in count(contents)]
            if len(tk) != 1 or tp_of.get(i) is None:
                continue
            got_ends[(tp_of[i], tk[0], len(times) + 1 if e >= n else tp_of.get(e))] += 1
    for j in range(1, len(times) + 1):
        for p in exp[j - 1]["started"]:
            want_ends[(j, tokens[p], c["endidx"][p - 1])] += 1
    if got_ends != want_ends:
        prob.append(("end", "processes (start point, content, end point) %s, specification %s"
                     % (sorted((got_ends - want_ends).elements()), sorted((want_ends - got_ends).elements()))))
    return prob, drift


def _init(_):
    from hed import load_schema_version
    from hed.models.definition_dict import DefinitionDict
    _G["schema"] = load_schema_version("8.3.0")
    _G["dd"] = DefinitionDict(DEFS, _G["schema"])


def _endidx(case):
    """EndIdx per process is emitted by the spec (procs[].end for finished Onset processes; Duration ends
    are part of `expected` through Context).  We only *read* it: -- derive from the emitted expectation."""
    return case["endidx"]


def run(ctx):
    quick = ctx.quick
    ctx.rule = ("cases = histories of EventCtx.tla (every reachable state: time points x Onset/Offset of 2 names, Duration "
                "groups of 3 lengths, 2 time gaps), each realised as a valid events file (unit spellings, Delay-shifted "
                "groups, equal-onset rows, plain tags); distinct = distinct history; non-trivial = at least one process")
    ctx.tlc("MC_EventCtx", "MC_EventCtx.cfg", workers=16, coverage=True,
            label="design: incremental context == declarative context (T=4, A=4)", timeout=900)
    gen = "MC_EventCtx_gen.cfg" if quick else ctx.cfg("MC_EventCtx_gen.cfg", ("T = 3", "T = 4"), ("A = 3", "A = 4"))
    r = ctx.tlc("MC_EventCtx", gen, workers=1, label="history generation with expected context", timeout=1800)
    ctx.exhaustive = True
    cases = []
    for n, j in enumerate(r.json_lines):
        if not j["times"] or not j["procs"]:
            continue
        if quick and (n + ctx.seed) % 2:
            continue
        rng = random.Random(ctx.seed * 104729 + n)
        rows, tokens, plain, off, varof = concretise(j, rng)
        cases.append({"n": n, "times": j["times"], "acts": j["acts"], "expected": j["expected"], "endidx": j["endidx"],
                      "rows": rows, "tokens": tokens, "plain": plain, "off": off, "varof": varof})
    with mp.get_context("fork").Pool(14, initializer=_init, initargs=(None,)) as pool:
        done = pool.map(execute, cases, chunksize=64)
    ndrift = 0
    for c in done:
        ctx.case(json.dumps([c["times"], c["acts"]], sort_keys=True), nontrivial=True)
        ctx.traces += 1
        prob, drift = judge(c)
        ndrift += bool(drift)
        for kind, text in prob:
            ctx.violation(kind, "%s; rows=%s" % (text, c["rows"]),
                          {k: c[k] for k in ("times", "acts", "expected", "endidx", "rows", "tokens", "plain", "off", "varof")})
    ctx.note("spec_drift_equal_onset_followers", ndrift)
    # unordered files must be rejected
    _init(None)
    from hed.errors.exceptions import HedFileError
    nrej = 0
    for c in [c for c in done if len({r[0] for r in c["rows"]}) >= 2][:40]:
        rows = list(c["rows"])
        i = next(k for k in range(len(rows) - 1) if float(rows[k][0]) < float(rows[k + 1][0]))
        rows[i], rows[i + 1] = rows[i + 1], rows[i]
        out = execute(dict(c, rows=rows))["res"]
        ctx.case("unordered:" + json.dumps(rows))
        nrej += 1
        if "raised" not in out or not out["raised"].startswith("HedFileError"):
            ctx.violation("unordered-accepted", "file with decreasing onsets was not rejected: rows=%s -> %s" % (rows, str(out)[:200]),
                          {"rows": rows, "unordered": True})
    ctx.note("unordered_files_checked", nrej)
    for c in done[3:6] + done[-2:]:
        ctx.sample({"rows": c["rows"], "expected": c["expected"], "base": c["res"].get("base"), "contexts": c["res"].get("contexts")})
    ctx.assumptions += ["process identity = a unique tag inside the process group (or a unique letter-case spelling of its Def)",
                        "times are integers in ms (multiples of 500), first time point at 1.0 s",
                        "for entries that share an onset the context is checked strictly on the first entry; followers may "
                        "additionally list processes started at that time point (recorded as spec drift, see DESIGN.md)"]


def replay(obj):
    _init(None)
    if obj.get("unordered"):
        out = execute({"rows": [tuple(r) for r in obj["rows"]]})["res"]
        ok = "raised" in out and out["raised"].startswith("HedFileError")
        return ok, str(out)[:300]
    c = execute(dict(obj, rows=[tuple(r) for r in obj["rows"]]))
    prob, _ = judge(c)
    return (not prob), "; ".join(t for _, t in prob) or "agrees with the specification"
