"""C07 — file-level validation equals row-by-row string validation, with true locations.

TLC: specs/FileCheck.tla gives for every table (rows x {HED column, categorical column} over abstract cells,
with / without an onset column, distinct onsets in any order, n/a onsets) the multiset of
<<code, file row, column>> that must be reported; ShuffleLaw and LabelsTrue are checked on the model.
Binding A: every table TLC reaches is concretised (rotating real tags, Delay groups with varied unit
spellings) and run through TabularInput.validate: never raises; errors equal the prescribed multiset with
their row/column labels; rows with error-free cells report exactly what string-level validation reports
for the assembled row (real HedString.validate as cross-oracle); all row permutations are validated too
and must differ only by labels following the rows plus one out-of-order warning.
"""
import io
import itertools
import json
import multiprocessing as mp
import os
import random

from .. import tlc

_G = {}
TAGS = [("Red", "Blue"), ("Square", "Circle"), ("Agent-action", "Sensory-event"), ("Item-count/3", "Label/abc"),
        ("Green", "Triangle")]
BAD = ["Qqzzx", "Red/Blue", "Item-count/abc", "Weight/3 qqzz", "Def/Nopezz", "(Delay/2 xyz, (Ellipse))", "(Delay/abc, (Ellipse))",
       "(Duration/#, (Ellipse))"]
BAD_CODE = ["TAG_INVALID", "TAG_EXTENSION_INVALID", "VALUE_INVALID", "UNITS_INVALID", "DEF_INVALID", "UNITS_INVALID", "VALUE_INVALID",
            "PLACEHOLDER_INVALID"]
DELAYS = ["(Delay/2 s, (Ellipse))", "(Delay/2 Seconds, (Ellipse))", "(Delay/2000 ms, (Ellipse))", "(Delay/1.5 second, (Ellipse))",
          "(Duration/2 Seconds, (Ellipse))", "(Delay/1 s, Duration/0.5 Minutes, (Ellipse))"]
DEFS = "(Definition/Aaa, (Action))"


def _init(_):
    from hed import load_schema_version
    from hed.models.definition_dict import DefinitionDict
    _G["schema"] = load_schema_version("8.3.0")
    _G["dd"] = DefinitionDict(DEFS, _G["schema"])
    _G["work"] = _


def concretise(case, rot):
    a, b = TAGS[rot % len(TAGS)]
    bad = BAD[rot % len(BAD)]
    code = BAD_CODE[rot % len(BAD)]
    dly = DELAYS[rot % len(DELAYS)]
    hmap = {"a": a, "b": b, "bad": bad, "na": "n/a", "off": "(Def/Aaa, Offset)", "dly": dly,
            "on": ["(Def/Aaa, Onset)", "(Def/aaa, Onset, (Ellipse))"][rot % 2],
            # (15 s also in megaseconds: prefix SYMBOLS are case-sensitive, `Ms` is not `ms`; the schema declares the factor of M as 10e6,
            #  i.e. 1e7 - observation O4 - so 15 s is 0.0000015 Ms by the schema's own table)
            "doff": ["(Delay/15 s, Def/Aaa, Offset)", "(Delay/15000 ms, Offset, Def/AAA)", "(Delay/0.0000015 Ms, Def/Aaa, Offset)"][rot % 3]}
    hmap["ona"] = [a + ", " + hmap["on"], hmap["on"] + ", " + a][(rot // 2) % 2]
    hmap["offa"] = ["(Def/Aaa, Offset), " + a, a + ", (Offset, Def/aaa)"][(rot // 2) % 2]
    hmap["onoff"] = ["(Def/Aaa, Onset), (Def/aaa, Offset)", "(Onset, Def/Aaa, (Ellipse)), (Offset, Def/Aaa)"][(rot // 3) % 2]
    sidecar = {"cat": {"HED": {"ka": a, "kb": b, "kbad": bad}}}
    cmap = {"a": "ka", "b": "kb", "bad": "kbad", "na": "n/a", "unk": "kzz"}
    rows = case["rows"]
    table = {}
    if case["hasOnset"]:
        table["onset"] = [("n/a" if r["onset"] == 0 else ["%d", "%d.0", "%d.50"][rot % 3] % (r["onset"] * 10)) for r in rows]
    table["HED"] = [hmap[r["h"]] for r in rows]
    table["cat"] = [cmap[r["c"]] for r in rows]
    rowtext = []
    for r in rows:
        parts = [x for x in (hmap[r["h"]], {"a": a, "b": b, "bad": bad}.get(r["c"])) if x and x != "n/a"]
        rowtext.append(", ".join(parts))
    return table, sidecar, code, rowtext


class SecondValidationDiffers(Exception):
    pass


def validate_table(table, sidecar, as_object=False, labels=None):
    import pandas as pd
    from hed import Sidecar, TabularInput
    df = pd.DataFrame(table, dtype=object if as_object else str)
    if labels is not None:
        df.index = labels
    t = TabularInput(df, sidecar=Sidecar(io.StringIO(json.dumps(sidecar))))
    held = t.dataframe.astype(str).values.tolist()
    issues = t.validate(_G["schema"], extra_def_dicts=_G["dd"])
    out = []
    for i in issues:
        out.append((i.get("code"), 1 if i.get("severity", 1) == 1 else 10, i.get("ec_row"), i.get("ec_column") or ""))
    # history: validating the SAME input object again gives the same report, and the table it holds is still the file
    _G["nv"] = _G.get("nv", 0) + 1
    if _G["nv"] % 3:             # (every third validated table)
        return out
    before = t.dataframe.astype(str).values.tolist()
    if before != held:
        raise SecondValidationDiffers("validation changed the rows the input object holds: before %s, after %s" % (held, before))
    again = [(i.get("code"), 1 if i.get("severity", 1) == 1 else 10, i.get("ec_row"), i.get("ec_column") or "")
             for i in t.validate(_G["schema"], extra_def_dicts=_G["dd"])]
    if sorted(again, key=repr) != sorted(out, key=repr) or t.dataframe.astype(str).values.tolist() != before:
        raise SecondValidationDiffers("validating the same input object twice: first %s, then %s; rows held before the second "
                                      "validation %s, after it %s" % (out, again, before, t.dataframe.astype(str).values.tolist()))
    return out


def execute(args):
    ci, case, rot = args
    from hed import HedString
    table, sidecar, code, rowtext = concretise(case, rot)
    n = len(case["rows"])
    problems = []
    try:
        got = validate_table(table, sidecar)
    except SecondValidationDiffers as ex:
        return ci, [("second-validation-differs", str(ex))], None
    except Exception as ex:  # noqa
        return ci, [("raises:%s" % type(ex).__name__, "validate raised %s: %s for table %s" % (type(ex).__name__, ex, table))], None
    # the same table as a DataFrame whose row labels are not 0..n-1 (a filtered / re-read table): the same issues, each naming
    # its row by the row's label (+2, as for the default labels)
    if ci % 8 == 1 and n:
        try:
            labs = [11 + 2 * i for i in range(n)]
            got_l = validate_table(table, sidecar, labels=labs)
            back = [(c, sv, (r - 13) // 2 + 2 if isinstance(r, int) and (r - 13) % 2 == 0 and 0 <= (r - 13) // 2 < n else (r if r is None else -r), col)
                    for c, sv, r, col in got_l]
            # (column-structure warnings name the row by position: their rows are left out of this comparison)
            back = [(c, sv, r if sv == 1 else None, col) for c, sv, r, col in back]
            ref = [(c, sv, r if sv == 1 else None, col) for c, sv, r, col in got]
            if sorted(back, key=repr) != sorted(ref, key=repr):
                problems.append(("relabelled:differs", "table %s with row labels %s reports %s, with the default labels %s" % (table, labs, got_l, got)))
        except SecondValidationDiffers as ex:
            problems.append(("second-validation-differs", str(ex)))
        except Exception as ex:  # noqa
            problems.append(("relabelled:raises:%s" % type(ex).__name__, "validate raised %s: %s for table %s with row labels 11, 13, ..." % (type(ex).__name__, ex, table)))
    # the same table handed over as a DataFrame whose n/a cells are MISSING values (None / NaN, what pandas reads by default)
    try:
        tm = {k: [None if (x == "n/a" and k != "onset") else x for x in v] for k, v in table.items()}
        # (a table without an n/a cell is the same table: only every fourth of those is run through the object-typed path)
        got_m = validate_table(tm, sidecar, as_object=True) if (tm != table or ci % 4 == 0) else got
        if sorted(got_m, key=repr) != sorted(got, key=repr):
            problems.append(("missing-cells:differs", "table %s with its n/a cells given as missing values reports %s, with n/a %s" % (table, got_m, got)))
    except Exception as ex:  # noqa
        problems.append(("missing-cells:raises:%s" % type(ex).__name__, "validate raised %s: %s for table %s whose n/a cells are missing values (None)"
                         % (type(ex).__name__, ex, table)))
    want_err = sorted({(code if c == "TAG_INVALID" else c, r, col) for c, r, col in map(tuple, case["errors"])})
    got_err = sorted({(c, r, col) for c, s, r, col in got if s == 1})
    dirty = {r for c, r, col in want_err if col}          # rows with a failing cell: "at least every error of every cell"
    miss = [x for x in want_err if x not in got_err]
    extra = [x for x in got_err if x not in want_err and x[1] not in dirty]
    if miss or extra:
        # classify by the statement's clauses
        if miss and any(m[0] == x[0] and (m[1] != x[1] or m[2] != x[2]) for m in miss for x in extra):
            kind = "wrong-label"
        elif miss:
            kind = "missing:%s:%s" % (miss[0][0], "na-onset" if (case["hasOnset"] and case["rows"][miss[0][1] - 2]["onset"] == 0) else
                                      ("no-onset-column" if not case["hasOnset"] else "row"))
        else:
            kind = "extra:%s" % extra[0][0]
        problems.append((kind, "table %s sidecar %s: errors reported %s, prescribed %s" % (table, json.dumps(sidecar), got_err, want_err)))
    want_w = sorted((c, r, col) for c, r, col in map(tuple, case["warnings"]))
    got_w = sorted((c, r, col) for c, s, r, col in got if s != 1 and c == "SIDECAR_KEY_MISSING")
    if got_w != want_w:
        problems.append(("structure-warning", "table %s: column-structure warnings %s, prescribed %s" % (table, got_w, want_w)))
    if case["hasOnset"] and case["numeric"]:
        nun = sum(1 for c, s, r, col in got if c == "ONSETS_UNORDERED")
        if nun != (1 if case["unordered"] else 0):
            problems.append(("unordered-warning", "table %s: %d out-of-order warnings, prescribed %d" % (table, nun, 1 if case["unordered"] else 0)))
    # the same cells as a spreadsheet WITHOUT a header line (columns are then labelled by number, rows count from 1); only for
    # tables without temporal cells and unknown keys; every first cell also carries a warning-only tag, warnings are asked for
    if all(r["h"] in ("a", "b", "bad", "na") and r["c"] in ("a", "b", "bad", "na") for r in case["rows"]) and n:
        from hed import SpreadsheetInput
        from hed.errors import ErrorHandler
        cat = {"a": TAGS[rot % len(TAGS)][0], "b": TAGS[rot % len(TAGS)][1], "bad": BAD[rot % len(BAD)], "na": "n/a"}
        lines = []
        for k, r in enumerate(case["rows"]):
            c0 = table["HED"][k]
            c0 = "Item/Blorpx%d" % k if c0 == "n/a" else c0 + ", Item/Blorpx%d" % k
            lines.append("%s\t%s" % (c0, cat[r["c"]]))
        try:
            sp = SpreadsheetInput(io.StringIO("\n".join(lines) + "\n"), file_type=".tsv", has_column_names=False, tag_columns=[0, 1])
            gs = sp.validate(_G["schema"], extra_def_dicts=_G["dd"], error_handler=ErrorHandler(check_for_warnings=True))
            got_s = sorted({(i.get("code"), i.get("ec_row"), "" if i.get("ec_column") is None else i.get("ec_column"))
                            for i in gs if i.get("severity", 1) == 1})
            want_s = sorted({(c_, r_ - 1, {"HED": 0, "cat": 1}.get(col_, "")) for c_, r_, col_ in want_err}, key=repr)
            dirty_s = {r_ for c_, r_, col_ in want_s if col_ != ""}
            miss_s = [x for x in want_s if x not in got_s]
            extra_s = [x for x in got_s if x not in want_s and x[1] not in dirty_s]
            if miss_s or extra_s:
                kind = "headerless:wrong-label" if any(m[0] == x[0] for m in miss_s for x in got_s) else \
                    ("headerless:missing:%s" % miss_s[0][0] if miss_s else "headerless:extra:%s" % extra_s[0][0])
                problems.append((kind, "spreadsheet without header %r: errors reported %s, prescribed %s" % (lines, got_s, want_s)))
        except Exception as ex:  # noqa
            problems.append(("headerless:raises:%s" % type(ex).__name__, "validating the spreadsheet without header %r raised %s: %s"
                             % (lines, type(ex).__name__, ex)))
        # ... and as an Excel workbook WITH a header line whose n/a cells are simply left empty
        if ci % 3 == 0:
            import openpyxl
            xp = os.path.join(_G.get("work") or "/tmp", "c07_%d_%d.xlsx" % (os.getpid(), ci))
            try:
                wb = openpyxl.Workbook()
                ws = wb.active
                ws.append(["colA", "colB"])
                for ln in lines:
                    ws.append([None if x == "n/a" else x for x in ln.split("\t")])
                wb.save(xp)
                gx = SpreadsheetInput(xp, tag_columns=["colA", "colB"]).validate(_G["schema"], extra_def_dicts=_G["dd"],
                                                                                 error_handler=ErrorHandler(check_for_warnings=True))
                got_x = sorted({(i.get("code"), i.get("ec_row"), "" if i.get("ec_column") is None else i.get("ec_column"))
                                for i in gx if i.get("severity", 1) == 1}, key=repr)
                want_x = sorted({(c_, r_, {"HED": "colA", "cat": "colB"}.get(col_, "")) for c_, r_, col_ in want_err}, key=repr)
                dirty_x = {r_ for c_, r_, col_ in want_x if col_ != ""}
                if [x for x in want_x if x not in got_x] or [x for x in got_x if x not in want_x and x[1] not in dirty_x]:
                    problems.append(("excel:errors-differ", "Excel sheet %r (n/a cells left empty): errors reported %s, prescribed %s" % (lines, got_x, want_x)))
            except Exception as ex:  # noqa
                problems.append(("excel:raises:%s" % type(ex).__name__, "validating the Excel sheet %r (n/a cells left empty) raised %s: %s"
                                 % (lines, type(ex).__name__, ex)))
            finally:
                try:
                    os.remove(xp)
                except OSError:
                    pass
    # empty rows: before every row an all-n/a row with the SAME onset is inserted (the two then form one time point); nothing but
    # the labels may change - every error is reported for the same original row (or its empty companion, cf. O8)
    if case["hasOnset"] and case["numeric"] and n >= 1:
        t4 = {k: [] for k in table}
        for k in range(n):
            for col in table:
                t4[col].append(table[col][k] if col == "onset" else "n/a")
            for col in table:
                t4[col].append(table[col][k])
        try:
            g4 = validate_table(t4, sidecar)
            e4 = sorted((c_, (r - 2) // 2 + 2) for c_, s_, r, col in g4 if s_ == 1 and r is not None)
            e0 = sorted((c_, r) for c_, s_, r, col in got if s_ == 1 and r is not None)
            dirty4 = {r for c_, r, col in {(c2 if c2 != "TAG_INVALID" else code, r2, col2) for c2, r2, col2 in map(tuple, case["errors"])} if col}
            if dirty4:      # whether the markers of a row with a failing cell take effect is not fixed by the statement:
                e4 = [x for x in e4 if x[0] != "TEMPORAL_TAG_ERROR"]      # temporal issues are then left out of this comparison
                e0 = [x for x in e0 if x[0] != "TEMPORAL_TAG_ERROR"]
            clean_same = [x for x in e4 if x[1] not in dirty4] == [x for x in e0 if x[1] not in dirty4]
            dirty_kept = all(e4.count(x) >= e0.count(x) for x in e0 if x[1] in dirty4)     # rows with a failing cell: "at least"
            if not (clean_same and dirty_kept):
                problems.append(("empty-rows:errors-differ", "table %s: with an all-n/a row of the same onset inserted before every row the errors "
                                 "(code, original row) are %s, without them %s" % (table, e4, e0)))
        except Exception as ex:  # noqa
            problems.append(("raises:%s" % type(ex).__name__, "validate raised %s: %s for table %s" % (type(ex).__name__, ex, t4)))
    # a value column referenced in curly braces from the categorical entries: its one failing cell must be reported at ITS
    # file row, in whatever order the rows (onsets) come
    if n >= 2 and code != "VALUE_INVALID" and any(r["c"] in ("a", "b") for r in case["rows"]):
        a_, b_ = TAGS[rot % len(TAGS)]
        sc2 = {"cat": {"HED": {"ka": a_ + ", {num}", "kb": "({num}, %s)" % b_, "kbad": BAD[rot % len(BAD)]}}, "num": {"HED": "Item-count/#"}}
        star = (rot // 3) % n
        t3 = dict(table)
        t3["num"] = ["abc" if k == star else str(3 + k) for k in range(n)]
        want_rows = {star + 2} if case["rows"][star]["c"] in ("a", "b") else set()
        try:
            g3 = validate_table(t3, sc2)
            got_rows = {r for c_, s_, r, col in g3 if c_ == "VALUE_INVALID"}
            if got_rows != want_rows:
                problems.append(("reference:wrong-row", "table %s with sidecar %s: the failing value cell is in file row %s, VALUE_INVALID is "
                                 "reported at rows %s" % (t3, json.dumps(sc2), sorted(want_rows), sorted(got_rows))))
        except Exception as ex:  # noqa
            problems.append(("raises:%s" % type(ex).__name__, "validate raised %s: %s for table %s sidecar %s" % (type(ex).__name__, ex, t3, sc2)))
    # cross-oracle: rows with error-free cells == string-level validation of the assembled row
    cellerr_rows = {r for c, r, col in want_err if col}
    for i in range(n):
        fr = i + 2
        if fr in cellerr_rows or not rowtext[i]:
            continue
        try:
            sv = sorted(x["code"] for x in HedString(rowtext[i], _G["schema"], _G["dd"]).validate(allow_placeholders=False)
                        if x.get("severity", 1) == 1)
        except Exception as ex:  # noqa
            sv = ["<raised %s>" % type(ex).__name__]
        fv = sorted({c for c, s, r, col in got if s == 1 and r == fr and c != "TEMPORAL_TAG_ERROR"})
        sv = sorted({c for c in sv if c != "TEMPORAL_TAG_ERROR"})
        if fv != sv:
            problems.append(("row-vs-string:%s" % ",".join(sorted(set(fv) ^ set(sv))),
                             "table %s: file row %d reports %s, string validation of %r reports %s" % (table, fr, fv, rowtext[i], sv)))
    # shuffle law on the real code (distinct numeric onsets only)
    if case["hasOnset"] and case["numeric"] and n >= 2 and not problems:
        for perm in itertools.permutations(range(n)):
            if list(perm) == list(range(n)):
                continue
            t2 = {k: [v[p] for p in perm] for k, v in table.items()}
            try:
                g2 = validate_table(t2, sidecar)
            except Exception as ex:  # noqa
                problems.append(("raises:%s" % type(ex).__name__, "validate raised %s for permuted table %s" % (ex, t2)))
                continue
            inv = {p + 2: k + 2 for k, p in enumerate(perm)}     # original file row -> new file row
            want2 = sorted((c, s, inv.get(r, r), col) for c, s, r, col in got if c != "ONSETS_UNORDERED")
            got2 = sorted((c, s, r, col) for c, s, r, col in g2 if c != "ONSETS_UNORDERED")
            if want2 != got2:
                problems.append(("shuffle", "table %s permuted to %s: issues %s, expected (labels following rows) %s" % (table, t2, got2, want2)))
            onsets2 = [float(x) for x in t2["onset"]]
            unordered2 = any(onsets2[i] > onsets2[i + 1] for i in range(n - 1))
            if sum(1 for x in g2 if x[0] == "ONSETS_UNORDERED") != (1 if unordered2 else 0):
                problems.append(("unordered-warning", "permuted table %s: wrong number of out-of-order warnings" % t2))
    return ci, problems, {"table": table, "issues": got}


def run(ctx):
    quick = ctx.quick
    ctx.rule = ("cases = every table of FileCheck.tla with <= 2 rows (<= 3 sampled by simulation; thorough: <= 3 exhaustive on a "
                "reduced alphabet) x {HED column: 2 valid tags, failing cell, n/a, unmatched Offset, Delay/Duration group} x "
                "{categorical column: 2 categories, failing category, n/a, unknown key} x onset column present/absent, distinct onsets "
                "in every order, n/a onsets; concretised with rotating tags, 5 kinds of failing cell, 6 Delay/Duration unit spellings; "
                "every row permutation is validated as well; distinct = distinct table; non-trivial = some issue is prescribed")
    r = ctx.tlc("MC_FileCheck", "MC_FileCheck.cfg", workers=1, label="tables <= 2 rows: ShuffleLaw, LabelsTrue, prescribed issues", timeout=1800)
    cases = list(r.json_lines)
    ctx.exhaustive = True
    rs = ctx.tlc("MC_FileCheck", ctx.cfg("MC_FileCheck.cfg", ("MaxRows = 2", "MaxRows = 3")), workers=1, mode="simulate",
                 simulate="num=%d" % (1500 if quick else 30000), depth=4, seed=ctx.seed + 7, label="tables with 3 rows (simulate)",
                 timeout=3000)
    seen = set()
    for j in rs.json_lines:
        k = json.dumps(j, sort_keys=True)
        if len(j["rows"]) == 3 and k not in seen:
            seen.add(k)
            cases.append(j)
    jobs = [(ci, c, ctx.seed * 13 + ci) for ci, c in enumerate(cases)]
    with mp.get_context("fork").Pool(14, initializer=_init, initargs=(ctx.work,)) as pool:
        res = pool.map(execute, jobs, chunksize=32)
    for ci, problems, sample in res:
        c = cases[ci]
        ctx.case(json.dumps([c["rows"], c["hasOnset"]], sort_keys=True), nontrivial=bool(c["errors"] or c["warnings"] or c["unordered"]))
        ctx.traces += 1
        for kind, text in problems:
            ctx.violation(kind, text, {"case": c, "rot": ctx.seed * 13 + ci})
        if sample and ci % 503 == 7:
            ctx.sample(sample)
    ctx.note("tables", len(cases))
    ctx.note("tables_with_3_rows", len(seen))
    ctx.assumptions += ["tables have distinct onsets (equal-onset merging is decided in C10/C20)", "the out-of-order warning is only "
                        "compared for tables whose onsets are all numeric", "TEMPORAL_TAG_ERROR is compared against the specification, "
                        "not against string-level validation (which has no time line)"]


def replay(obj):
    _init(None)
    ci, problems, _ = execute((0, obj["case"], obj["rot"]))
    return (not problems), "; ".join(t for _, t in problems)[:1500] or "agrees with the specification"
