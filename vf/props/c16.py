"""C16 — each dataset file is validated with its inherited, merged sidecar.

TLC: specs/Bids.tla (directory tree, Applicable / Chain / Merged; invariants MergedIsTopDown, ChainExact,
Deterministic, ExcludedIgnored, OwnColumns; sensitivity variants).  TLC enumerates small dataset trees and emits,
per tree, every events file and every sidecar file with the chain and the merged column -> source map the
specification prescribes.

Binding (A): every emitted tree is written to disk (events .tsv, sidecar .json whose entries name their source
file, decoys carrying invalid HED) and read with the real hed.tools.bids.BidsDataset:
  * the sidecar content applied to each events file must be the specification's merge;
  * dataset.validate() must be, as a multiset, what the real per-file validators return for the
    specification's merges (clean tree, then with one error seeded in a sidecar entry or an events row);
  * hed.scripts.hed_validator.main() must return non-zero iff that list is non-empty.
"""
import collections
import contextlib
import io
import json
import multiprocessing as mp
import os
import random
import re
import shutil
import sys

from .. import tlc

SCHEMA_VERSION = "8.3.0"
CATS = {"kind": ["x", "y"], "resp": ["p", "q"]}
COLS = ["kind", "resp"]
# onset, duration, kind, resp, HED
ROWS = [["1.0", "0.5", "x", "p", "Square"], ["2.5", "0.5", "y", "q", "n/a"], ["4.0", "0.5", "x", "q", "Circle"]]
HEADER = ["onset", "duration", "kind", "resp", "HED"]
BAD_SIDECAR_TAG = "Seededbadtag"
BAD_ROW_TAG = "Seededbadrow"
DEEPEST = "deepest-sidecar-own-chain"     # the class of disagreement explained by MergedViaDeepest of Bids.tla
_G = {}


# ----------------------------------------------------------------------------------------------------------
# concretisation: abstract tree (paths, columns) -> files
def _ident(path):
    return re.sub(r"[^A-Za-z0-9]", "-", path)


def _seeded(seed, path, col):
    """'tag' (default): one bad tag in one column entry; 'deep': every entry of the sidecar file carries its HED key at an
    illegal depth and no HED key at the first or second level (only the sidecar validator can tell that it is wrong)"""
    if not (seed and seed["kind"] == "sc" and seed["path"] == path):
        return False
    if seed.get("form") == "warn":
        return "warn" if seed["col"] == col else False
    return "deep" if seed.get("form") == "deep" else (seed["col"] == col)


def entry(path, col, bad=False, decoy=False):
    """content of the entry of column `col` in the sidecar file `path`: names its own source file"""
    if bad == "warn":        # one category carries a tag that only draws a WARNING (an extension)
        return {"Description": "column %s as given by %s" % (col, path),
                "HED": {v: ("Item/Seededwarnext" if i == 0 else "Label/%s_%s_%s" % (_ident(path), col, v)) for i, v in enumerate(CATS[col])}}
    if bad == "deep":
        return {"Description": "column %s as given by %s" % (col, path),
                "Levels": {v: {"HED": "Label/%s_%s_%s" % (_ident(path), col, v)} for v in CATS[col]}}
    hed = {}
    for i, v in enumerate(CATS[col]):
        hed[v] = "Label/%s_%s_%s" % (_ident(path), col, v)
        if decoy:
            hed[v] = "Decoybadtag" + v
    if bad:
        hed[CATS[col][0]] = BAD_SIDECAR_TAG
    return {"Description": "column %s as given by %s" % (col, path), "HED": hed}


def sidecar_content(path, cols, seed=None, decoy=False):
    return {c: entry(path, c, bad=_seeded(seed, path, c), decoy=decoy) for c in sorted(cols)}


def events_text(path, seed=None, decoy=False):
    rows = [list(r) for r in ROWS]
    if decoy:
        rows[0][4] = "Decoybadrow"
    if seed and seed["kind"] == "row" and seed["path"] == path:
        rows[seed["row"]][4] = BAD_ROW_TAG
    return "\n".join("\t".join(r) for r in [HEADER] + rows) + "\n"


def _write(root, rel, text):
    p = os.path.join(root, rel)
    os.makedirs(os.path.dirname(p), exist_ok=True)
    with open(p, "w") as fh:
        fh.write(text)


def materialise(tree, root, seed=None):
    shutil.rmtree(root, ignore_errors=True)
    os.makedirs(root)
    _write(root, "dataset_description.json",
           json.dumps({"Name": "c16 generated tree", "BIDSVersion": "1.8.0", "HEDVersion": SCHEMA_VERSION}))
    for ev in tree["events"]:
        _write(root, ev["path"], events_text(ev["path"], seed))
    for sc in tree["sidecars"]:
        _write(root, sc["path"], json.dumps(sidecar_content(sc["path"], sc["cols"], seed), indent=1))
    for d in tree["decoys"]:
        if d["ext"] == ".json":
            _write(root, d["path"], json.dumps(sidecar_content(d["path"], d["cols"], decoy=True)))
        else:
            _write(root, d["path"], events_text(d["path"], decoy=True))


def merged_dict(mmap, seed=None):
    """the JSON object the specification's merged map (column -> source path) stands for"""
    if not mmap:           # TLC prints the empty function as []
        return {}
    return {c: entry(src, c, bad=_seeded(seed, src, c)) for c, src in mmap.items()}


# ----------------------------------------------------------------------------------------------------------
# execution and projection
def project(issues):
    out = []
    for i in issues:
        out.append((str(i.get("code")), int(i.get("severity", 1)), str(i.get("ec_filename", "")), str(i.get("ec_row", "")),
                    str(i.get("ec_column", "")), str(i.get("ec_sidecarColumnName", "")), str(i.get("ec_sidecarKeyName", "")),
                    str(i.get("ec_HedString", ""))))
    return sorted(out)


def _cli(root, flags):
    import hed.scripts.hed_validator as hv
    old = sys.argv
    flags = [(root.rstrip("/") + "_report.txt") if f == "@OUT" else f for f in flags]
    sys.argv = ["hed_validator", root] + flags
    buf = io.StringIO()
    try:
        with contextlib.redirect_stdout(buf), contextlib.redirect_stderr(buf):
            rc = hv.main()
        return {"rc": rc}
    except SystemExit as ex:
        return {"rc": ex.code if isinstance(ex.code, int) else 1, "exit": True}
    except Exception as ex:  # noqa  an uncaught exception makes the console script exit non-zero
        return {"rc": 1, "raised": "%s: %s" % (type(ex).__name__, str(ex)[:120])}
    finally:
        sys.argv = old


def observe(tree, root, seed, wflags, cli_flags):
    """what the real code does with the tree on disk + what the real per-file validators say about the SPEC's merges.
    wflags: the check_for_warnings values to run validate() with; cli_flags: argument lists for the command line."""
    from hed.tools.bids.bids_dataset import BidsDataset
    from hed.models.sidecar import Sidecar
    from hed.models.tabular_input import TabularInput
    from hed.errors.error_reporter import ErrorHandler
    schema = _G["schema"]
    rroot = os.path.realpath(root)
    got = {}
    try:
        ds = BidsDataset(root, schema=schema)
        grp = ds.get_tabular_group("events")
        got["ev"] = {os.path.relpath(p, rroot): (f.sidecar.contents.loaded_dict if f.sidecar is not None else {})
                     for p, f in grp.datafile_dict.items()}
        got["ev_from"] = {os.path.relpath(p, rroot): (os.path.relpath(f.sidecar.file_path, rroot) if f.sidecar is not None else None)
                          for p, f in grp.datafile_dict.items()}
        got["sc"] = {os.path.relpath(p, rroot): f.contents.loaded_dict for p, f in grp.sidecar_dict.items()}
        got["issues"] = {}
        for w in wflags:
            got["issues"][str(w)] = project(ds.validate(check_for_warnings=w))
    except Exception as ex:  # noqa
        got["raised"] = "%s: %s" % (type(ex).__name__, str(ex)[:200])
    # expected side: real per-file validators on the merges the specification prescribes
    want = {"issues": {}}
    need = set(wflags) | {"--check-for-warnings" in f for f in cli_flags}
    for w in sorted(need):
        lst = []
        for sc in tree["sidecars"]:
            name = os.path.basename(sc["path"])
            s = Sidecar(io.StringIO(json.dumps(merged_dict(sc["merged"], seed))), name=name)
            lst += s.validate(schema, name=name, error_handler=ErrorHandler(w))
        for ev in tree["events"]:
            name = os.path.basename(ev["path"])
            md = merged_dict(ev["merged"], seed)
            s = Sidecar(io.StringIO(json.dumps(md)), name=name) if ev["chain"] else None
            t = TabularInput(file=os.path.join(root, ev["path"]), sidecar=s, name=name)
            lst += t.validate(schema, name=name, error_handler=ErrorHandler(w))
        want["issues"][str(w)] = project(lst)
    cli = {}
    for flags in cli_flags:
        cli[" ".join(flags)] = _cli(root, list(flags))
    return {"got": got, "want": want, "cli": cli}


def pick_seed(tree, rng):
    """one seeded error: in one column entry of one sidecar, or in one events row"""
    scs = sorted(tree["sidecars"], key=lambda s: s["path"])
    evs = sorted(tree["events"], key=lambda e: e["path"])
    if scs and rng.random() < 0.65:
        # prefer a sidecar entry that is overridden for some file or inherited by some file: the interesting ones
        s = rng.choice(scs)
        sd = {"kind": "sc", "path": s["path"], "col": rng.choice(sorted(s["cols"]))}
        x = rng.random()
        if x < 0.3:
            sd["form"] = "deep"
        elif x < 0.45:
            sd["form"] = "warn"     # the dataset then has warnings only: the issue list is empty unless warnings are asked for
        return sd
    return {"kind": "row", "path": rng.choice(evs)["path"], "row": rng.randrange(len(ROWS))}


def plan(n):
    """which (expensive) observations are made for the n-th tree; the merged-sidecar comparison is made for every tree,
    clean and seeded, and validate(check_for_warnings=False) + the command line for every seeded tree"""
    return {"w_clean": [False, True] if n % 8 == 0 else ([False] if n % 4 == 0 else []),
            "cli_clean": [["--check-for-warnings"]] if n % 8 == 0 else ([[]] if n % 4 == 0 else []),
            "w_seeded": [False, True] if n % 8 == 3 else [False],
            # (-o: the report goes to a file under the scratch directory instead of the screen; "@OUT" is replaced by a path)
            "cli_seeded": [["-f", "json"]] if n % 32 == 5 else ([["--check-for-warnings"]] if n % 8 == 3 else
                                                                 ([["-o", "@OUT"]] if n % 8 == 1 else ([[]] if n % 2 else []))),
            }


def execute(case):
    tree, pl = case["tree"], case["plan"]
    root = os.path.join(_G["work"], "t%d_%d" % (case["n"], os.getpid()))
    out = {}
    try:
        materialise(tree, root)
        out["clean"] = observe(tree, root, None, pl["w_clean"], pl["cli_clean"])
        if case.get("seed"):
            materialise(tree, root, case["seed"])
            if case["seed"].get("form") == "warn":
                out["seeded"] = observe(tree, root, case["seed"], [False, True], [["--check-for-warnings"], []])
            else:
                out["seeded"] = observe(tree, root, case["seed"], pl["w_seeded"], pl["cli_seeded"])
    finally:
        shutil.rmtree(root, ignore_errors=True)
    return dict(case, out=out)


# ----------------------------------------------------------------------------------------------------------
# judging
def _diff(a, b):
    ca, cb = collections.Counter(map(tuple, a)), collections.Counter(map(tuple, b))
    return sorted((ca - cb).elements()), sorted((cb - ca).elements())


def judge_run(tree, seed, obs, label):
    """-> (problems [(key, text)], drift [text])"""
    prob, drift = [], []
    got, want, cli = obs["got"], obs["want"], obs["cli"]
    if "raised" in got:
        return [("raises:" + got["raised"].split(":")[0], "%s: BidsDataset construction/validation raised %s" % (label, got["raised"]))], []
    ev_spec = {e["path"]: e for e in tree["events"]}
    sc_spec = {s["path"]: s for s in tree["sidecars"]}
    # 1. which files take part
    if set(got["ev"]) != set(ev_spec):
        prob.append(("discovery:data-files", "%s: events files taking part %s, specification %s"
                     % (label, sorted(got["ev"]), sorted(ev_spec))))
    if set(got["sc"]) != set(sc_spec):
        prob.append(("discovery:sidecar-files", "%s: sidecar files taking part %s, specification %s"
                     % (label, sorted(got["sc"]), sorted(sc_spec))))
    # 2. merged sidecar applied to every events file
    bad_merge = set()
    for p, e in sorted(ev_spec.items()):
        if p not in got["ev"]:
            continue
        exp = merged_dict(e["merged"], seed)
        if got["ev"][p] == exp:
            continue
        bad_merge.add(os.path.basename(p))
        deepest = merged_dict(sc_spec[e["chain"][-1]]["merged"], seed) if e["chain"] else {}
        if got["ev"][p] == deepest:
            kind = DEEPEST
        else:
            parts = []
            for c in COLS:
                g, x = got["ev"][p].get(c), exp.get(c)
                if g == x:
                    continue
                if g is None:
                    parts.append("missing")
                elif x is None:
                    parts.append("extra")
                else:
                    src = [q for q in e["chain"] if g == entry(q, c, bad=_seeded(seed, q, c))]
                    parts.append("shallower-wins" if src else "entry-from-outside-chain")
            kind = "+".join(sorted(set(parts))) or "other"
        prob.append(("merged:" + kind,
                     "%s: sidecar applied to %s has columns %s, specification: chain %s merged %s (code took it from %s)"
                     % (label, p, {c: (v.get("Description") if isinstance(v, dict) else v) for c, v in got["ev"][p].items()},
                        e["chain"], e["merged"] or {}, got["ev_from"].get(p))))
    deepest_only = bool(bad_merge) and all(k == "merged:" + DEEPEST for k, _ in prob if k.startswith("merged:"))
    # 2b. merged content of each sidecar file (spec detail: the statement speaks of data files)
    for p, s in sorted(sc_spec.items()):
        if p in got["sc"] and got["sc"][p] != merged_dict(s["merged"], seed):
            drift.append("%s: merged content of sidecar file %s differs from chain %s" % (label, p, s["chain"]))
    # 3. validate() == per-file validation of the specification's merges
    for w in sorted(got["issues"]):
        extra, missing = _diff(got["issues"][w], want["issues"][w])
        if not extra and not missing:
            continue
        files = {i[2] for i in extra + missing}
        follows = bool(bad_merge) and files <= bad_merge
        kinds = sorted({("extra:" + i[0]) for i in extra} | {("missing:" + i[0]) for i in missing})
        if follows:
            key = "validate:follows-merged" + (":" + DEEPEST if deepest_only else "")
        else:
            key = "validate:" + ",".join(kinds)[:120]
        prob.append((key, "%s: validate(check_for_warnings=%s) differs from validating each merged sidecar and each events file "
                          "with its merged sidecar: unexpected %s, missing %s" % (label, w, extra[:4], missing[:4])))
    # 4. CLI exit status
    for flags, r in sorted(cli.items()):
        w = "True" if "--check-for-warnings" in flags else "False"
        want_nonzero = bool(want["issues"][w])
        got_nonzero = r["rc"] != 0
        if "raised" in r:
            drift.append("%s: hed_validator %s raised %s" % (label, flags, r["raised"]))
        if want_nonzero != got_nonzero:
            own = bool(got["issues"][w]) if w in got["issues"] else None
            if bad_merge and (own is None or (own == got_nonzero and own != want_nonzero)):
                key = "cli:follows-merged" + (":" + DEEPEST if deepest_only else "")
            elif own is not None and own == got_nonzero and own != want_nonzero:
                key = "cli:follows-validate"
            else:
                key = "cli:exit-zero-with-issues" if want_nonzero else "cli:exit-nonzero-without-issues"
            prob.append((key, "%s: hed_validator.main(%r) returned %r, the prescribed issue list has %d entries (validate() returned %d)"
                         % (label, flags, r["rc"], len(want["issues"][w]), len(got["issues"].get(w, [])))))
    # 5. seeded error: files reported with an error == files the specification says carry the seeded entry
    if seed and seed.get("form") != "warn":
        if seed["kind"] == "sc":
            hit = lambda m: any(src == seed["path"] and _seeded(seed, src, c) for c, src in (m or {}).items())
            dirty = {os.path.basename(s["path"]) for s in tree["sidecars"] if hit(s["merged"])}
            if seed.get("form") != "deep":      # (a malformed ENTRY is the sidecar's fault only: the events file has no HED there)
                dirty |= {os.path.basename(e["path"]) for e in tree["events"] if hit(e["merged"])}
        else:
            dirty = {os.path.basename(seed["path"])}
        got_dirty = {i[2] for i in got["issues"]["False"]}
        if got_dirty != dirty:
            follows = bool(bad_merge) and (got_dirty ^ dirty) <= bad_merge
            prob.append(("seed:%s:%s" % (seed["kind"], ("follows-merged" + (":" + DEEPEST if deepest_only else "") if follows
                                                        else "files-with-errors-differ")),
                         "%s: files reported with errors %s, specification %s" % (label, sorted(got_dirty), sorted(dirty))))
    return prob, drift


def judge(case):
    prob, drift = [], []
    for label in ("clean", "seeded"):
        if label in case["out"]:
            seed = case.get("seed") if label == "seeded" else None
            p, d = judge_run(case["tree"], seed, case["out"][label], label if not seed else "seeded %s" % json.dumps(seed, sort_keys=True))
            prob += p
            drift += d
    # machinery sanity: a clean tree must be clean at error level according to the per-file validators
    if case["out"]["clean"]["want"]["issues"].get("False"):
        raise RuntimeError("concretisation is not clean: %s" % case["out"]["clean"]["want"]["issues"]["False"][:3])
    if case.get("seed") and case["seed"].get("form") == "warn":
        w = case["out"]["seeded"]["want"]["issues"]
        if w["False"] or not w["True"]:
            raise RuntimeError("warning-only seed is not warning-only for the per-file validators: %s" % w)
    elif case.get("seed") and not case["out"]["seeded"]["want"]["issues"]["False"]:
        raise RuntimeError("seeded error is not reported by the per-file validators: %s" % case["seed"])
    return prob, drift


# ----------------------------------------------------------------------------------------------------------
def _init():
    if "schema" not in _G:
        from hed import load_schema_version
        import hed.tools.bids.bids_dataset  # noqa
        import hed.scripts.hed_validator  # noqa
        _G["schema"] = load_schema_version(SCHEMA_VERSION)


def _tree_key(t):
    return json.dumps([t["shape"], sorted(t["decoy"]), sorted((s["path"], sorted(s["cols"])) for s in t["sidecars"])], sort_keys=True)


class _TlcJobs:
    """Run several TLC jobs concurrently (independent processes) and book them the way Ctx.tlc does.
    job: dict(module, cfg, label, expect (None = must pass, or the name of the invariant that must be violated), **tlc.run kwargs)"""

    def __init__(self, ctx, jobs):
        import concurrent.futures as cf
        self.ctx, self.jobs = ctx, jobs
        self.ex = cf.ThreadPoolExecutor(len(jobs))
        self.futs = [self.ex.submit(self._one, i, j) for i, j in enumerate(jobs)]
        self.booked = set()

    def _one(self, i, job):
        kw = {k: v for k, v in job.items() if k not in ("module", "cfg", "label", "expect")}
        kw["workdir"] = os.path.join(self.ctx.work, "tlc%d" % i)
        return tlc.run(job["module"], job["cfg"], **kw)

    def result(self, i):
        """wait for job i, book it, check its verdict"""
        ctx, job = self.ctx, self.jobs[i]
        r = self.futs[i].result()
        if i in self.booked:
            return r
        self.booked.add(i)
        ctx.states += r.distinct
        ctx.transitions += r.generated
        ctx.tlc_runs.append(dict(r.as_dict(), module=job["module"], cfg=job["cfg"], label=job["label"], violated=r.violated))
        for a, (d, t) in r.coverage.items():
            od, ot = ctx.actions.get(a, (0, 0))
            ctx.actions[a] = (od + d, ot + t)
        if job.get("expect") is None and r.violated:
            raise tlc.TLCFailure("model %s/%s violates %s\n%s" % (job["module"], job["cfg"], r.violated,
                                                                  "\n".join(x + "\n" + y for x, y in r.trace[-3:])))
        if job.get("expect") is not None and r.violated != job["expect"]:
            raise tlc.TLCFailure("sensitivity run %s: expected %s to be violated, got %r" % (job["cfg"], job["expect"], r.violated))
        return r

    def finish(self):
        try:
            for i in range(len(self.jobs)):
                self.result(i)
        finally:
            self.ex.shutdown(wait=True)


SENS = [("MC_Bids_shallow.cfg", "MergedIsTopDown", "shallower sidecar wins"),
        ("MC_Bids_nobids.cfg", "Deterministic", "generator without the BIDS rule"),
        ("MC_Bids_noexcl.cfg", "ExcludedIgnored", "no excluded directories configured"),
        ("MC_Bids_deepest.cfg", "DeepestSuffices", "merged content of the deepest sidecar FILE instead of the data file's own chain"),
        ("MC_Bids_vac_override.cfg", "NeverOverrides", "vacuity guard: an override happens"),
        ("MC_Bids_vac_three.cfg", "NeverThreeLevels", "vacuity guard: a three-level chain exists")]


def run(ctx):
    quick = ctx.quick
    ctx.rule = ("cases = dataset trees of Bids.tla: shape (1-2 subjects x 0-2 sessions x 1-2 tasks x 1-2 runs) + a set of sidecars, "
                "each at any level of the path of some events file with any subset of its entities and any non-empty subset of "
                "2 column keys, BIDS rule 'at most one applicable sidecar per directory' kept, decoys in excluded directories / "
                "with another suffix; exhaustive for the smallest shapes (<= 2 sidecars), TLC -simulate over all shapes (<= 4 sidecars); "
                "each tree replayed clean and with one seeded error; distinct = distinct (shape, decoys, sidecar set); "
                "non-trivial = some events file inherits from >= 2 sidecars")
    jobs = []
    if quick:
        jobs.append(dict(module="MC_Bids", cfg="MC_Bids.cfg", workers=8, coverage=True, timeout=600, expect=None,
                         label="design: fold == deepest-defining, chain exact, deterministic, decoys ignored "
                               "(1 sub x 1 ses x 2 tasks, <= 2 sidecars, no/all decoys)"))
    else:
        jobs.append(dict(module="MC_Bids", cfg="MC_Bids_thorough.cfg", workers=10, coverage=True, timeout=2400, expect=None,
                         label="design: all invariants, all shapes with <= 2 events files, <= 2 sidecars, no/all decoys"))
        jobs.append(dict(module="MC_Bids", cfg="MC_Bids_three.cfg", workers=4, coverage=True, timeout=2400, expect=None,
                         label="design: all invariants, 1 sub x 1 ses x 1 task x 1 run, <= 3 sidecars (three-level chains)"))
    for cfg, inv, what in SENS:
        jobs.append(dict(module="MC_Bids", cfg=cfg, workers=1, timeout=600, expect=inv, label="sensitivity: " + what))
    jobs.append(dict(module="MC_Bids", cfg="MC_Bids_guard.cfg", workers=2, timeout=600, expect=None,
                     label="generator guard <=> at most one applicable sidecar per directory (ENFORCE_BIDS = FALSE)"))
    jobs.append(dict(module="MC_Bids", cfg="MC_Bids_gen.cfg" if quick else "MC_Bids_gen_thorough.cfg", workers=1, timeout=2400,
                     expect=None, label="tree generation (exhaustive) with expected chains and merges"))
    jobs.append(dict(module="MC_Bids", cfg="MC_Bids_sim.cfg", workers=1, mode="simulate",
                     simulate="num=%d" % (160 if quick else 2500), depth=5, seed=ctx.seed + 16, timeout=2400, expect=None,
                     extra=["-generate"],     # random behaviours, invariants (Emit) evaluated on the behaviour's states only
                     label="tree generation (simulate, all shapes, <= 4 sidecars)"))
    tj = _TlcJobs(ctx, jobs)       # design / sensitivity runs keep running while the generated trees are replayed
    try:
        _run_replay(ctx, tj, len(jobs) - 2, len(jobs) - 1)
    finally:
        tj.finish()
    ctx.note("sensitivity_runs", [s[0] for s in SENS])


def _run_replay(ctx, tj, i_gen, i_sim):
    trees = {}
    for j in tj.result(i_gen).json_lines:
        trees.setdefault(_tree_key(j), j)
    n_exh = len(trees)
    for j in tj.result(i_sim).json_lines:
        if j["nsc"] >= 2:
            trees.setdefault(_tree_key(j), j)
    ctx.exhaustive = True
    ctx.note("trees_exhaustive", n_exh)
    ctx.note("trees_total", len(trees))
    # ---- replay ------------------------------------------------------------------------------------------
    _init()
    _G["work"] = ctx.work
    cases = []
    for n, k in enumerate(sorted(trees)):
        t = trees[k]
        rng = random.Random("%d/%s" % (ctx.seed, k))
        cases.append({"n": n, "tree": t, "seed": pick_seed(t, rng), "plan": plan(n)})
    with mp.get_context("fork").Pool(15) as pool:
        done = pool.map(execute, cases, chunksize=8)
    ndrift = 0
    drift_ex = []
    stats = collections.Counter()
    for c in done:
        t = c["tree"]
        maxchain = max(len(e["chain"]) for e in t["events"])
        ctx.case(_tree_key(t), nontrivial=maxchain >= 2)
        ctx.traces += 1
        stats["max_chain_%d" % maxchain] += 1
        stats["seed_" + c["seed"]["kind"]] += 1
        bysc = {s["path"]: s for s in t["sidecars"]}
        if any(e["chain"] and e["merged"] != bysc[e["chain"][-1]]["merged"] for e in t["events"]):
            stats["trees_where_deepest_sidecar_own_chain_differs"] += 1
        prob, drift = judge(c)
        if drift:
            ndrift += 1
            if len(drift_ex) < 5 and drift[0] not in drift_ex:
                drift_ex.append(drift[0])
        for key, text in prob:
            ctx.violation(key, text + " | tree: shape=%s decoy=%s sidecars=%s"
                          % (t["shape"], t["decoy"], sorted((s["path"], s["cols"]) for s in t["sidecars"])),
                          {"tree": t, "seed": c["seed"], "plan": c["plan"], "key": key})
            stats["problem:" + key] += 1
    ctx.note("spec_drift", ndrift)
    ctx.note("spec_drift_examples", drift_ex)
    ctx.note("replay_stats", dict(stats))
    for c in done[:2] + done[len(done) // 2: len(done) // 2 + 2]:
        t = c["tree"]
        ctx.sample({"shape": t["shape"], "decoy": t["decoy"], "sidecars": sorted(s["path"] for s in t["sidecars"]),
                    "events": [{"path": e["path"], "chain": e["chain"], "merged": e["merged"]} for e in t["events"][:2]],
                    "seed": c["seed"], "issues_seeded": len(c["out"]["seeded"]["got"].get("issues", {}).get("False", []))})
    ctx.assumptions += [
        "'each merged sidecar' = one per sidecar file of the group: that file merged with the sidecars applicable to it (root -> its own directory)",
        "issues are compared as multisets of (code, severity, file name, row, column, sidecar column, sidecar key, HED string)",
        "excluded directories are BidsDataset's default exclude_dirs; decoys sit in derivatives/ or code/ at the dataset root",
        "the CLI reads the schema version from dataset_description.json (HEDVersion 8.3.0); BidsDataset gets the same schema explicitly",
        "an uncaught exception in hed_validator.main() counts as a non-zero exit (recorded as drift)"]


def replay(obj):
    _init()
    work = os.path.join(tlc.VERIF, ".work", "C16-replay")
    os.makedirs(work, exist_ok=True)
    _G["work"] = work
    try:
        c = execute({"n": 0, "tree": obj["tree"], "seed": obj.get("seed"), "plan": obj.get("plan") or plan(3)})
        prob, _ = judge(c)
    finally:
        shutil.rmtree(work, ignore_errors=True)
    same = [p for p in prob if p[0] == obj.get("key")] or prob
    return (not prob), ("; ".join("%s: %s" % p for p in same[:3]) or "agrees with the specification")
