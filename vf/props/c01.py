"""C01 — string validation verdict agrees with the HED rules.

TLC: specs/HedRules.tla enumerates EVERY abstract annotation tree up to MaxN nodes over 10 tag kinds
(x text damage), and computes the set of rule instances each one violates.  Binding A: every tree is
concretised for every bundled schema with tags / values / flaws drawn by rotation over the whole
vocabulary (independent XML reader) and validated by the real HedString.validate, with and without
placeholders allowed:  no violated rule => no error-severity issue;  exactly one violated rule
instance => its HED-specification code is among the reported errors.
"""
import json
import multiprocessing as mp
import os

from .. import facts, hedgen, tlc

_G = {}


def _schema(version):
    if version not in _G:
        from hed import load_schema_version
        from hed.models.definition_dict import DefinitionDict
        s = load_schema_version(version)
        vocab = hedgen.Vocab(version)
        _G[version] = (s, DefinitionDict(vocab.defs, s), vocab)
    return _G[version]


def expected_codes(case, flaw):
    """codes demanded by the spec for this case; BASIC is instantiated by the concrete flaw drawn."""
    return sorted({(flaw[1] if c == "BASIC" and flaw else c) for c in case["codes"]})


def run_chunk(args):
    version, cases, base_rot, allow_ph = args
    from hed import HedString
    from hed.validator import HedValidator
    schema, dd, vocab = _schema(version)
    shared = HedValidator(schema, def_dicts=dd)      # ONE validator object for the whole chunk: the verdict must not depend on
    out = []                                          # what the validator has seen before
    for ci, case in cases:
        if not vocab.usable(case):
            out.append((ci, None))
            continue
        rot = base_rot + ci * 17
        text, flaw = hedgen.render(case, vocab, rot, allow_ph=allow_ph, style=ci % 4)
        try:
            issues = HedString(text, schema, dd).validate(allow_placeholders=allow_ph)
            errs = sorted({i["code"] for i in issues if i.get("severity", 1) == 1})
            res = {"text": text, "flaw": flaw, "errs": errs}
            i2 = shared.validate(HedString(text, schema, dd), allow_placeholders=allow_ph)
            res["errs_shared"] = sorted({i["code"] for i in i2 if i.get("severity", 1) == 1})
            out.append((ci, res))
        except Exception as ex:  # noqa
            out.append((ci, {"text": text, "flaw": flaw, "raised": "%s: %s" % (type(ex).__name__, ex)}))
    return version, allow_ph, out


def run(ctx):
    quick = ctx.quick
    ctx.rule = ("cases = every abstract annotation tree of HedRules.tla with <= MaxN nodes (groups + 10 tag kinds: two plain "
                "tags, value tag, per-tag rule breaker, Def use, Onset/Inset, Offset, Duration, Delay, unique tag) x text damage "
                "(none, unbalanced, empty element, missing comma), concretised per bundled schema by rotation over all plain "
                "tags x spellings, all value-taking tags, 12 per-tag flaw kinds; validated with placeholders disallowed and "
                "allowed; distinct = (tree, schema, placeholder mode); non-trivial = the tree violates at least one rule")
    ctx.tlc("MC_HedRules", "MC_HedRules.cfg", workers=16, label="model: rule set on all trees <= 4 nodes (RepeatFound, GrammarSound)",
            timeout=1800)
    gen = "MC_HedRules_gen.cfg" if quick else ctx.cfg("MC_HedRules_gen.cfg", ("MaxN = 3", "MaxN = 4"))
    r = ctx.tlc("MC_HedRules", gen, workers=1, label="tree enumeration with verdicts", timeout=3000, heap="8g")
    cases = r.json_lines
    ctx.exhaustive = True
    # deep trees (up to 6 nodes) over the structural kinds, sampled by TLC simulation of the growth grammar
    rs = ctx.tlc("MC_HedRules", "MC_HedRules_sim.cfg", workers=1, mode="simulate", simulate="num=%d" % (3000 if quick else 40000),
                 depth=7, seed=ctx.seed + 11, label="deep trees (simulate, <= 6 nodes, clean or single violation)", timeout=3000)
    seen = set()
    for j in rs.json_lines:
        k = json.dumps([j["par"], j["kind"]])
        if k not in seen:
            seen.add(k)
            cases.append(j)
    ctx.note("deep_trees_sampled", len(seen))
    # the neighbourhood of rule-conforming constructs: every tree within <= 2 grammar steps (add a node, copy a sub-tree
    # next to itself or into another group, add a flattened copy) of 8 valid base constructs - exhaustive
    rn = ctx.tlc("MC_HedRules", "MC_HedRules_near.cfg", workers=1, label="neighbourhood of valid constructs (<= 2 steps, exhaustive)", timeout=3000)
    nn = 0
    for j in rn.json_lines:
        k = json.dumps([j["par"], j["kind"]])
        if k not in seen and j["nviol"] <= 1:
            seen.add(k)
            cases.append(j)
            nn += 1
    ctx.note("neighbourhood_trees", nn)
    rc = ctx.tlc("MC_HedRules", "MC_HedRules_conf.cfg", workers=1, label="one step from sibling groups holding the same tags in different "
                 "nesting", timeout=3000)
    for j in rc.json_lines:
        k = json.dumps([j["par"], j["kind"]])
        if k not in seen and j["nviol"] <= 1:
            seen.add(k)
            cases.append(j)
    rt = ctx.tlc("MC_HedRules", "MC_HedRules_tl.cfg", workers=1, label="<= 2 steps from the Delay / Duration constructs, second tags "
                 "of the same name with another value", timeout=3000)
    ntl = 0
    for j in rt.json_lines:
        k = json.dumps([j["par"], j["kind"]])
        if k not in seen and j["nviol"] <= 1:
            seen.add(k)
            cases.append(j)
            ntl += 1
    ctx.note("delay_duration_neighbourhood_trees", ntl)
    rx = ctx.tlc("MC_HedRules", "MC_HedRules_dex.cfg", workers=1, label="one definition as Def tag and as Def-expand group in one annotation", timeout=3000)
    ndx = 0
    for j in rx.json_lines:
        k = json.dumps([j["par"], j["kind"]])
        if k not in seen and j["nviol"] <= 1 and "dex" in j["kind"] and "def" in j["kind"]:
            seen.add(k)
            cases.append(j)
            ndx += 1
    ctx.note("def_and_def_expand_trees", ndx)
    versions = [v for v, _ in facts.bundled()]
    jobs = []
    CH = 2000
    for vi, v in enumerate(versions):
        for allow_ph in (False, True):
            # in quick every tree is validated against every schema, one placeholder mode alternating per tree
            sel = [(ci, c) for ci, c in enumerate(cases) if (not quick) or ((ci + vi + ctx.seed) % 2 == int(allow_ph))]
            for b in range(0, len(sel), CH):
                jobs.append((v, sel[b:b + CH], ctx.seed * 101 + vi * 7, allow_ph))
    with mp.get_context("fork").Pool(14) as pool:
        results = pool.map(run_chunk, jobs, chunksize=1)
    used = {}
    drift = 0
    for version, allow_ph, out in results:
        for ci, res in out:
            case = cases[ci]
            if res is None:
                continue
            key = "%d|%s|%s" % (ci, version, allow_ph)
            ctx.case(key, nontrivial=case["nviol"] > 0)
            ctx.traces += 1
            used[version] = used.get(version, 0) + 1
            rep = {"version": version, "allow_ph": allow_ph, "text": res["text"], "case": case, "flaw": res.get("flaw")}
            if "raised" in res:
                ctx.violation("raises", "schema %s: validating %r raised %s" % (version, res["text"], res["raised"]), rep)
                continue
            want = expected_codes(case, res["flaw"])
            for how, errs in (("", res["errs"]), (" by a validator object that validated other annotations before", res.get("errs_shared"))):
                if errs is None:
                    continue
                if how:
                    ctx.evaluations += 1
                if case["nviol"] == 0:
                    if errs:
                        ctx.violation("valid-rejected:" + ",".join(errs),
                                      "schema %s (placeholders %s): rule-conforming annotation %r reported %s%s"
                                      % (version, "allowed" if allow_ph else "not allowed", res["text"], errs, how), rep)
                elif case["nviol"] == 1:
                    miss = [c for c in want if c not in errs]
                    if miss:
                        what = res["flaw"][0] if (res["flaw"] and "BASIC" in case["codes"]) else want[0]
                        ctx.violation("violation-missed:%s" % what,
                                      "schema %s (placeholders %s): %r breaks exactly one rule (%s) but validation%s reported %s, "
                                      "expected %s" % (version, "allowed" if allow_ph else "not allowed", res["text"], what, how,
                                                       errs, want), rep)
                elif errs != want and not how:
                    drift += 1
    # directed family: under schemas that do NOT mark Duration / Delay as top-level-group tags (8.0.0, 8.1.0 and libraries partnered
    # with them) the two are ordinary value tags: grouped or not, with any companions, they are rule-conforming constructs
    from hed import HedString as _HS
    nold = 0
    for v in versions:
        schema, dd, vocab = _schema(v)
        if not getattr(vocab, "plain_duration_delay", False):
            continue
        p1 = vocab.form(vocab.plain[(ctx.seed * 7 + 3) % len(vocab.plain)], ctx.seed)
        p2 = vocab.form(vocab.plain[(ctx.seed * 11 + 5) % len(vocab.plain)], ctx.seed + 1)
        for text in ["(Duration/3 s, (%s))" % p1, "(Delay/3 s, (%s))" % p1, "(Duration/3 s, %s)" % p1, "Duration/3 s, %s" % p2,
                     "(Delay/2 s, %s, %s)" % (p1, p2), "(Delay/1 s, Duration/3 s, (%s))" % p2, "((Duration/2.5 s, %s), %s)" % (p1, p2)]:
            for allow_ph in (False, True):
                ctx.case("old-schema-duration|%s|%s|%s" % (v, text, allow_ph), nontrivial=False)
                nold += 1
                try:
                    errs = sorted({i["code"] for i in _HS(text, schema, dd).validate(allow_placeholders=allow_ph) if i.get("severity", 1) == 1})
                except Exception as ex:  # noqa
                    errs = ["<raised %s>" % type(ex).__name__]
                if errs:
                    ctx.violation("valid-rejected:" + ",".join(errs),
                                  "schema %s (Duration and Delay are ordinary value tags there): rule-conforming annotation %r reported %s"
                                  % (v, text, errs), {"version": v, "allow_ph": allow_ph, "text": text,
                                                      "case": {"nviol": 0, "par": [], "kind": [], "sflaw": "none", "codes": []}, "flaw": None})
    ctx.note("old_schema_duration_delay_annotations", nold)
    ctx.note("multi_violation_cases_with_different_code_sets", drift)
    ctx.note("validations_per_schema", used)
    ctx.note("trees", len(cases))
    ctx.note("trees_by_number_of_violations", {str(k): sum(1 for c in cases if c["nviol"] == k) for k in range(0, 9)})
    for version, allow_ph, out in results[:3]:
        for ci, res in out[40:42]:
            if res:
                ctx.sample({"schema": version, "tree": {"par": cases[ci]["par"], "kind": cases[ci]["kind"], "sflaw": cases[ci]["sflaw"]},
                            "text": res["text"], "spec_codes": cases[ci]["codes"], "reported_errors": res.get("errs")})
    ctx.assumptions += ["Definition groups are not part of the string-level grammar (HedString.validate disallows them); "
                        "definitions are supplied through a DefinitionDict", "Duration/Delay kinds only for schemas that mark "
                        "them topLevelTagGroup (8.2.0 and later)", "multi-violation trees are compared for information only "
                        "(the statement fixes clean and single-violation annotations)"]


def replay(obj):
    from hed import HedString
    schema, dd, vocab = _schema(obj["version"])
    try:
        issues = HedString(obj["text"], schema, dd).validate(allow_placeholders=obj["allow_ph"])
    except Exception as ex:  # noqa
        return False, "raised %s: %s" % (type(ex).__name__, ex)
    errs = sorted({i["code"] for i in issues if i.get("severity", 1) == 1})
    case = obj["case"]
    want = expected_codes(case, obj.get("flaw"))
    if case["nviol"] == 0:
        return (not errs), "reported %s for a rule-conforming annotation" % errs
    if case["nviol"] == 1:
        miss = [c for c in want if c not in errs]
        return (not miss), "reported %s, expected %s" % (errs, want)
    return True, "multi-violation case (information only): %s vs %s" % (errs, want)
