"""C03 — every spelling of a schema tag resolves to the same node and canonical forms.

TLC: specs/SchemaTree.tla (model mode: walk == declarative resolution, all forms resolve, long/short
inverse and idempotent, for ALL labelled trees up to MaxN nodes); Trace_SchemaTree: the real tree of
each bundled schema (read from XML by vf/facts.py) is handed to TLC, which verifies the suffix-form
table against the tree and then validates every lookup answered by the real code.
"""
import hashlib
import json
import multiprocessing as mp
import os
import re

from .. import facts, tlc

_G = {}


def tree_of(f):
    """Arrays for TLC from independent facts: par, name(folded), disp, tv; plus the suffix-form table."""
    idx, par, name, disp, tv = {}, [], [], [], []
    for t in f.tags:
        if t["placeholder"]:
            continue
        idx[t["long"]] = len(par) + 1
        par.append(idx[t["parent"]] if t["parent"] else 0)
        name.append(t["name"].casefold())
        disp.append(t["name"])
        tv.append(bool(t["has_value_child"]))
    table = {}
    dup = set()
    for t in f.tags:
        if t["placeholder"]:
            continue
        parts = t["long"].casefold().split("/")
        for i in range(len(parts)):
            k = "/".join(parts[i:])
            if k in table and table[k] != idx[t["long"]]:
                dup.add(k)
            table[k] = idx[t["long"]]
    return {"par": par, "name": name, "disp": disp, "tv": tv, "table": table}, idx, dup


def esc(x):
    """ASCII image of a text for TLC (its strings are Latin-1): a homomorphism for concatenation and equality"""
    if isinstance(x, str):
        return "".join(c if ord(c) < 128 else "{u%04x}" % ord(c) for c in x)
    if isinstance(x, list):
        return [esc(y) for y in x]
    if isinstance(x, dict):
        return {k: esc(v) for k, v in x.items()}
    return x


def _variants(s, j):
    return [s, s.lower(), s.upper(), s.swapcase()][j % 4]


def make_events(f, idx, ns, quick, seed, budget, only=None):
    """(text, ns, okns, raw terms) for every tag x suffix spelling x case x remainder (sampled in quick)."""
    evs = []
    ext_ok = lambda t: "extensionAllowed" in t["inh"]
    names = [t["name"] for t in f.real_tags()]
    n = 0
    for t in f.real_tags():
        if only and not only(t):
            continue
        forms = f.suffix_forms(t)
        for fi, form in enumerate(forms):
            rems = [""]
            if t["has_value_child"]:
                rems += ["/5", "/Abc def", "/3 m-per-s^2", "/Cafe\u0301 5 \u212b",          # not in Unicode normal form C
                         "/" + t["name"], "/" + t["name"].lower() + "/x",                  # a value that spells the tag's own name
                         "/Stra\u00dfe \ufb01n \u0130x",          # letters whose case-folded form is LONGER (ss, fi, i + dot)
                         "/12:30/late", "/See http://example.org/p"]      # a colon in the value, a slash after it (no namespace)
            else:
                rems += ["/Extx", "/Extx/Exty", "/" + names[(n * 7 + fi) % len(names)], "/Re\u0301sume\u0301-\u2126", "/Gr\u00f6\u00dfe-\ufb01x"]
            for ri, rem in enumerate(rems):
                for ci in range(4):
                    n += 1
                    # spellings whose first term also ENDS the name of one of the node's ancestors ("Temporal-value/..." below
                    # "Spatiotemporal-value") are always kept: the class named in the property's rationale
                    special = fi > 0 and any(a.casefold().endswith(form.split("/")[0].casefold()) and a.casefold() != form.split("/")[0].casefold()
                                             for a in t["long"].split("/")[:-1])
                    if quick and not special:
                        h = int(hashlib.sha1(("%s|%s|%d|%d|%d" % (f.version, t["long"], fi, ri, ci)).encode()).hexdigest()[:8], 16)
                        if (h + seed) % budget:
                            continue
                    body = _variants(form + rem, ci)       # the remainder changes letter case with the rest: it must be kept verbatim each time
                    evs.append({"text": ns + body, "ns": ns, "okns": True, "raw": body.split("/")})
    # namespace faults
    if ns:
        for t in f.real_tags()[:: max(1, len(f.real_tags()) // 40)]:
            evs.append({"text": t["name"], "ns": "", "okns": False, "raw": [t["name"]]})
            evs.append({"text": "zz:" + t["name"], "ns": "zz:", "okns": False, "raw": [t["name"]]})
    # non-tags
    for w in ["Blahblah", "Blahblah/Red", "Redd", "Re d"]:
        evs.append({"text": ns + w, "ns": ns, "okns": True, "raw": w.split("/")})
    return evs


def observe(args):
    """Ask the real code (in a worker): returns obs per event."""
    version, ns, evs = args
    from hed import load_schema_version, HedTag
    from hed.models import df_util
    import pandas as pd
    key = (ns + version)
    if key not in _G:
        _G[key] = load_schema_version(key)
    schema = _G[key]
    return observe_with(schema, evs)


def observe_with(schema, evs):
    from hed import HedTag
    from hed.models import df_util
    import pandas as pd
    out = []
    texts = [e["text"] for e in evs]
    labels = list(range(len(texts)))[::-1] if len(texts) % 2 else [2 * k + 7 for k in range(len(texts))]
    dfl = pd.DataFrame({"c": list(texts)}, index=labels)      # row labels that are NOT 0..n-1 (reordered / filtered frames)
    dfs = pd.DataFrame({"c": list(texts)}, index=labels)
    try:
        df_util.convert_to_form(dfl, schema, "long_tag", ["c"])
        df_util.convert_to_form(dfs, schema, "short_tag", ["c"])
        bl, bs = list(dfl["c"]), list(dfs["c"])
    except Exception as ex:  # noqa
        bl = bs = ["<raised %s>" % type(ex).__name__] * len(texts)
    for e, l_, s_ in zip(evs, bl, bs):
        try:
            h = HedTag(e["text"], schema)
            found = bool(h.tag_exists_in_schema())
            o = {"found": found}
            if found:
                sh, lo = h.short_tag, h.long_tag
                hs, hl = HedTag(sh, schema), HedTag(lo, schema)
                o.update(short=sh, long=lo, ext=h.extension, sbase=h.short_base_tag, base=h.base_tag,
                         ls=hs.long_tag, sl=hl.short_tag, ll=hl.long_tag, ss=hs.short_tag, dfl=l_, dfs=s_)
            else:
                o.update(short="", long="", ext="", sbase="", base="", ls="", sl="", ll="", ss="", dfl="", dfs="")
        except Exception as ex:  # noqa
            o = {"found": False, "raised": "%s: %s" % (type(ex).__name__, ex), "short": "", "long": "", "ext": "",
                 "sbase": "", "base": "", "ls": "", "sl": "", "ll": "", "ss": "", "dfl": "", "dfs": ""}
        out.append(o)
    return out


def validate_schema(args):
    """One TLC trace-validation run for one schema (runs in a worker process)."""
    version, ns, quick, seed, budget, work = args
    f = facts.load(version)
    tree, idx, dup = tree_of(f)
    evs = make_events(f, idx, ns, quick, seed, budget)
    obs = observe((version, ns, evs))
    events = []
    for e, o in zip(evs, obs):
        events.append({"ns": e["ns"], "okns": e["okns"], "raw": esc(e["raw"]), "folded": esc([x.casefold() for x in e["raw"]]), "obs": esc(o)})
    path = os.path.join(work, "tree_%s_%s.json" % (version, ns.strip(":") or "plain"))
    with open(path, "w") as fh:
        json.dump(dict(tree, events=events), fh)
    r = tlc.run("Trace_SchemaTree", "Trace_SchemaTree.cfg", workers=1, env={"TRACE_FILE": path}, timeout=3000,
                workdir=work, heap="3g")
    rej = [(int(m.group(1)), m.group(2)) for m in re.finditer(r'<<"REJECT", (\d+), "([\w-]+)">>', r.stdout)]
    checked = re.search(r'<<"CHECKED", (\d+)>>', r.stdout)
    return {"version": version, "ns": ns, "n": len(events), "checked": int(checked.group(1)) if checked else -1,
            "table_bad": "TABLE-BAD" in r.stdout, "rej": [(i, why, evs[i - 1], obs[i - 1]) for i, why in rej[:50]],
            "nrej": len(rej), "states": r.distinct, "transitions": r.generated, "wall": r.wall,
            "raised": [(e["text"], o["raised"]) for e, o in zip(evs, obs) if "raised" in o][:5],
            "dup": sorted(dup)[:5], "nodes": len(tree["par"]), "forms": len(tree["table"]),
            "sample": [{"text": evs[k]["text"], "obs": obs[k]} for k in (0, len(evs) // 2)]}


GEN_PARTNER = "8.3.0"


def generated_text(shapes):
    """One library schema (MediaWiki, partnered with a bundled standard schema) holding one tree per shape TLC emitted;
    tv[k] gives node k a '#' child - also when it has named children (the loaders accept that)."""
    lines = ['HED version="1.0.0" library="genlib" withStandard="%s" unmerged="True"' % GEN_PARTNER, "", "'''Prologue'''",
             "Generated for the lookup check.", "", "!# start schema", ""]
    for i, sh in enumerate(shapes):
        par, tv = sh["par"], sh["tv"]
        nm = lambda k: "Gq%dx%d" % (i, k) if (i + k) % 3 else "Gq%dx%d-more" % (i, k)      # some names extend another name's text

        def emit(k, depth):
            star = "*" * depth
            lines.append(("'''%s'''" % nm(k)) if depth == 0 else "%s %s" % (star, nm(k)))
            if tv[k - 1]:
                lines.append("%s* # <nowiki>{takesValue}</nowiki>" % star)
            for c in range(1, len(par) + 1):
                if par[c - 1] == k:
                    emit(c, depth + 1)
        for k in range(1, len(par) + 1):
            if par[k - 1] == 0:
                emit(k, 0)
                lines.append("")
    lines += ["!# end schema", "", "'''Unit classes'''", "", "'''Unit modifiers'''", "", "'''Value classes'''", "",
              "'''Schema attributes'''", "", "'''Properties'''", "'''Epilogue'''", "", "!# end hed", ""]
    return "\n".join(lines)


def validate_generated(args):
    """Lookups in a GENERATED schema: built from TLC's shapes, loaded with from_string, its tree read back from the saved
    XML by vf/facts.py, every spelling of every generated node judged by TLC like those of the bundled schemas."""
    shapes, quick, seed, work = args
    from hed.schema import from_string
    text = generated_text(shapes)
    try:
        schema = from_string(text, schema_format=".mediawiki", name="c03-generated")
        xml = os.path.join(work, "generated_schema.xml")
        schema.save_as_xml(xml, save_merged=True)
    except Exception as ex:  # noqa
        return {"version": "generated", "ns": "", "n": 0, "checked": 0, "table_bad": False, "rej": [], "nrej": 0, "states": 0,
                "transitions": 0, "wall": 0, "raised": [], "dup": [], "nodes": 0, "forms": 0, "sample": [None, None],
                "vehicle": "%s: %s" % (type(ex).__name__, str(ex)[:200])}
    f = facts.Facts(xml)
    tree, idx, dup = tree_of(f)
    evs = make_events(f, idx, "", False, seed, 1, only=lambda t: t["name"].startswith("Gq"))
    obs = observe_with(schema, evs)
    events = [{"ns": e["ns"], "okns": e["okns"], "raw": esc(e["raw"]), "folded": esc([x.casefold() for x in e["raw"]]), "obs": esc(o)}
              for e, o in zip(evs, obs)]
    path = os.path.join(work, "tree_generated.json")
    with open(path, "w") as fh:
        json.dump(dict(tree, events=events), fh)
    r = tlc.run("Trace_SchemaTree", "Trace_SchemaTree.cfg", workers=1, env={"TRACE_FILE": path}, timeout=3000, workdir=work, heap="3g")
    rej = [(int(m.group(1)), m.group(2)) for m in re.finditer(r'<<"REJECT", (\d+), "([\w-]+)">>', r.stdout)]
    checked = re.search(r'<<"CHECKED", (\d+)>>', r.stdout)
    return {"version": "generated", "ns": "", "n": len(events), "checked": int(checked.group(1)) if checked else -1,
            "table_bad": "TABLE-BAD" in r.stdout, "rej": [(i, why, evs[i - 1], obs[i - 1]) for i, why in rej[:50]],
            "nrej": len(rej), "states": r.distinct, "transitions": r.generated, "wall": r.wall,
            "raised": [(e["text"], o["raised"]) for e, o in zip(evs, obs) if "raised" in o][:5],
            "dup": sorted(dup)[:5], "nodes": len(tree["par"]), "forms": len(tree["table"]), "text": text,
            "sample": [{"text": evs[k]["text"], "obs": obs[k]} for k in (0, len(evs) // 2)]}


def run(ctx):
    quick = ctx.quick
    ctx.rule = ("cases = lookups: every tag of a bundled schema x every suffix-path spelling x 4 letter-case variants x "
                "{no remainder, value(s) | extension(s), extension colliding with a schema term} x namespace prefix "
                "(quick: hashed 1/k sample rotating with the seed; thorough: all), plus wrong/missing namespace and "
                "non-tags; distinct = distinct tag text; non-trivial = all")
    import shutil
    cfg = ctx.cfg("MC_SchemaTree.cfg", ("MaxN = 4", "MaxN = 3")) if quick else "MC_SchemaTree.cfg"
    ctx.tlc("MC_SchemaTree", cfg, workers=16, label="model: all labelled trees <= %d nodes, all spellings <= 3 terms" % (3 if quick else 4),
            timeout=1800)
    versions = [v for v, _ in facts.bundled()]
    if quick:
        plan = [("8.3.0", "", 12), ("score_2.0.0", "sc:", 25), ("testlib_3.0.0", "", 14), ("8.0.0", "tl:", 14)]
    else:
        plan = [(v, "", 1) for v in versions] + [("8.3.0", "tl:", 1), ("score_1.1.0", "sc:", 1), ("testlib_2.0.0", "ab:", 1)]
    jobs = [(v, ns, quick, ctx.seed, b, ctx.work) for v, ns, b in plan]
    # generated schemas: one tree per shape of the model (value-taking nodes with named children included)
    gcfg = "MC_SchemaTree_gen.cfg" if quick else ctx.cfg("MC_SchemaTree_gen.cfg", ("MaxN = 3", "MaxN = 4"), ("Names3", "NamesDef"), ("Words3", "WordsDef"))
    rg = ctx.tlc("MC_SchemaTree", gcfg, workers=1, label="shapes of generated schemas (every labelled tree, value-taking nodes anywhere)", timeout=1800)
    shapes, seen = [], set()
    for j in rg.json_lines:
        k = (tuple(j["par"]), tuple(j["tv"]))
        if k not in seen:
            seen.add(k)
            shapes.append({"par": j["par"], "tv": j["tv"]})
    ctx.note("generated_schema_shapes", len(shapes))
    with mp.get_context("fork").Pool(min(14, len(jobs) + 1)) as pool:
        rgen = pool.apply_async(validate_generated, ((shapes, quick, ctx.seed, ctx.work),))
        results = pool.map(validate_schema, jobs, chunksize=1)
        gres = rgen.get()
    if gres.get("vehicle"):
        raise tlc.TLCFailure("the generated schema does not load: %s" % gres["vehicle"])
    results.append(gres)
    for res in results:
        ctx.states += res["states"]
        ctx.transitions += res["transitions"]
        ctx.tlc_runs.append({"module": "Trace_SchemaTree", "label": "lookups %s%s" % (res["ns"], res["version"]),
                             "states": res["states"], "transitions": res["transitions"], "wall_s": round(res["wall"], 1)})
        if res["checked"] != res["n"]:
            raise tlc.TLCFailure("Trace_SchemaTree consumed %s of %s events for %s" % (res["checked"], res["n"], res["version"]))
        if res["table_bad"]:
            raise tlc.TLCFailure("suffix-form table does not match the tree for %s" % res["version"])
        ctx.traces += res["n"]
        ctx.case("%s|%s" % (res["version"], res["ns"]), n=res["n"])
        ctx.nontrivial.update("%s|%s|%d" % (res["version"], res["ns"], k) for k in range(res["n"]))
        for text, exc in res["raised"]:
            ctx.violation("raises", "HedTag(%r) with schema %s%s raised %s" % (text, res["ns"], res["version"], exc),
                          {"version": res["version"], "ns": res["ns"], "text": text})
        for i, why, e, o in res["rej"]:
            ctx.violation("%s" % why, "schema %s%s, tag text %r: %s disagrees with the specification; code answered %s"
                          % (res["ns"], res["version"], e["text"], why, {k: o[k] for k in o if o[k] != ""}),
                          {"version": res["version"], "ns": res["ns"], "text": e["text"], "schema_text": res.get("text")})
        ctx.sample({"schema": res["ns"] + res["version"], "nodes": res["nodes"], "forms": res["forms"], "lookups": res["n"],
                    "example": res["sample"][1]})
    ctx.note("schemas", ["%s%s" % (r["ns"], r["version"]) for r in results])
    ctx.note("lookups_per_schema", {"%s%s" % (r["ns"], r["version"]): r["n"] for r in results})
    ctx.exhaustive = not quick
    ctx.assumptions += ["terms are split at '/' and case-folded by the harness (Python str.split/casefold); TLC has no character operations",
                        "the schema tree, '#' children and names come from the XML through vf/facts.py"]


def replay(obj):
    from hed import load_schema_version, HedTag
    if obj["version"] == "generated":
        from hed.schema import from_string
        s = from_string(obj["schema_text"], schema_format=".mediawiki", name="c03-generated")
    else:
        s = load_schema_version(obj["ns"] + obj["version"])
    try:
        h = HedTag(obj["text"], s)
        return True, "HedTag(%r): exists=%s short=%s long=%s ext=%r (compare with the specification by rerunning the check)" % (
            obj["text"], h.tag_exists_in_schema(), h.short_tag, h.long_tag, h.extension)
    except Exception as ex:  # noqa
        return False, "raised %s" % ex
