"""C02 -- parsing is total and the parse tree mirrors the source text.

TLC: specs/HedText.tla -- declarative definition of tags / balance / group spans / nesting / printing
next to the transcribed split_hed_string + split_into_groups algorithm; TLC proves them equal for
every text up to length N over {t, ' ', ',', '(', ')', '/'} (design run), rejects four deliberately
broken variants (sensitivity runs) and emits, for every text, what the declarative definition
prescribes (generation runs, MC_HedText).

Binding A (spec -> code): every emitted text is replayed through the real HedString
  A1 literally ('t' is the unknown tag "t"),
  A2 with the 't' runs concretised by real 8.3.0 tag names in short / partial / long spelling
     (rotating over the whole vocabulary read by vf/facts.py), positions projected back.
Binding B (code -> spec): hypothesis-generated arbitrary Unicode texts are run through the real
  constructor, the observation is abstracted by the class map (',' '(' ')' '/' themselves,
  U+0020 -> blank, everything else -> tag character) and judged by TLC (Trace_HedText.tla)
  against the declarative definition; a sample of the A2 texts goes the same way.
"""
import json
import multiprocessing as mp
import os
import random
import re
import shutil
import subprocess
import sys
import threading
import zlib
from concurrent.futures import ThreadPoolExecutor

from .. import facts, tlc

ALPHA = "t ,()/"
SCHEMA_VERSION = "8.3.0"
MISMATCH = "PARENTHESES_MISMATCH"
_G = {}

# clauses that come straight from the property statement (a failure is a VIOLATION);
# everything else is extra detail of the spec (a failure is spec drift)
STATEMENT = {"never_raises", "tag_spans", "tag_text_is_slice", "group_spans", "nesting",
             "roundtrip_original", "roundtrip_short", "roundtrip_long",
             "unbalanced_empty", "unbalanced_reported"}
DRIFT = {"tokens", "print_str", "print_original", "print_short", "print_long", "form_short", "form_long", "root"}


# --------------------------------------------------------------------------------------
# real code: execute and project back
# --------------------------------------------------------------------------------------
def _schema():
    if "schema" not in _G:
        from hed.schema import load_schema_version
        _G["schema"] = load_schema_version(SCHEMA_VERSION)
    return _G["schema"]


def _same_tree(x, y):
    """Equal tree: same nesting, pairwise equal tags (library equality and same long form)."""
    from hed.models.hed_tag import HedTag
    cx, cy = x.children, y.children
    if len(cx) != len(cy):
        return False
    for a, b in zip(cx, cy):
        ta, tb = isinstance(a, HedTag), isinstance(b, HedTag)
        if ta != tb:
            return False
        if ta:
            if not (a == b) or a.long_tag != b.long_tag:
                return False
        elif not _same_tree(a, b):
            return False
    return True


def observe(text, want_validate):
    """Run the real code on `text`; everything the property talks about, in plain JSON-able values."""
    from hed.models.hed_string import HedString
    schema = _schema()
    o = {"raised": None, "tags": [], "groups": [], "toks": [], "slices": True, "root": True, "empty": True,
         "mismatch": None, "codes": None, "prints": {}, "rt": {}, "forms": []}
    try:
        hs = HedString(text, schema)
    except Exception as ex:     # "never raises" is the property
        o["raised"] = "%s: %s" % (type(ex).__name__, ascii(str(ex))[:200])
        return o
    try:
        o["toks"] = [[bool(t), int(a), int(b)] for t, (a, b) in HedString.split_hed_string(text)]
    except Exception as ex:
        o["toks"] = [[False, -1, -1]]
        o["toks_raised"] = type(ex).__name__
    groups = hs.get_all_groups()
    gidx = {id(g): n for n, g in enumerate(groups)}
    o["root"] = bool(groups) and groups[0] is hs and tuple(hs.span) == (0, len(text)) \
        and hs.get_original_hed_string() == text \
        and all(g.get_original_hed_string() == text[g.span[0]:g.span[1]] for g in groups[1:])
    o["groups"] = [[_i(g.span[0]), _i(g.span[1]), gidx.get(id(g._parent), -1)] for g in groups[1:]]
    tags = hs.get_all_tags()
    o["tags"] = [[_i(t.span[0]), _i(t.span[1]), gidx.get(id(t._parent), -1)] for t in tags]
    o["slices"] = all(t.org_tag == text[t.span[0]:t.span[1]] for t in tags)
    o["empty"] = len(hs.children) == 0
    o["forms"] = [[t.short_tag, t.long_tag] for t in tags]
    for name, fn in (("str", lambda: str(hs)), ("original", hs.get_as_original),
                     ("short", hs.get_as_short), ("long", hs.get_as_long)):
        try:
            p = fn()
            o["prints"][name] = p
            if name != "str":
                h2 = HedString(p, schema)
                o["rt"][name] = bool(h2 == hs) and _same_tree(hs, h2)
        except Exception as ex:
            o["prints"][name] = None
            o["rt"][name] = False
            o["print_raised"] = "%s in %s: %s" % (type(ex).__name__, name, ascii(str(ex))[:120])
    if want_validate:
        try:
            codes = sorted({i.get("code") for i in hs.validate()})
            o["codes"] = codes
            o["mismatch"] = MISMATCH in codes
        except Exception as ex:
            o["codes"] = ["<raised %s>" % type(ex).__name__]
            o["mismatch"] = False
    return o


def _i(x):
    return int(x) if isinstance(x, int) else -1


def _render(tpl, text, sub=None):
    """Render TLC's print template: delimiters are characters, a tag is its span [a, b]."""
    out = []
    for e in tpl:
        if isinstance(e, str):
            out.append(e)
        else:
            out.append(sub(e) if sub else text[e[0]:e[1]])
    return "".join(out)


def compare(text, exp, o):
    """exp: what the spec prescribes for this concrete text
         {bal, dtags [[a,b]], tags [[a,b,p]], groups [[a,b,p]], print (original form), short, long (or None),
          forms {tag index: [short, long]}}
       returns the list of failed clause names."""
    bad = []
    if o["raised"]:
        return ["never_raises"]
    if not o["root"]:
        bad.append("root")
    if [t[1:] for t in o["toks"] if t[0]] != [list(x) for x in exp["dtags"]] or not _tiles(o["toks"], len(text)):
        bad.append("tokens")
    if exp["bal"]:
        if [t[:2] for t in o["tags"]] != [t[:2] for t in exp["tags"]]:
            bad.append("tag_spans")
        if not o["slices"]:
            bad.append("tag_text_is_slice")
        if [g[:2] for g in o["groups"]] != [g[:2] for g in exp["groups"]]:
            bad.append("group_spans")
        if len(o["tags"]) == len(exp["tags"]) and len(o["groups"]) == len(exp["groups"]) and \
                ([t[2] for t in o["tags"]] != [t[2] for t in exp["tags"]]
                 or [g[2] for g in o["groups"]] != [g[2] for g in exp["groups"]]):
            bad.append("nesting")
        for name in ("original", "short", "long"):
            if not o["rt"].get(name):
                bad.append("roundtrip_" + name)
        if exp.get("str") is not None and o["prints"].get("str") != exp["str"]:
            bad.append("print_str")
        if exp.get("print") is not None and o["prints"].get("original") != exp["print"]:
            bad.append("print_original")
        for name in ("short", "long"):
            if exp.get(name) is not None and o["prints"].get(name) != exp[name]:
                bad.append("print_" + name)
        for k, (sh, lo) in (exp.get("forms") or {}).items():
            k = int(k)
            if k < len(o["forms"]):
                if o["forms"][k][0] != sh:
                    bad.append("form_short")
                if o["forms"][k][1] != lo:
                    bad.append("form_long")
    else:
        if not o["empty"] or o["tags"] or o["groups"]:
            bad.append("unbalanced_empty")
        if not o["mismatch"]:
            bad.append("unbalanced_reported")
    return sorted(set(bad), key=bad.index)


def _tiles(toks, n):
    p = 0
    for _, a, b in toks:
        if a != p or b <= a:
            return False
        p = b
    return p == n


def _key(clause, text, exp):
    """Stable class of a failing input."""
    if clause == "unbalanced_reported":
        return "unbalanced-not-reported:" + ("equal-paren-counts" if text.count("(") == text.count(")")
                                             else "unequal-paren-counts")
    return clause.replace("_", "-")


def _sentence(clause, text, exp, o):
    t = ascii(text)
    if clause == "never_raises":
        return "HedString(%s, schema) raised %s" % (t, o["raised"])
    if clause == "unbalanced_reported":
        return ("parentheses of %s are not balanced (the tree is %s) but validate() reports %s, no %s"
                % (t, "empty" if o["empty"] else "NOT empty", o["codes"], MISMATCH))
    if clause == "unbalanced_empty":
        return "parentheses of %s are not balanced but the tree is not empty: tags %s groups %s" % (t, o["tags"], o["groups"])
    if clause == "tag_spans":
        return "%s: tag spans %s, expected %s" % (t, [x[:2] for x in o["tags"]], [x[:2] for x in exp["tags"]])
    if clause == "group_spans":
        return "%s: group spans %s, expected %s" % (t, [x[:2] for x in o["groups"]], [x[:2] for x in exp["groups"]])
    if clause == "nesting":
        return "%s: parents of tags/groups %s/%s, expected %s/%s" % (
            t, [x[2] for x in o["tags"]], [x[2] for x in o["groups"]], [x[2] for x in exp["tags"]], [x[2] for x in exp["groups"]])
    if clause == "tag_text_is_slice":
        return "%s: some tag's org_tag differs from the source slice at its span" % t
    if clause.startswith("roundtrip_"):
        f = clause.split("_")[1]
        return "%s: printing in %s form gives %s, which does not re-parse to an equal tree (%s)" % (
            t, f, ascii(o["prints"].get(f)), o.get("print_raised", "trees differ"))
    return "%s: %s differs from the specification: observed %s" % (
        t, clause, ascii({"prints": o["prints"], "forms": o["forms"], "toks": o["toks"]})[:300])


# --------------------------------------------------------------------------------------
# concretisation (abstract text -> real tag names), A2
# --------------------------------------------------------------------------------------
def _vocab():
    if "vocab" not in _G:
        f = facts.load(SCHEMA_VERSION)
        tags = f.real_tags()
        spell = []                       # (spelling, short, long)
        for t in tags:
            for form in f.suffix_forms(t):
                spell.append((form, t["name"], t["long"]))
        byk = {}
        for t in tags:
            parts = t["long"].split("/")
            for k in range(2, len(parts) + 1):
                byk.setdefault(k, []).append(("/".join(parts[-k:]), t["name"], t["long"]))
        _G["vocab"] = (spell, byk)
    return _G["vocab"]


_PATH = re.compile(r"^t+(/t+)*$")


def concretise(s, dtags, start):
    """Replace the 't' runs of the abstract text by real spellings.  Returns
    (text, pos, known, used, next rotation counter): pos[i] = offset in text of abstract index i (None inside a run),
    known = {tag index: (short, long)} for tags that are one valid spelling, used = spelling indexes."""
    spell, byk = _vocab()
    out, pos, known, used = [], [None] * (len(s) + 1), {}, []
    cur, i, rot = 0, 0, start

    def put(j, piece):
        nonlocal cur
        pos[j] = cur
        out.append(piece)
        cur += len(piece)
    for n, (a, b) in enumerate(dtags):
        while i < a:
            put(i, s[i])
            i += 1
        body = s[a:b]
        comps = body.split("/")
        if _PATH.match(body) and len(comps) == 1:
            sp = spell[rot % len(spell)]
            used.append(rot % len(spell))
            rot += 1
            put(a, sp[0])
            known[n] = (sp[1], sp[2])
            i = b
        elif _PATH.match(body) and len(comps) in byk and rot % 2 == 0:
            cand = byk[len(comps)]
            sp = cand[(rot // 2) % len(cand)]
            rot += 1
            names = sp[0].split("/")
            j = a
            for ci, comp in enumerate(comps):
                put(j, names[ci])
                j += len(comp)
                if ci < len(comps) - 1:
                    put(j, "/")
                    j += 1
            known[n] = (sp[1], sp[2])
            i = b
        else:
            j = a
            while j < b:
                if s[j] == "t":
                    e = j
                    while e < b and s[e] == "t":
                        e += 1
                    sp = spell[rot % len(spell)]
                    used.append(rot % len(spell))
                    rot += 1
                    put(j, sp[0])
                    j = e
                else:
                    put(j, s[j])
                    j += 1
            i = b
    while i < len(s):
        put(i, s[i])
        i += 1
    pos[len(s)] = cur
    return "".join(out), pos, known, used, rot


def classes(text, wide_blank=False):
    out = []
    for c in text:
        if c in ",()/":
            out.append(c)
        elif c == " " or (wide_blank and c.isspace()):
            out.append(" ")
        else:
            out.append("t")
    return out


def trace_record(text, o, wide_blank=False):
    return {"s": classes(text, wide_blank), "raised": bool(o["raised"]), "tags": o["tags"], "groups": o["groups"],
            "toks": o["toks"], "slices": bool(o["slices"]), "mismatch": bool(o["mismatch"]),
            "rt_org": bool(o["rt"].get("original")), "rt_short": bool(o["rt"].get("short")),
            "rt_long": bool(o["rt"].get("long"))}


# --------------------------------------------------------------------------------------
# workers
# --------------------------------------------------------------------------------------
def _exp_literal(case):
    s, bal, dtags, ftags, fgroups, tpl = case
    p = _render(tpl, s)
    return {"bal": bal, "dtags": dtags, "tags": ftags, "groups": fgroups, "print": p, "str": p, "short": p, "long": p}


def _code(s):
    n = 0
    for c in s:
        n = n * 7 + ALPHA.index(c) + 1
    return n


class _Acc:
    """Per-worker accumulator: per failure class the smallest example and a count."""

    def __init__(self):
        self.fail = {}        # key -> [count, (len, text), sentence, replay, clause]
        self.n = 0
        self.nontrivial = []
        self.used = set()
        self.trace = []       # (text, record) sample for TLC trace validation
        self.samples = []
        self.conc = 0
        self.known_forms = 0

    def add(self, clause, text, exp, o, mode):
        key = _key(clause, text, exp)
        e = self.fail.get(key)
        rank = (len(text), text)
        if e is None or rank < e[1]:
            rep = {"mode": "text", "text": text, "clause": clause, "binding": mode, "expected": exp}
            cnt = e[0] if e else 0
            self.fail[key] = [cnt, rank, _sentence(clause, text, exp, o), rep, clause]
        self.fail[key][0] += 1


def replay_cases(args):
    """A1 + A2 for one batch of emitted cases."""
    cases, rot, sample_mod = args          # rot: running rotation counter over the vocabulary (dense within a job)
    acc = _Acc()
    for case in cases:
        s, bal = case[0], case[1]
        exp = _exp_literal(case)
        o = observe(s, want_validate=not bal)
        for clause in compare(s, exp, o):
            acc.add(clause, s, exp, o, "A1")
        acc.n += 1
        if any(c in s for c in ",() ") and ("t" in s or "(" in s or ")" in s):
            acc.nontrivial.append(_code(s))
        h = zlib.crc32(s.encode())
        if len(acc.samples) < 2 and bal and case[4] and case[3] and h % 499 == 1:
            acc.samples.append({"binding": "A1", "text": s, "balanced": bal, "expected_tags": exp["tags"],
                                "expected_groups": exp["groups"], "expected_print": exp["print"],
                                "observed_tags": o["tags"], "observed_groups": o["groups"]})
        # ---- A2: real tag names
        if bal and case[2]:
            text, pos, known, used, rot = concretise(s, case[2], rot)
            acc.used.update(used)
            ftags = [[pos[a], pos[b], p] for a, b, p in case[3]]
            fgroups = [[pos[a], pos[b], p] for a, b, p in case[4]]
            dtags = [[pos[a], pos[b]] for a, b in case[2]]
            spans = {(t[0], t[1]): n for n, t in enumerate(case[3])}
            allknown = len(known) == len(ftags)

            def sub_form(which):
                def f(e):
                    n = spans[(e[0], e[1])]
                    if n in known:
                        return known[n][which]
                    return text[pos[e[0]]:pos[e[1]]]
                return f
            exp2 = {"bal": True, "dtags": dtags, "tags": ftags, "groups": fgroups,
                    "print": _render(case[5], text, lambda e: text[pos[e[0]]:pos[e[1]]]),
                    "short": _render(case[5], text, sub_form(0)) if allknown else None,
                    "long": _render(case[5], text, sub_form(1)) if allknown else None,
                    "forms": {str(n): list(v) for n, v in known.items()}}
            o2 = observe(text, want_validate=False)
            for clause in compare(text, exp2, o2):
                acc.add(clause, text, exp2, o2, "A2")
            acc.conc += 1
            acc.known_forms += len(known)
            if sample_mod and h % sample_mod == 0 and len(text) <= 60:
                acc.trace.append((text, trace_record(text, o2)))
            if len(acc.samples) < 4 and case[4] and h % 499 == 2:
                acc.samples.append({"binding": "A2", "abstract": s, "text": text, "expected_tags": ftags,
                                    "expected_groups": fgroups, "expected_short": exp2["short"],
                                    "observed_short": o2["prints"].get("short")})
    return {"fail": acc.fail, "n": acc.n, "nontrivial": acc.nontrivial, "used": acc.used, "trace": acc.trace,
            "samples": acc.samples, "conc": acc.conc, "known_forms": acc.known_forms}


def observe_texts(texts):
    """B: run the real code on arbitrary texts, return trace records."""
    out = []
    for t in texts:
        o = observe(t, want_validate=True)
        out.append((t, trace_record(t, o), trace_record(t, o, wide_blank=True) if any(
            c.isspace() and c != " " for c in t) else None, o["raised"], o["codes"]))
    return out


def _pool_init():
    _schema()
    _vocab()


# --------------------------------------------------------------------------------------
# hypothesis texts (B)
# --------------------------------------------------------------------------------------
ODD = [chr(c) for c in (
    0x09, 0x0A, 0x0D, 0x0B, 0x0C, 0x1C, 0x85, 0xA0, 0x1680, 0x2002, 0x2003, 0x2009, 0x200A, 0x2028, 0x2029, 0x202F,
    0x205F, 0x3000,                                  # white space other than U+0020
    0x200B, 0xFEFF, 0x00, 0x7F,                      # zero width, BOM, controls
    0xD800, 0xDFFF, 0xDC00, 0x1F600, 0xE0020,        # lone surrogates, astral
    0xFF08, 0xFF09, 0xFF0C, 0xFF0F, 0x201A,          # full-width look-alikes of the delimiters
    0x130, 0xDF, 0xFB01, 0x301,                      # case-folding oddities, combining mark
    0x7B, 0x7D, 0x23, 0x3A, 0x5B, 0x5D, 0x5C, 0x22, 0x27)]
WORDS = ["Event", "Red", "Sensory-event", "Item/Object", "Def/x", "sc:Red", "Duration/3 s", "a", "B", "{col}", "#",
         # text that is not in Unicode normal form C (a base letter + combining mark that would compose, compatibility signs):
         # spans and original text refer to the text AS GIVEN
         "Cafe\u0301", "Label/re\u0301sume\u0301", "\u2126", "5 \u212b", "A\u030a"]


def hypothesis_texts(n, sd, maxlen=48):
    from hypothesis import HealthCheck, Phase, given, seed, settings
    from hypothesis import strategies as st
    got = []
    delim = st.sampled_from(list(",()/ "))
    piece = st.one_of(delim, delim, delim, st.sampled_from(ODD), st.characters(), st.sampled_from(WORDS),
                      st.characters(min_codepoint=0xD800, max_codepoint=0xDFFF, categories=("Cs",)),
                      st.characters(min_codepoint=0x10000))
    strat = st.one_of(st.lists(piece, max_size=14).map("".join), st.text(max_size=20),
                      st.text(alphabet=st.sampled_from(list(",()/ \t\xa0a")), max_size=16))

    @settings(max_examples=n, database=None, deadline=None, derandomize=False,
              suppress_health_check=list(HealthCheck), phases=[Phase.generate])
    @seed(sd)
    @given(strat)
    def collect(x):
        got.append(x)
    collect()
    seen, out = set(), []
    for x in got:
        x = x[:maxlen]
        if x not in seen:
            seen.add(x)
            out.append(x)
    return out


def _start_hypothesis(ctx, n):
    """Generate the B texts in a clean interpreter (no hed, no threads): hypothesis mixes constants found in the
    locally imported modules into its draws, so the result depends on what is imported -- keep that fixed."""
    out = os.path.join(ctx.work, "hypothesis_texts.json")
    code = ("import json,sys; sys.path.insert(0, %r); from vf.props import c02; "
            "json.dump(c02.hypothesis_texts(%d, %d), open(%r, 'w'))" % (tlc.VERIF, n, ctx.seed, out))
    env = {k: v for k, v in os.environ.items() if k in ("PATH", "HOME", "LANG", "LC_ALL")}
    env.update(PYTHONHASHSEED="0", PYTHONDONTWRITEBYTECODE="1",
               HYPOTHESIS_STORAGE_DIRECTORY=os.path.join(ctx.work, "hypothesis"))
    return subprocess.Popen([sys.executable, "-c", code], env=env, cwd=ctx.work, stdout=subprocess.PIPE,
                            stderr=subprocess.STDOUT, text=True), out


def _collect_hypothesis(proc, out):
    log, _ = proc.communicate(timeout=1500)
    if proc.returncode != 0 or not os.path.exists(out):
        raise tlc.TLCFailure("hypothesis text generation failed (rc=%s): %s" % (proc.returncode, (log or "")[-600:]))
    with open(out) as f:
        return json.load(f)


# --------------------------------------------------------------------------------------
# the check
# --------------------------------------------------------------------------------------
_LOCK = threading.Lock()


def _tlc(ctx, module, cfg, label, expect_ok=True, **kw):
    """ctx.tlc for use from threads: the TLC process runs unlocked, the bookkeeping under a lock."""
    with _LOCK:
        _G["tlc_n"] = _G.get("tlc_n", 0) + 1
        wd = os.path.join(ctx.work, "tlc_%d" % _G["tlc_n"])      # own metadir parent: parallel runs must not collide
    r = tlc.run(module, cfg, workdir=wd, **kw)
    shutil.rmtree(wd, ignore_errors=True)
    with _LOCK:
        ctx.states += r.distinct
        ctx.transitions += r.generated
        ctx.tlc_runs.append(dict(r.as_dict(), module=module, cfg=cfg, label=label, violated=r.violated))
        for a, (d, t) in r.coverage.items():
            od, ot = ctx.actions.get(a, (0, 0))
            ctx.actions[a] = (od + d, ot + t)
    if expect_ok and r.violated:
        raise tlc.TLCFailure("model %s/%s violates %s" % (module, cfg, r.violated))
    return r


def _trace_validate(ctx, records, label, batch=2500, cfg="Trace_HedText.cfg"):
    """records: list of trace records; returns the TLC verdict of each, in the same order
    ((balanced, [failed clauses]) for Trace_HedText.cfg)."""
    verdicts = [None] * len(records)

    def one(b0):
        part = records[b0:b0 + batch]
        path = os.path.join(ctx.work, "trace_%s_%d.json" % (re.sub(r"\W", "_", label), b0))
        with open(path, "w") as f:
            json.dump(part, f)
        r = _tlc(ctx, "Trace_HedText", cfg, "trace validation: %s (%d cases)" % (label, len(part)), workers=1,
                 env={"TRACE_FILE": path}, timeout=900, heap="2g")
        os.remove(path)
        return b0, r.json_lines
    with ThreadPoolExecutor(6) as ex:
        for b0, lines in ex.map(one, range(0, len(records), batch)):
            for line in lines:
                verdicts[b0 + line[0] - 1] = tuple(line[1:])
    missing = [i for i, v in enumerate(verdicts) if v is None]
    if missing:
        raise tlc.TLCFailure("trace validation gave no verdict for %d cases (first index %d)" % (len(missing), missing[0]))
    return verdicts


def run(ctx):
    quick = ctx.quick
    n = 6 if quick else 8                 # texts replayed into the real code: all up to length n
    nd = 6 if quick else 7                # design run (algorithm = declarative definition): all up to length nd
    if os.environ.get("C02_DESIGN_N") in ("6", "7", "8"):
        nd = int(os.environ["C02_DESIGN_N"])      # 8: 28.6M states, about 4 min on 16 idle cores
    plen = 1 if quick else 2
    ctx.rule = ("cases = (A1) every text up to length %d over {t, blank, ',', '(', ')', '/'} emitted by TLC with the tags, "
                "group spans, nesting, balance and print the declarative definition prescribes, replayed through "
                "HedString; (A2) the balanced ones with tags again with the t-runs replaced by real 8.3.0 tag spellings; "
                "(B) hypothesis Unicode texts abstracted to the class alphabet and judged by TLC. distinct = distinct "
                "abstract text; non-trivial = contains a tag character or parenthesis AND a delimiter or blank "
                "(span arithmetic / nesting is exercised)" % n)

    def model_runs():
        # ---- 1. design run: algorithm == declarative definition, print/re-parse, for all texts <= n
        _tlc(ctx, "MC_HedText", {6: "MC_HedText.cfg", 7: "MC_HedText_thorough.cfg", 8: "MC_HedText_n8.cfg"}[nd],
             "design: algorithm = declarative definition, all texts up to length %d" % nd, workers=16, coverage=True,
             timeout=2400, heap="8g", deadlock=True)
        never = sorted(a for a, (d, t) in ctx.actions.items() if t == 0)
        if never:
            raise tlc.TLCFailure("vacuous model: actions never taken %s" % never)
        # ---- 2. sensitivity: broken variants must be rejected by the invariants
        sens_expect = {"notrim": {"TokenClasses", "AlgoMatchesDecl"}, "endpos": {"TreeMatchesDecl", "FlatMatchesDecl", "GroupSpans"},
                       "noclosecheck": {"RejectIffUnbalanced", "UnbalancedEmpty", "TreeMatchesDecl"},
                       "printsep": {"RoundTrip", "PrintStable"}}

        def sens(b):
            return b, _tlc(ctx, "MC_HedText", "MC_HedText_bug_%s.cfg" % b, "sensitivity: " + b, expect_ok=False,
                           workers=1, timeout=300, deadlock=True)
        with ThreadPoolExecutor(4) as ex:
            res = list(ex.map(sens, sorted(sens_expect)))
        got = {}
        for b, r in res:
            got[b] = r.violated
            if r.violated not in sens_expect[b]:
                raise tlc.TLCFailure("sensitivity run %s should violate one of %s, got %s" % (b, sorted(sens_expect[b]), r.violated))
        try:        # a variant that cannot consume "," tokens must be reported as stuck (deadlock, TLC exit status 11)
            _tlc(ctx, "MC_HedText", "MC_HedText_bug_stuck.cfg", "sensitivity: stuck", workers=1, timeout=300, deadlock=True)
            raise tlc.TLCFailure("sensitivity run stuck: the deadlock was not detected")
        except tlc.TLCFailure as ex:
            if "rc=11" not in str(ex):
                raise
            got["stuck"] = "deadlock"
        ctx.note("broken_variants_rejected_by_spec", got)

    hyp = _start_hypothesis(ctx, 3000 if quick else 40000)
    # the model runs (TLC only) go on in a thread while the generated cases are replayed into the real code
    import hed  # noqa: F401  (before any thread/fork)
    _pool_init()
    # ---- 3. workers (forked after importing hed once, and before any thread is started)
    mpctx = mp.get_context("fork")
    pool = mpctx.Pool(14)
    bg = ThreadPoolExecutor(1)
    fut = bg.submit(model_runs)
    try:
        _run_bindings(ctx, pool, n, plen, hyp)
        fut.result()                      # design / sensitivity failures are machinery failures (TLCFailure)
    finally:
        pool.terminate()
        pool.join()
        bg.shutdown(wait=True)
        if hyp[0].poll() is None:
            hyp[0].kill()
    ctx.tlc_runs.sort(key=lambda r: (r["cfg"], r["label"]))
    ctx.assumptions += [
        "blank = U+0020 only (the class map of the property's alphabet); tab, NBSP and other Unicode white space are tag "
        "characters for the declarative definition, as for split_hed_string; the number of recorded texts on which the "
        "wider reading (str.isspace) would disagree is reported as blank_isspace_reading_disagreements",
        "the step-wise algorithm is proved equal to the declarative definition for all texts up to length %d; the real code is "
        "compared with the declarative definition for all texts up to length %d" % (nd, n),
        "a run of blanks between two delimiters yields no tag (the trimmed run is empty)",
        "schema 8.3.0; equal tree = same nesting, pairwise HedTag equality and equal long form, and HedString ==",
        "A2 expected spans are the TLC spans of the abstract text carried through the position map of the concretiser; "
        "a sample of the concretised texts is additionally judged by TLC directly (trace mode)"]


def _run_bindings(ctx, pool, n, plen, hyp):
    quick = ctx.quick
    cfg = "MC_HedText_gen.cfg" if quick else "MC_HedText_gen_thorough.cfg"
    prefixes = [""]
    for _ in range(plen):
        prefixes = [p + c for p in prefixes for c in ALPHA]
    shards = [("short", ALPHA[0] * plen, "1")] + [(p, p, "0") for p in prefixes]

    def gen(sh):
        name, pfx, short = sh
        r = _tlc(ctx, "MC_HedText", cfg, "case generation, prefix %r" % name, workers=1,
                 env={"GEN_PREFIX": pfx, "GEN_SHORT": short}, timeout=1800, heap="2g")
        return r.json_lines
    total = {"n": 0, "conc": 0, "known_forms": 0}
    fails = {}
    used = set()
    trace_sample = []
    samples = []
    sample_mod = 17 if quick else 101
    expected_n = sum(6 ** k for k in range(n + 1))
    njobs = 0
    with ThreadPoolExecutor(6 if quick else 10) as ex:
        pending = []
        for lines in ex.map(gen, shards):
            jobs = []
            for i in range(0, len(lines), 2000):
                jobs.append((lines[i:i + 2000], ctx.seed * 7919 + njobs * 1777, sample_mod))
                njobs += 1
            pending.append(pool.map_async(replay_cases, jobs))
            del lines
        for p in pending:
            for res in p.get():
                total["n"] += res["n"]
                total["conc"] += res["conc"]
                total["known_forms"] += res["known_forms"]
                ctx.nontrivial.update(res["nontrivial"])
                used |= res["used"]
                trace_sample += res["trace"]
                samples += res["samples"]
                for key, e in res["fail"].items():
                    c = fails.get(key)
                    if c is None or e[1] < c[1]:
                        fails[key] = [e[0] + (c[0] if c else 0)] + e[1:]
                    else:
                        c[0] += e[0]
    if total["n"] != expected_n:
        raise tlc.TLCFailure("case generation emitted %d texts, expected %d" % (total["n"], expected_n))
    ctx.exhaustive = True
    ctx.evaluations += total["n"] + total["conc"]
    ctx.traces += total["n"] + total["conc"]
    samples.sort(key=lambda x: json.dumps(x, sort_keys=True))
    for b in ("A1", "A2"):
        for s in [x for x in samples if x["binding"] == b][:2]:
            ctx.sample(s)
    spell, _ = _vocab()
    ctx.note("A1_texts_replayed", total["n"])
    ctx.note("A2_concretised_texts_replayed", total["conc"])
    ctx.note("A2_tags_with_known_short_long_form", total["known_forms"])
    ctx.note("vocabulary_coverage", {SCHEMA_VERSION: {"spellings_used": len(used), "spellings_total": len(spell)}})

    # ---- B: hypothesis texts + sample of A2 texts, judged by TLC
    texts = _collect_hypothesis(*hyp)
    harvested = _harvest_suite_texts(ctx, quick)
    seen_t = set(texts)
    harvested = [t for t in harvested if t not in seen_t]
    texts = texts + harvested
    ctx.note("B_texts_harvested_from_the_repository_test_suite", len(harvested))
    chunks = [texts[i:i + 500] for i in range(0, len(texts), 500)]
    obs = [x for part in pool.map(observe_texts, chunks) for x in part]
    trace_sample.sort(key=lambda x: x[0])
    trace_sample = trace_sample[:2000 if quick else 20000]
    recs = [r for _, r, _, _, _ in obs] + [r for _, r in trace_sample]
    origin = [("B", t) for t, _, _, _, _ in obs] + [("A2-sample", t) for t, _ in trace_sample]
    verdicts = _trace_validate(ctx, recs, "recorded constructor runs")
    ctx.traces += len(recs)
    ctx.evaluations += len(recs)
    nbal = 0
    rejected = []          # (index, clause)
    for idx, ((mode, text), rec, (bal, failed)) in enumerate(zip(origin, recs, verdicts)):
        nbal += bool(bal)
        if mode == "B":
            ctx.nontrivial.add("B:" + "".join(rec["s"]))
        for clause in failed:
            rejected.append((idx, clause))
    # per failure class: count all, and fetch what the declarative definition prescribes (second TLC pass,
    # goes into the replay file) for the smallest examples of each class
    bykey = {}
    for idx, clause in rejected:
        text = origin[idx][1]
        bykey.setdefault((_key(clause, text, None), clause), []).append(((len(text), text), idx))
    for v in bykey.values():
        v.sort()
    rej_idx = sorted({idx for v in bykey.values() for _, idx in v[:3]})
    explained = {}
    if rej_idx:
        ev = _trace_validate(ctx, [recs[i] for i in rej_idx], "expected values of rejected cases",
                             cfg="Trace_HedText_explain.cfg")
        explained = dict(zip(rej_idx, ev))
    for (key, clause), v in sorted(bykey.items()):
        rank, idx = v[0]
        mode, text = origin[idx]
        bal, dtags, ftags, fgroups = explained[idx]
        exp = {"bal": bal, "dtags": dtags, "tags": ftags, "groups": fgroups, "print": None,
               "judged_by": "Trace_HedText on classes %r" % "".join(recs[idx]["s"])}
        o = observe(text, want_validate=True)
        sentence = "[binding %s] %s" % (mode, _sentence(clause, text, exp, o))
        rep = {"mode": "text", "text": text, "clause": clause, "binding": mode, "expected": exp}
        c = fails.get(key)
        if c is None or rank < c[1]:
            fails[key] = [len(v) + (c[0] if c else 0), rank, sentence, rep, clause]
        else:
            c[0] += len(v)
    for t, rec, _, raised, codes in obs[:400:133]:
        ctx.sample({"binding": "B", "text": ascii(t), "classes": "".join(rec["s"]), "observed_tags": rec["tags"],
                    "observed_groups": rec["groups"], "codes": codes})
    ctx.note("B_hypothesis_texts", len(obs))
    ctx.note("B_balanced_texts", nbal)
    ctx.note("A2_sample_judged_by_TLC", len(trace_sample))
    # how many texts would be judged differently if every str.isspace() character counted as a blank (note only)
    wide = [(t, w) for t, _, w, _, _ in obs if w is not None]
    if wide:
        wv = _trace_validate(ctx, [w for _, w in wide], "alternative reading blank = str.isspace")
        dis = [(t, f) for (t, _), (_, f) in zip(wide, wv) if set(f) & {"tag_spans", "group_spans", "nesting", "unbalanced_empty"}]
        ctx.note("blank_isspace_reading_disagreements", {"texts_with_other_white_space": len(wide), "disagree": len(dis),
                                                          "examples": [ascii(t) for t, _ in dis[:3]]})

    # ---- totality on long texts (no oracle needed for "never raises"; too long for TLC's recursion)
    for name, t in _long_texts():
        o = observe(t, want_validate=False)
        ctx.case("long:" + name)
        if o.get("print_raised"):
            ctx.extra.setdefault("long_text_print_raised", {})[name] = o["print_raised"]     # note only (recursion limit)
        if o["raised"]:
            fails.setdefault("never-raises", [0, (len(t), t), "HedString(<%s, %d characters>, schema) raised %s" % (
                name, len(t), o["raised"]), {"mode": "long", "name": name, "clause": "never_raises"}, "never_raises"])[0] += 1
    # ---- verdicts
    drift = {}
    for key in sorted(fails):
        cnt, rank, sentence, rep, clause = fails[key]
        if clause in STATEMENT:
            ctx.violation(key, "%s   [%d failing texts of this class]" % (sentence, cnt), rep)
        else:
            drift[key] = {"count": cnt, "example": sentence[:400]}
            ctx.bump("spec_drift", cnt)
    ctx.note("failure_classes", {k: fails[k][0] for k in sorted(fails)})
    if drift:
        ctx.note("spec_drift_examples", drift)
        print("SPEC-DRIFT C02: %s" % {k: v["count"] for k, v in drift.items()})


def _harvest_suite_texts(ctx, quick):
    """Every text the repository's own tests hand to HedString(...): the executions the suite already produces are
    validated against the specification like any other recorded run (binding B)."""
    import subprocess
    import hed
    root = os.path.dirname(os.path.dirname(os.path.abspath(hed.__file__)))
    if not os.path.isdir(os.path.join(root, "tests")):
        return []
    out = os.path.join(ctx.work, "harvest.json")
    paths = ["tests/models/test_hed_string.py", "tests/models/test_hed_group.py", "tests/models/test_hed_tag.py",
             "tests/validator/test_tag_validator.py"] if quick else ["tests/models", "tests/validator", "tests/tools/analysis", "tests/schema/test_convert_tags.py"]
    env = dict(os.environ, VERIF_HARVEST_OUT=out, PYTHONPATH=os.pathsep.join([root, tlc.VERIF] + [os.environ.get("PYTHONPATH", "")]))
    try:
        subprocess.run([sys.executable, "-m", "pytest", "-q", "-p", "no:cacheprovider", "-p", "vf.pytest_harvest"] + paths,
                       cwd=root, env=env, stdout=subprocess.DEVNULL, stderr=subprocess.DEVNULL, timeout=240 if quick else 900)
        with open(out) as f:
            texts = json.load(f)
    except Exception:
        return []        # the suite is an extra source of inputs; without it the run is unchanged
    rng = random.Random(ctx.seed)
    if len(texts) > (1500 if quick else 20000):
        texts = rng.sample(texts, 1500 if quick else 20000)
    return texts


def _long_texts():
    return [("deep-nesting", "(" * 3000 + "Red" + ")" * 3000),
            ("many-groups", ",".join(["(Red, Blue)"] * 3000)),
            ("many-opens", "(" * 6000),
            ("many-closes", ")" * 6000),
            ("blanks-and-commas", " , " * 6000),
            ("one-long-tag", "Item/" + "x/" * 6000),
            ("odd-characters", "".join(ODD) * 150)]


def selftest(ctx):
    """Show that a corrupted expectation / a corrupted record is noticed by both bindings."""
    import hed  # noqa: F401
    text = "t ,( t/t ,(t) )"
    o = observe(text, want_validate=False)
    rec = trace_record(text, o)
    bad = json.loads(json.dumps(rec))
    bad["tags"][1][1] += 1                      # one span end off by one
    bad2 = json.loads(json.dumps(rec))
    bad2["groups"][1][2] = 0                    # inner group re-parented to the top level
    v = _trace_validate(ctx, [rec, bad, bad2], "selftest")
    ok = v[0][1] == [] and "tag_spans" in v[1][1] and "nesting" in v[2][1]
    ev = _trace_validate(ctx, [rec], "selftest expected", cfg="Trace_HedText_explain.cfg")[0]
    exp = {"bal": ev[0], "dtags": ev[1], "tags": ev[2], "groups": ev[3], "print": None}
    ok = ok and compare(text, exp, o) == []
    exp["groups"][0][1] -= 1
    ok = ok and "group_spans" in compare(text, exp, o)
    print("SELFTEST C02: %s  (trace verdicts %s)" % ("ok" if ok else "FAILED", v))
    shutil.rmtree(ctx.work, ignore_errors=True)      # no evidence file is written by the self-test
    return 0 if ok else 2


# --------------------------------------------------------------------------------------
# replay of one recorded case (no TLC)
# --------------------------------------------------------------------------------------
def replay(obj):
    import hed  # noqa: F401
    if obj.get("mode") == "long":
        t = dict(_long_texts())[obj["name"]]
        o = observe(t, want_validate=False)
        return (not o["raised"]), "HedString(<%s, %d characters>) %s" % (obj["name"], len(t), o["raised"] or "constructed")
    text, clause, exp = obj["text"], obj["clause"], obj.get("expected")
    o = observe(text, want_validate=True)
    failed = compare(text, exp, o)
    if clause in failed:
        return False, _sentence(clause, text, exp, o)
    return True, "%s: clause %s holds (failed clauses now: %s)" % (ascii(text), clause, failed)
