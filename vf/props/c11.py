"""C11 — units are accepted and converted exactly as the schema defines them.

TLC: specs/Units.tla (model mode: lookup is functional, symbols are matched exactly) and
Trace_Units: the unit / modifier sections of each bundled schema (read from XML by vf/facts.py)
are TLC constants; every (tag, unit, prefix, spelling, literal) verdict and conversion answered by
the real code is validated by TLC.  The float comparison value = n * factor and linearity are
checked by the driver with exact rationals (TLC has no reals).
"""
import json
import multiprocessing as mp
import os
import re
from decimal import Decimal
from fractions import Fraction

from .. import facts, tlc

IRREGULAR = {"foot": "feet", "inch": "inches", "hertz": "hertz", "lb": "lbs"}
LITERALS = ["3", "0.5", "12.25", "1e3", "-1.5", "+4", "2.5E-2", ".5", "7.", "0", "0.0", "-0"]
_G = {}


def plural(lname):
    return IRREGULAR.get(lname, lname + "s")


def dec(s):
    d = Decimal(s.replace("^", "e"))
    sign, digits, exp = d.as_tuple()
    m = int("".join(map(str, digits))) * (-1 if sign else 1)
    while m and m % 10 == 0:
        m //= 10
        exp += 1
    return m, exp


def tables(f):
    units, mods = [], []
    for c, cd in f.unit_classes.items():
        for u, ud in cd["units"].items():
            a = ud["attrs"]
            hasf = isinstance(a.get("conversionFactor"), list)
            fm, fe = dec(a["conversionFactor"][0]) if hasf else (1, 0)
            units.append({"cls": c, "name": u, "lname": u.lower(), "plural": plural(u.lower()), "sym": "unitSymbol" in a,
                          "si": "SIUnit" in a, "prefix": "unitPrefix" in a, "hasf": hasf, "fm": fm, "fe": fe,
                          "odd": (" " in u or "-" in u or u != u.lower()) and "unitSymbol" not in a})
    for m, md in f.modifiers.items():
        a = md["attrs"]
        if "SIUnitSymbolModifier" in a:
            sym = True
        elif "SIUnitModifier" in a:
            sym = False
        else:
            continue
        fm, fe = dec(a["conversionFactor"][0]) if isinstance(a.get("conversionFactor"), list) else (1, 0)
        mods.append({"name": m, "lname": m.lower(), "sym": sym, "fm": fm, "fe": fe})
    return units, mods


def unit_tags(f):
    out = []
    for t in f.tags:
        if t["placeholder"] and isinstance(t["attrs"].get("unitClass"), list):
            parent = f.by_long[t["parent"]]
            vcs = t["attrs"].get("valueClass")
            numeric = (vcs is None) or ("numericClass" in vcs)
            out.append({"tag": parent["name"], "classes": t["attrs"]["unitClass"], "numeric": numeric,
                        "toplevel": "topLevelTagGroup" in parent["inh"] or "tagGroup" in parent["inh"]})
    return out


def make_events(f, quick, seed):
    units, mods = tables(f)
    evs = []
    n = 0
    name_mods = [m for m in mods if not m["sym"]]
    sym_mods = [m for m in mods if m["sym"]]
    tags = unit_tags(f)
    for ti, t in enumerate(tags):
        own = [u for u in units if u["cls"] in t["classes"]]
        foreign = [u for u in units if u["cls"] not in t["classes"]]

        def add(raw, before, kind="unit", u=None, m=None, lit=None):
            nonlocal n
            n += 1
            lit = lit or LITERALS[n % len(LITERALS)]
            text = "%s/%s" % (t["tag"], lit) if kind == "bare" else (
                "%s/%s %s" % (t["tag"], raw, lit) if before else "%s/%s %s" % (t["tag"], lit, raw))
            exp = None
            if u is not None and u["hasf"]:
                fm, fe = u["fm"], u["fe"]
                if m is not None:
                    fm, fe = fm * m["fm"], fe + m["fe"]
                exp = [fm, fe]
            cands = []
            for cu in own:
                if cu["hasf"]:
                    cands.append([cu["fm"], cu["fe"]])
                    for cm in mods:
                        cands.append([cu["fm"] * cm["fm"], cu["fe"] + cm["fe"]])
            evs.append({"text": text, "tag": t["tag"], "classes": t["classes"], "raw": raw, "folded": raw.casefold(),
                        "before": before, "kind": kind, "lit": lit, "built": exp, "numeric": t["numeric"], "cands": cands})
        add("", False, kind="bare")
        add("", False, kind="bare", lit="0.25")
        for u in own:
            if " " in u["name"]:
                continue    # a unit name with a blank can never follow "<number> " (schema marks it deprecated for that reason)
            if u["sym"]:
                spell = [u["name"], u["name"].swapcase(), u["name"].upper(), u["name"].lower()]
            else:
                spell = [u["lname"], u["lname"].capitalize(), u["lname"].upper(), u["lname"].title().swapcase()]
                if not u["odd"]:
                    spell += [u["plural"], u["plural"].capitalize(), u["plural"].upper()]
            for sp in dict.fromkeys(spell):
                add(sp, u["prefix"], u=u)
                add(sp, not u["prefix"], u=u)          # wrong side of the number
            pool = (sym_mods if u["sym"] else name_mods)
            wrong_pool = (name_mods if u["sym"] else sym_mods)
            pick = pool if not quick else [pool[(seed + n + k * 7) % len(pool)] for k in range(4)] if pool else []
            for m in pick:
                base = u["name"] if u["sym"] else u["lname"]
                mtxt = m["name"] if u["sym"] else m["lname"]
                add(mtxt + base, u["prefix"], u=u, m=m)
                if not u["sym"]:
                    add((mtxt + base).upper(), u["prefix"], u=u, m=m)
                    if not u["odd"]:
                        add(mtxt.capitalize() + u["plural"], u["prefix"], u=u, m=m)
                else:
                    add((mtxt + base).swapcase(), u["prefix"], u=u, m=m)
                    # only the prefix symbol / only the unit symbol in the other letter case (`Km`, `kM`)
                    add(mtxt.swapcase() + base, u["prefix"], u=u, m=m)
                    add(mtxt + base.swapcase(), u["prefix"], u=u, m=m)
            for m in (wrong_pool if not quick else wrong_pool[(seed + n) % max(1, len(wrong_pool)):][:2]):
                add(m["name"] + (u["name"] if u["sym"] else u["lname"]), u["prefix"], u=u, m=m)
        for u in (foreign if not quick else [foreign[(seed + ti * 3 + k * 11) % len(foreign)] for k in range(4)] if foreign else []):
            add(u["name"], False, u=None)
        for junk in ["zz", "unitless", "s2", "%"]:
            add(junk, False)
    return units, mods, evs


def observe(args):
    version, evs = args
    from hed import load_schema_version, HedString, HedTag
    if version not in _G:
        _G[version] = load_schema_version(version)
    schema = _G[version]
    out = []
    for e in evs:
        text = e["text"]
        o = {"invalid": False, "othererr": False, "conv": "none", "fm": 0, "fe": 0, "num": ""}
        try:
            issues = HedString("(" + text + ", (Item))" if False else text, schema).validate(allow_placeholders=False)
        except Exception as ex:  # noqa
            o["raised"] = "validate: %s: %s" % (type(ex).__name__, ex)
            issues = []
        codes = [(i["code"], i.get("severity", 1)) for i in issues]
        o["invalid"] = any(c == "UNITS_INVALID" for c, _ in codes)
        o["othererr"] = any(s == 1 and c not in ("UNITS_INVALID", "TAG_GROUP_ERROR", "TEMPORAL_TAG_ERROR", "TAG_REQUIRES_CHILD")
                            for c, s in codes)
        o["warn_missing"] = any(c == "UNITS_MISSING" for c, _ in codes)
        o["codes"] = sorted({c for c, _ in codes})
        try:
            v = HedTag(text, schema).value_as_default_unit()
            if v is None:
                o["conv"] = "none"
            else:
                o["conv"] = "value"
                o["value"] = repr(float(v))
                v2 = HedTag(text.replace(e["lit"], _double(e["lit"]), 1), schema).value_as_default_unit()
                o["value2"] = repr(float(v2)) if v2 is not None else None
        except Exception as ex:  # noqa
            o["conv"] = "exception"
            o["exc"] = "%s: %s" % (type(ex).__name__, ex)
        out.append(o)
    return out


def _double(lit):
    d = Decimal(lit) * 2
    return format(d, "f") if "e" not in lit.lower() else "%e" % float(d)


def validate_schema(args):
    version, quick, seed, work = args
    f = facts.load(version)
    units, mods, evs = make_events(f, quick, seed)
    # history: the SAME texts are first put to ANOTHER schema in this process (its units and factors differ); what this schema
    # answers afterwards must not depend on that
    others = [v for v, _ in facts.bundled() if v != version]
    prior = others[(seed + sum(map(ord, version))) % len(others)]
    observe((prior, evs[:: max(1, len(evs) // 1500)]))
    obs = observe((version, evs))
    numeric_bad = []
    for e, o in zip(evs, obs):
        if o["conv"] == "value":
            n = Fraction(Decimal(e["lit"]))
            got = Fraction(float(o["value"]))
            # which declared (unit x modifier) factor explains the value?  TLC then checks that this factor belongs
            # to a unit/modifier the TEXT actually selects (several may, e.g. score 'uV' = unit uV or micro-V)
            order = ([e["built"]] if e["built"] else []) + e["cands"]
            if n == 0:          # zero times any factor: the value must be 0 (every factor explains it; the expected one is recorded)
                if got == 0:
                    o["zero"] = True
                else:
                    numeric_bad.append((e["text"], o["value"], "0 (zero times the factor)"))
                continue
            for fm, fe in order:
                want = n * Fraction(fm) * Fraction(10) ** fe
                if want != 0 and abs(got - want) <= abs(want) * Fraction(1, 10 ** 9):
                    o["fm"], o["fe"] = fm, fe
                    break
            else:
                numeric_bad.append((e["text"], o["value"], "n x factor for any declared unit/modifier factor of its classes"))
            if o.get("value2") is not None:
                if abs(Fraction(float(o["value2"])) - 2 * got) > abs(got) * Fraction(1, 10 ** 9):
                    numeric_bad.append((e["text"], "doubling the number gives %s, expected 2 x %s" % (o["value2"], o["value"]), "linear"))
    events = [{"classes": e["classes"], "raw": e["raw"], "folded": e["folded"], "before": e["before"], "kind": e["kind"],
               "obs": {"invalid": o["invalid"], "othererr": o["othererr"], "conv": o["conv"], "fm": o["fm"], "fe": o["fe"],
                       "zero": bool(o.get("zero"))}}
              for e, o in zip(evs, obs)]
    path = os.path.join(work, "units_%s.json" % version)
    with open(path, "w") as fh:
        json.dump({"units": units, "mods": mods, "events": events}, fh)
    r = tlc.run("Trace_Units", "Trace_Units.cfg", workers=1, env={"TRACE_FILE": path}, timeout=3000, workdir=work, heap="3g")
    rej = [(int(m.group(1)), m.group(2)) for m in re.finditer(r'<<"REJECT", (\d+), "([\w-]+)">>', r.stdout)]
    checked = re.search(r'<<"CHECKED", (\d+)>>', r.stdout)
    return {"version": version, "n": len(events), "checked": int(checked.group(1)) if checked else -1,
            "rej": [(why, evs[i - 1], obs[i - 1]) for i, why in rej[:200]], "nrej": len(rej),
            "states": r.distinct, "transitions": r.generated, "wall": r.wall, "numeric_bad": numeric_bad[:20],
            "bare_bad": [(e["text"], o["codes"]) for e, o in zip(evs, obs) if e["kind"] == "bare" and e["numeric"]
                         and (not o["warn_missing"] or o["othererr"])][:10],
            "raised": [(e["text"], o["raised"]) for e, o in zip(evs, obs) if "raised" in o][:5],
            "nunits": len(units), "nmods": len(mods), "ntags": len(unit_tags(f)),
            "sample": [{"text": evs[k]["text"], "obs": {x: obs[k][x] for x in ("invalid", "conv", "codes")}, "value": obs[k].get("value")}
                       for k in (3, len(evs) // 2)]}


def run(ctx):
    quick = ctx.quick
    ctx.rule = ("cases = (value-taking tag with unit classes) x (every unit of its classes in name spellings lower/capital/"
                "upper/mixed, singular and plural; symbols exact and in 3 wrong-case forms) x (permitted SI modifiers: all "
                "in thorough, 4 rotating in quick; non-permitted modifier kind) x (right/wrong side of the number) x units "
                "of foreign classes x junk units x 9 numeric literals, plus bare numbers; distinct = distinct tag text")
    ctx.tlc("MC_Units", "MC_Units.cfg", workers=4, coverage=False, label="model: lookup functional, symbols exact")
    versions = [v for v, _ in facts.bundled()]
    plan = versions      # every bundled schema: their unit sections differ in notation (10^-3 vs 0.001) and in content
    jobs = [(v, quick, ctx.seed, ctx.work) for v in plan]
    with mp.get_context("fork").Pool(min(12, len(jobs))) as pool:
        results = pool.map(validate_schema, jobs, chunksize=1)
    for res in results:
        v = res["version"]
        ctx.states += res["states"]
        ctx.transitions += res["transitions"]
        ctx.tlc_runs.append({"module": "Trace_Units", "label": "units " + v, "states": res["states"],
                             "transitions": res["transitions"], "wall_s": round(res["wall"], 1)})
        if res["checked"] != res["n"]:
            raise tlc.TLCFailure("Trace_Units consumed %s of %s events for %s" % (res["checked"], res["n"], v))
        ctx.traces += res["n"]
        ctx.case(v, n=res["n"])
        ctx.nontrivial.update("%s|%d" % (v, k) for k in range(res["n"]))
        for why, e, o in res["rej"]:
            unit_kind = "symbol" if e["raw"] and not e["raw"].islower() and e["raw"].casefold() != e["raw"] else "name"
            ctx.violation("%s" % why, "schema %s, %r: %s (unit text %r, classes %s); code: invalid=%s conv=%s %s codes=%s"
                          % (v, e["text"], why, e["raw"], e["classes"], o["invalid"], o["conv"], o.get("exc", o.get("value", "")), o.get("codes")),
                          {"version": v, "text": e["text"]})
        for text, got, want in res["numeric_bad"]:
            ctx.violation("conversion-value" if want != "linear" else "conversion-not-linear",
                          "schema %s, %r converts to %s, expected %s" % (v, text, got, want), {"version": v, "text": text})
        for text, codes in res["bare_bad"]:
            ctx.violation("bare-number", "schema %s, bare number %r should draw only the missing-unit warning, got %s" % (v, text, codes),
                          {"version": v, "text": text})
        for text, exc in res["raised"]:
            ctx.violation("validate-raises", "schema %s, validating %r raised %s" % (v, text, exc), {"version": v, "text": text})
        ctx.sample({"schema": v, "unit_tags": res["ntags"], "units": res["nunits"], "modifiers": res["nmods"],
                    "events": res["n"], "examples": res["sample"]})
    ctx.exhaustive = not quick
    ctx.assumptions += ["plural forms from a hand-written table (regular +s; feet, inches, hertz, lbs); plurals of unit names "
                        "containing '-', a blank or capitals (degree-Celsius, degree Celsius, Volt, uV) are not exercised",
                        "conversion factors read as decimals with '^' meaning 'e' (10^-15 == 10e-15, as later schema versions spell it)",
                        "value = n x factor and v(2n) = 2 v(n) compared by the driver with exact rationals (relative 1e-9); "
                        "TLC decides acceptance, definedness and which factor applies",
                        "case folding of unit texts done by the harness (Python casefold)"]


def replay(obj):
    from hed import load_schema_version, HedString, HedTag
    s = load_schema_version(obj["version"])
    text = obj["text"]
    try:
        codes = sorted({i["code"] for i in HedString(text, s).validate(allow_placeholders=False)})
        v = HedTag(text, s).value_as_default_unit()
        return True, "%r: codes %s, value_as_default_unit %r (rerun the check to compare with the specification)" % (text, codes, v)
    except Exception as ex:  # noqa
        return False, "%r raised %s: %s" % (text, type(ex).__name__, ex)
