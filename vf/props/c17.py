"""C17 - remodeling operations are pure functions of their parameters and input table.

TLC: specs/Remodel.tla through MC_Remodel.tla (bounded models + case emission) and Trace_Remodel.tla
(judging recorded runs of the real code).
Binding A: every TLC case (operation list with flag settings / faults, 1-3 tables, processing order, expected
outcome per step) is concretised (JSON operation list, .tsv text), run through RemodelerValidator and ONE
Dispatcher per case, and compared step by step.
Binding B: seeded random, deeper cases are run on the real code first, the recorded outcomes are judged by TLC.

Python only concretises, executes, projects and compares; every expected value comes from the specification.
"""
import copy
import io
import json
import multiprocessing as mp
import os
import re
import shutil
import warnings

from .. import tlc
from ..core import sha

NA = "n/a"
OPTIONAL = {"factor_column": ("factor_names", "factor_values"), "remap_columns": ("integer_sources",),
            "merge_consecutive": ("match_columns",), "split_rows": ("copy_columns",)}
_G = {}


# ----------------------------------------------------------------------------------------------
# concretisation: abstract operation record (as emitted by TLC) -> JSON operation of the remodeler
# ----------------------------------------------------------------------------------------------
def _is_num(s):
    return isinstance(s, str) and re.fullmatch(r"\d+", s) is not None


def _item(x):
    """An onset_source/duration item: numeric-looking text is a JSON number, anything else a column name."""
    return int(x) if _is_num(x) else x


def _event(ev):
    d = {}
    for k, v in ev.items():
        if k == "name":
            continue
        d[k] = [_item(x) for x in v] if k in ("onset_source", "duration") else list(v)
    return d


def conc_op(o):
    """Abstract operation (+ structural fault) -> the item of the JSON operation list."""
    name = o["op"]
    params = {}
    for k, v in o.items():
        if k in ("op", "fault"):
            continue
        if k == "column_mapping":
            params[k] = {a: b for a, b in v}
        elif k == "new_events":
            params[k] = {ev["name"]: _event(ev) for ev in v}
        elif k == "map_list":
            params[k] = [list(r) for r in v]
        elif isinstance(v, list):
            params[k] = list(v)
        else:
            params[k] = v
    item = {"operation": name, "description": "C17 generated %s" % name, "parameters": params}
    f, p = o["fault"]["f"], o["fault"]["p"]
    if f == "none":
        return item
    if f.startswith("ev-"):
        first = next(iter(params["new_events"]))
        _apply_fault(params["new_events"][first], f[3:], p)
    elif f in ("missing", "wrongtype", "empty", "dup", "baditem", "extra"):
        _apply_fault(params, f, p)
    elif f == "no-operation":
        del item["operation"]
    elif f == "no-description":
        del item["description"]
    elif f == "no-parameters":
        del item["parameters"]
    elif f == "extra-field":
        item["bogus"] = 1
    elif f == "unknown-operation":
        item["operation"] = "no_such_operation"
    elif f == "params-not-object":
        item["parameters"] = ["x"]
    elif f == "op-not-dict":
        item = name
    else:
        raise ValueError("unknown fault %r" % f)
    return item


def _apply_fault(d, f, p):
    if f == "missing":
        d.pop(p, None)
    elif f == "wrongtype":
        d[p] = None                       # JSON null is of no admissible type
    elif f == "empty":
        d[p] = {} if isinstance(d[p], dict) else []
    elif f == "dup":
        d[p].append(copy.deepcopy(d[p][0]))
    elif f == "baditem":
        if isinstance(d[p], dict):
            d[p][next(iter(d[p]))] = None
        else:
            d[p][0] = None
    elif f == "extra":
        d[p] = 1
    else:
        raise ValueError("unknown fault %r" % f)


def op_sig(o):
    """(name, flag settings, absent optional parameters) of an abstract operation after its fault."""
    name = o["op"]
    present = {k for k in o if k not in ("op", "fault")}
    f, p = o["fault"]["f"], o["fault"]["p"]
    if f == "missing":
        present.discard(p)
    absent = [k for k in OPTIONAL.get(name, ()) if k not in present]
    if name == "split_rows":
        evs = o["new_events"]
        no_copy = any("copy_columns" not in ev for ev in evs) or (f == "ev-missing" and p == "copy_columns")
        absent = ["copy_columns"] if no_copy else []
    flags = ",".join("%s=%s" % (k, "T" if o[k] else "F") for k in sorted(o) if isinstance(o[k], bool))
    return name, flags, ("absent=" + "+".join(absent)) if absent else "full"


def conc_table(t):
    """Abstract table -> .tsv text."""
    cols = t["cols"]
    lines = ["\t".join(cols)]
    for r in t["rows"]:
        lines.append("\t".join(r[c] for c in cols))
    return "\n".join(lines) + "\n"


def concretise(j, flavour):
    """A TLC case -> everything the executor and `--replay` need (no TLC values left)."""
    return {"ops": [conc_op(o) for o in j["ops"]],
            "sigs": [list(op_sig(o)) for o in j["ops"]],
            "faults": [[o["fault"]["f"], o["fault"]["p"]] for o in j["ops"]],
            "tables": [conc_table(t) for t in j["tabs"]],
            "order": [f - 1 for f in j["order"]],
            "expected": j["exp"],
            "valid": j["valid"],
            "bad": j["bad"],
            "flavour": flavour}


# ----------------------------------------------------------------------------------------------
# execution + projection
# ----------------------------------------------------------------------------------------------
def _mkdf(tsv):
    import pandas as pd
    # the way the remodeler (and its tests) read an events file
    return pd.read_csv(io.StringIO(tsv), sep="\t", header=0, keep_default_na=False, na_values=",null")


def _norm(v):
    """A result cell as text: numbers in canonical decimal form, n/a as n/a, NaN (a conversion slip) as 'NaN'."""
    import numpy as np
    if isinstance(v, (bool, np.bool_)):
        return str(bool(v))
    if isinstance(v, (int, np.integer)):
        return str(int(v))
    if isinstance(v, (float, np.floating)):
        if v != v:
            return "NaN"
        return str(int(v)) if float(v).is_integer() else repr(float(v))
    if v is None:
        return "None"
    try:
        import pandas as pd
        if v is pd.NA or v is pd.NaT:
            return "NaN"
    except Exception:
        pass
    s = str(v)
    m = re.fullmatch(r"(-?\d+)\.0+", s)
    return m.group(1) if m else s


def project(df):
    cols = [str(c) for c in df.columns]
    if len(set(cols)) != len(cols):
        return {"k": "ok", "cols": cols, "rows": [[_norm(x) for x in r] for r in df.values.tolist()], "dupcols": True}
    vals = df.values.tolist()
    return {"k": "ok", "cols": cols, "rows": [{c: _norm(x) for c, x in zip(cols, r)} for r in vals]}


def _exc_name(ex):
    """Nearest builtin exception class (numpy's UFuncTypeError is a TypeError, ...)."""
    for k in type(ex).__mro__:
        if k.__module__ == "builtins":
            return k.__name__
    return type(ex).__name__


def _culprit(ex, disp):
    """Index of the operation whose code raised (outermost frame that runs inside an operation object)."""
    from hed.tools.remodeling.operations.base_op import BaseOp
    tb = ex.__traceback__
    while tb is not None:
        s = tb.tb_frame.f_locals.get("self")
        if isinstance(s, BaseOp) and disp is not None:
            for i, o in enumerate(getattr(disp, "parsed_ops", [])):
                if o is s:
                    return i
        if tb.tb_frame.f_code.co_name == "parse_operations" and "index" in tb.tb_frame.f_locals:
            return tb.tb_frame.f_locals["index"]
        tb = tb.tb_next
    return None


def _attrs(disp):
    """JSON-able attributes of the operation objects (parameter values cached at construction)."""
    out = []
    for o in getattr(disp, "parsed_ops", []) or []:
        d = {}
        for k, v in vars(o).items():
            try:
                d[k] = json.dumps(v, sort_keys=True)
            except (TypeError, ValueError):
                continue
        out.append(d)
    return out


def _fmt_ops(ops):
    return json.dumps(ops, sort_keys=True)


def _same(exp, obs):
    if exp["cols"] != obs["cols"] or obs.get("dupcols"):
        return False
    if not exp["cols"]:                      # no column left: only the number of rows can be compared
        return len(exp["rows"]) == len(obs["rows"])
    return list(exp["rows"]) == obs["rows"]


def _same_unordered(exp, obs):
    if exp["cols"] != obs["cols"] or len(exp["rows"]) != len(obs["rows"]) or obs.get("dupcols"):
        return False
    key = lambda r: json.dumps(r, sort_keys=True)
    return sorted(map(key, exp["rows"])) == sorted(map(key, obs["rows"]))


def _show(t):
    if t.get("k") == "exc":
        return "raises %s(%s)" % (t["e"], t.get("msg", "")[:160])
    if t.get("k") == "err":
        return "raises " + t["e"]
    if t.get("k") == "any":
        return "(not prescribed)"
    rows = t["rows"]
    return "%s %s" % (t["cols"], [[r[c] for c in t["cols"]] if isinstance(r, dict) else r for r in rows])


def check_concrete(c, work):
    """Run one concrete case on the real code.  Returns (findings, info);
    findings = [(level, key, text)], level 'violation' (contradicts the property statement) or 'drift'."""
    from hed.tools.remodeling.dispatcher import Dispatcher
    F = []
    info = {"steps": 0, "executed": False}
    ops = copy.deepcopy(c["ops"])
    before = _fmt_ops(ops)
    names = "+".join(s[0] for s in c["sigs"]) or "empty-list"
    label = ";".join("%s:%s:%s" % (s[0], f[0], f[1]) if f[0] != "none" else "%s:rule" % s[0]
                     for s, f, i in zip(c["sigs"], c["faults"], range(len(c["sigs"]))) if (i + 1) in c["bad"]) or names
    here = "ops=%s" % json.dumps(c["ops"])

    def V(key, text):
        F.append(("violation", key, text + "  [" + here + "]"))

    def D(key, text):
        F.append(("drift", key, text + "  [" + here + "]"))

    # ---- 1. validation ----
    try:
        msgs = _G["validator"].validate(ops)
    except Exception as ex:
        V("validate-raises:%s:%s" % (type(ex).__name__, label),
          "RemodelerValidator.validate raised %s: %s instead of reporting messages" % (type(ex).__name__, ex))
        return F, info
    if _fmt_ops(ops) != before:
        V("mutates-params:validate:" + names, "validate() changed the operation list it was given")
    if not c["valid"]:
        if not msgs:
            V("accepts-invalid:" + label, "the list violates the JSON specification (%s) but validation reports nothing" % label)
        elif not all(isinstance(m, str) and m.strip() for m in msgs):
            V("bad-messages:" + label, "validation messages are not non-empty strings: %r" % (msgs,))
        else:
            for i in c["bad"]:
                if not any(re.search(r"\b%d\b" % i, m) for m in msgs):
                    D("message-position:" + label, "no message names operation %d: %r" % (i, msgs))
        info["messages"] = len(msgs)
        return F, info                           # a list that fails validation is never executed
    if msgs:
        V("rejects-valid:" + ";".join("%s:%s:%s" % (s[0], f[0], f[1]) if f[0] != "none" else "%s:%s" % (s[0], s[2])
                                      for s, f in zip(c["sigs"], c["faults"])),
          "the list conforms to the JSON specification and the operation rules but validation reports %r" % (msgs,))
        return F, info
    # ---- 2. one dispatcher per case ----
    info["executed"] = True
    try:
        disp = Dispatcher(ops, data_root=None, backup_name=None, hed_versions=None)
    except Exception as ex:
        i = _culprit(ex, None)
        s = c["sigs"][i] if i is not None and i < len(c["sigs"]) else [names, "", ""]
        V("construct-raises:%s:%s:%s" % (s[0], type(ex).__name__, s[2]),
          "validated list cannot be parsed into operations: %s: %s" % (type(ex).__name__, ex))
        return F, info
    attrs0 = _attrs(disp)
    leaked = None            # name of the operation that carried state over, once seen
    first = {}               # table index -> (step, outcome)
    for step, f in enumerate(c["order"]):
        tsv = c["tables"][f]
        exp = c["expected"][step]
        where = "step %d (table %d: %r)" % (step + 1, f + 1, tsv)
        if c["flavour"] == "file":
            path = os.path.join(work, "t%d_events.tsv" % f)
            with open(path, "w", newline="") as fh:
                fh.write(tsv)
            arg = path
        else:
            arg = _mkdf(tsv)
            snap = arg.copy(deep=True)
        disp_exc = None
        try:
            with warnings.catch_warnings():
                warnings.simplefilter("ignore")
                out = disp.run_operations(arg)
            obs = project(out)
        except Exception as ex:
            disp_exc = ex
            obs = {"k": "exc", "e": _exc_name(ex), "msg": str(ex), "op": _culprit(ex, disp)}
        info["steps"] += 1
        # ---- input unchanged ----
        if c["flavour"] == "file":
            with open(path, newline="") as fh:
                if fh.read() != tsv:
                    V("mutates-input:file", "%s: the input file was rewritten by run_operations" % where)
        else:
            if list(arg.columns) != list(snap.columns) or not arg.equals(snap) or \
                    [str(x) for x in arg.dtypes] != [str(x) for x in snap.dtypes]:
                V("mutates-input:dataframe", "%s: the input DataFrame was changed: now %s" % (where, _show(project(arg))))
        # ---- parameters unchanged ----
        now = _fmt_ops(ops)
        if now != before and leaked is None:
            ch = [i for i, (a, b) in enumerate(zip(json.loads(before), ops)) if _fmt_ops(a) != _fmt_ops(b)]
            i = ch[0] if ch else 0
            a, b = json.loads(before)[i]["parameters"], ops[i]["parameters"]
            par = [k for k in sorted(set(a) | set(b)) if _fmt_ops(a.get(k)) != _fmt_ops(b.get(k))]
            leaked = c["sigs"][i][0]
            V("mutates-params:%s:%s" % (leaked, "+".join(par)),
              "%s: the caller's parameters of operation %d (%s) changed from %s to %s" % (
                  where, i + 1, leaked, json.dumps(a), json.dumps(b)))
        attrs = _attrs(disp)
        if attrs != attrs0 and leaked is None:
            for i, (a, b) in enumerate(zip(attrs0, attrs)):
                ks = [k for k in sorted(set(a) | set(b)) if a.get(k) != b.get(k)]
                if ks:
                    leaked = c["sigs"][i][0]
                    V("mutates-op-state:%s:%s" % (leaked, "+".join(ks)),
                      "%s: attributes %s of the %s operation object changed: %s -> %s" % (
                          where, ks, leaked, {k: a.get(k) for k in ks}, {k: b.get(k) for k in ks}))
                    break
        # ---- a list is the composition of its steps: feeding the table through one single-operation dispatcher after the
        # other (each hands on the table it returns, n/a cells as n/a) gives what the list gives ----
        if len(ops) >= 2 and f not in first and obs["k"] != "exc":
            cur, chain_exc = _mkdf(tsv), None
            try:
                with warnings.catch_warnings():
                    warnings.simplefilter("ignore")
                    for o1 in json.loads(before):
                        cur = Dispatcher([o1], data_root=None, backup_name=None, hed_versions=None).run_operations(cur)
                chained = project(cur)
            except Exception as ex:
                chained = {"k": "exc", "e": _exc_name(ex), "msg": str(ex)[:200]}
            if {k: v for k, v in chained.items() if k != "msg"} != {k: v for k, v in obs.items() if k != "msg"}:
                V("not-composition:" + names, "%s: the list returns %s, applying its operations one after the other returns %s"
                  % (where, _show(obs), _show(chained)))
        # ---- same table, same outcome (whatever the specification says about the result) ----
        o_cmp = {k: v for k, v in obs.items() if k not in ("msg",)}
        if f in first:
            s0, o0 = first[f]
            if o0 != o_cmp:
                V("order-dependent:%s" % (leaked or names),
                  "%s gives %s but the same table gave %s at step %d of the same dispatcher" % (
                      where, _show(obs), _show(dict(o0, msg="")), s0 + 1))
        else:
            first[f] = (step, o_cmp)
        # ---- the outcome the specification prescribes ----
        if exp["k"] == "any":
            continue
        prior_leak = leaked is not None and step > 0
        if obs["k"] == "exc":
            i = obs["op"]
            s = c["sigs"][i] if i is not None and i < len(c["sigs"]) else [names, "", ""]
            if exp["k"] == "ok":
                if prior_leak:
                    V("order-dependent:%s" % leaked, "%s raises %s: %s after state was carried over; expected %s" % (
                        where, obs["e"], obs["msg"][:200], _show(exp)))
                else:
                    V("raises:%s:%s:%s%s" % (s[0], obs["e"], s[2], ""),
                      "%s: validated list should run to completion (expected %s) but operation %s raises %s: %s" % (
                          where, _show(exp), s[0], obs["e"], obs["msg"][:300]))
            elif exp["e"] != obs["e"]:
                D("error-class:%s:%s-for-%s" % (s[0], obs["e"], exp["e"]),
                  "%s: documented %s, raised %s: %s" % (where, exp["e"], obs["e"], obs["msg"][:200]))
            continue
        if exp["k"] == "err":
            sg = ";".join("%s:%s" % (s[0], s[1]) for s in c["sigs"])
            V("missing-error:" + sg, "%s: the documentation prescribes %s, the code returned %s" % (where, exp["e"], _show(obs)))
            continue
        if _same(exp, obs):
            continue
        sg = ";".join("%s:%s:%s" % (s[0], s[1], s[2]) for s in c["sigs"])
        text = "%s: expected %s, got %s" % (where, _show(exp), _show(obs))
        if exp["u"] and _same_unordered(exp, obs):
            info["tie_equivalent"] = info.get("tie_equivalent", 0) + 1      # equal up to the order of equal-onset rows
        elif exp["d"]:
            D("detail:" + sg, text)
        elif prior_leak:
            V("order-dependent:%s" % leaked, text)
        else:
            V("wrong-result:" + sg, text)
    return F, info


# ----------------------------------------------------------------------------------------------
# pool plumbing
# ----------------------------------------------------------------------------------------------
def _init_worker():
    from hed.tools.remodeling.remodeler_validator import RemodelerValidator
    _G["validator"] = RemodelerValidator()
    _G["wdir"] = os.path.join(_G["work"], "w%d" % os.getpid())
    os.makedirs(_G["wdir"], exist_ok=True)


def _job(c):
    if "validator" not in _G:
        _init_worker()
    try:
        F, info = check_concrete(c, _G["wdir"])
        return {"F": F, "info": info}
    except Exception as ex:            # a bug of the harness, never a verdict
        import traceback
        return {"crash": "%s: %s\n%s" % (type(ex).__name__, ex, traceback.format_exc())}


def _nontrivial(j):
    if not j["valid"]:
        return bool(j["ops"])
    for f, e in zip(j["order"], j["exp"]):
        t = j["tabs"][f - 1]
        if e["k"] == "err" or (e["k"] == "ok" and (e["cols"] != t["cols"] or list(e["rows"]) != list(t["rows"]))):
            return True
    return False


def _attribute(key, seen):
    """A disagreement on a list of several operations is reported under the key of one of its operations when that
    operation already disagrees on its own (one defect, one key)."""
    kind, _, rest = key.partition(":")
    if kind in ("wrong-result", "missing-error") and ";" in rest:
        for part in rest.split(";"):
            if kind + ":" + part in seen:
                return kind + ":" + part
    return key


def _replay_obj(c):
    return {k: c[k] for k in ("ops", "sigs", "faults", "tables", "order", "expected", "valid", "bad", "flavour")}


# ----------------------------------------------------------------------------------------------
# binding B: random deeper cases, judged by TLC (Trace_Remodel.tla)
# ----------------------------------------------------------------------------------------------
def _w(o):
    o["fault"] = {"f": "none", "p": ""}
    return o


def _rand_op(rng, cols_pool):
    """A random abstract operation over the column names in use (text-level parameters only)."""
    vals = ["x", "y", "q"]
    name = rng.choice(["remove_rows", "remove_columns", "rename_columns", "reorder_columns", "factor_column",
                       "remap_columns", "merge_consecutive", "split_rows"])
    txt = [c for c in cols_pool if c not in ("onset", "duration")]
    b = lambda: rng.random() < 0.5
    if name == "remove_rows":
        return _w({"op": name, "column_name": rng.choice(txt + ["z"]), "remove_values": rng.sample(vals, rng.randint(1, 2))})
    if name == "remove_columns":
        return _w({"op": name, "column_names": rng.sample(txt + ["z"], rng.randint(1, 2)), "ignore_missing": b()})
    if name == "rename_columns":
        olds = rng.sample(txt + ["z"], rng.randint(1, 2))
        return _w({"op": name, "column_mapping": [[o, n] for o, n in zip(olds, rng.sample(["m", "n", "k"], len(olds)))],
                   "ignore_missing": b()})
    if name == "reorder_columns":
        return _w({"op": name, "column_order": rng.sample(cols_pool + ["z"], rng.randint(1, 3)), "ignore_missing": b(),
                   "keep_others": b()})
    if name == "factor_column":
        o = {"op": name, "column_name": rng.choice(txt)}
        if b():
            o["factor_values"] = rng.sample(vals + ["1"], rng.randint(1, 2))
            if b():
                o["factor_names"] = rng.sample(["m", "n", "k"], len(o["factor_values"]))
        return _w(o)
    if name == "remap_columns":
        src = rng.sample(txt, rng.randint(1, min(2, len(txt))))
        dst = rng.sample(["m", "n"], rng.randint(1, 2))
        keys = set()
        rows = []
        for _ in range(rng.randint(1, 4)):
            k = tuple(rng.choice(vals + ["1"]) for _ in src)
            if k in keys:
                continue
            keys.add(k)
            rows.append(list(k) + [rng.choice(["P", "Q", "R", "2"]) for _ in dst])
        return _w({"op": name, "source_columns": src, "destination_columns": dst, "map_list": rows, "ignore_missing": b()})
    if name == "merge_consecutive":
        c = rng.choice(txt)
        o = {"op": name, "column_name": c, "event_code": rng.choice(vals), "set_durations": b(), "ignore_missing": b()}
        if rng.random() < 0.7:
            o["match_columns"] = rng.sample([x for x in txt + ["z"] if x != c], rng.randint(0, 2))
        return _w(o)
    evs = []
    for nm in rng.sample(["e", "f"], rng.randint(1, 2)):
        ev = {"name": nm, "onset_source": [rng.choice(["0", "1", "2", "duration"]) for _ in range(rng.randint(1, 2))],
              "duration": [rng.choice(["0", "1", "duration"]) for _ in range(rng.randint(1, 2))]}
        if b():
            ev["copy_columns"] = rng.sample(txt, rng.randint(1, min(2, len(txt))))
        evs.append(ev)
    return _w({"op": "split_rows", "anchor_column": rng.choice(txt + ["w"]), "new_events": evs, "remove_parent_row": b()})


def _rand_table(rng, with_time):
    cols = rng.sample(["a", "b", "c"], rng.randint(2, 3))
    if with_time:
        cols = ["onset", "duration"] + cols
        if rng.random() < 0.3:
            rng.shuffle(cols)
    rows = []
    onset = 0
    for _ in range(rng.randint(0, 5)):
        onset += rng.randint(0, 2)
        r = {}
        for c in cols:
            if c == "onset":
                r[c] = str(onset)
            elif c == "duration":
                r[c] = rng.choice(["1", "2", "3", NA])
            else:
                r[c] = rng.choice(["x", "x", "y", "1", "xy", NA])
        if rows and rng.random() < 0.25:
            r = dict(rows[-1])                # duplicate rows
        rows.append(r)
    return {"cols": cols, "rows": rows}


def _record_job(case):
    """Run an abstract random case on the real code and RECORD what happened (no judgement here).
    Returns (record for TLC, concrete case, side information for keys/texts)."""
    if "validator" not in _G:
        _init_worker()
    from hed.tools.remodeling.dispatcher import Dispatcher
    ops = [conc_op(o) for o in case["ops"]]
    before = _fmt_ops(ops)
    rec = {"ops": case["ops"], "tabs": case["tabs"], "order": case["order"], "obs": [], "valid": True, "unchanged": True}
    side = {"culprit": {}, "changed": None, "msgs": []}
    try:
        msgs = _G["validator"].validate(ops)
    except Exception as ex:
        msgs = ["validate raised %s" % type(ex).__name__]
    rec["valid"] = not msgs
    side["msgs"] = msgs
    conc = {"ops": json.loads(before), "tables": [conc_table(t) for t in case["tabs"]], "order": [f - 1 for f in case["order"]]}
    if msgs:
        return rec, conc, side
    exc = lambda e: {"k": "exc", "e": e, "cols": [], "rows": [], "n": 0}
    try:
        disp = Dispatcher(ops, data_root=None, backup_name=None, hed_versions=None)
    except Exception as ex:
        rec["obs"] = [exc(_exc_name(ex)) for _ in case["order"]]
        side["culprit"] = {i: _culprit(ex, None) for i in range(len(case["order"]))}
        return rec, conc, side
    for step, f in enumerate(conc["order"]):
        df = _mkdf(conc["tables"][f])
        snap = df.copy(deep=True)
        try:
            with warnings.catch_warnings():
                warnings.simplefilter("ignore")
                p = project(disp.run_operations(df))
            if p.get("dupcols"):
                o = {"k": "odd", "e": "", "cols": p["cols"], "rows": [], "n": len(p["rows"])}
            else:
                o = {"k": "ok", "e": "", "cols": p["cols"], "rows": p["rows"] if p["cols"] else [], "n": len(p["rows"])}
        except Exception as ex:
            o = exc(_exc_name(ex))
            side["culprit"][step] = _culprit(ex, disp)
        rec["obs"].append(o)
        if not df.equals(snap) or list(df.columns) != list(snap.columns):
            rec["unchanged"] = False
            side["changed"] = side["changed"] or "input"
        if _fmt_ops(ops) != before and rec["unchanged"]:
            rec["unchanged"] = False
            ch = [i for i, (x, y) in enumerate(zip(json.loads(before), ops)) if _fmt_ops(x) != _fmt_ops(y)]
            i = ch[0] if ch else 0
            x, y = json.loads(before)[i].get("parameters", {}), ops[i].get("parameters", {})
            side["changed"] = "%s:%s" % (case["ops"][i]["op"], "+".join(k for k in sorted(set(x) | set(y))
                                                                        if _fmt_ops(x.get(k)) != _fmt_ops(y.get(k))))
    return rec, conc, side


_RE_VERDICT = re.compile(r'<<"(ACCEPT|REJECT)", (\d+)(?:, "([^"]*)", (\d+), (TRUE|FALSE))?>>')


def b_cases(rng, n):
    cases = []
    for _ in range(n):
        with_time = rng.random() < 0.7
        tabs = [_rand_table(rng, with_time or rng.random() < 0.5) for _ in range(rng.randint(1, 3))]
        cols = sorted({c for t in tabs for c in t["cols"]})
        ops = [_rand_op(rng, cols) for _ in range(rng.randint(1, 3))]
        order = [rng.randint(1, len(tabs)) for _ in range(rng.randint(1, 4))]
        cases.append({"ops": ops, "tabs": tabs, "order": order})
    return cases


def b_judge(ctx, recs, workdir):
    path = os.path.join(ctx.work, "recorded.json")
    with open(path, "w") as fh:
        json.dump([r for r, _, _ in recs], fh)
    return ctx.tlc("Trace_Remodel", "Trace_Remodel.cfg", workers=1, env={"TRACE_FILE": path}, workdir=workdir,
                   label="trace validation of %d recorded random runs" % len(recs), timeout=1500, heap="6g")


def b_report(ctx, recs, r):
    verdict = {}
    for m in _RE_VERDICT.finditer(r.stdout):
        i = int(m.group(2))
        if m.group(1) == "ACCEPT":
            verdict.setdefault(i, [])
        else:
            verdict.setdefault(i, []).append((m.group(3), int(m.group(4)), m.group(5) == "TRUE"))
    if len(verdict) != len(recs):
        raise tlc.TLCFailure("Trace_Remodel judged %d of %d recorded cases" % (len(verdict), len(recs)))
    rejected = 0
    for i, (rec, conc, side) in enumerate(recs, 1):
        ctx.traces += 1
        ctx.case("B:" + sha([rec["ops"], rec["tabs"], rec["order"]]), nontrivial=len(rec["order"]) > 1 or len(rec["ops"]) > 1)
        fails = sorted(verdict[i], key=lambda x: (x[2], x[1], x[0]))
        if not fails:
            continue
        rejected += 1
        sigs = [op_sig(o) for o in rec["ops"]]
        sg = ";".join("%s:%s:%s" % s for s in sigs)
        leaked = side["changed"].split(":")[0] if side["changed"] and side["changed"] != "input" else None
        for clause, step, detail in fails:
            if detail:
                ctx.bump("spec_drift")
                kinds = ctx.extra.setdefault("spec_drift_kinds", {})
                kinds["B:" + clause] = kinds.get("B:" + clause, 0) + 1
                _keep(ctx, "spec_drift_examples", {"key": "B:" + clause, "step": step, "ops": conc["ops"],
                                                   "tables": conc["tables"], "order": conc["order"]})
                continue
            obs = rec["obs"][step - 1] if 0 < step <= len(rec["obs"]) else {}
            if clause in ("runs", "runs-d"):
                ci = side["culprit"].get(step - 1)
                s = sigs[ci] if ci is not None and ci < len(sigs) else ("+".join(x[0] for x in sigs), "", "")
                key = "raises:%s:%s:%s%s" % (s[0], obs.get("e"), s[2], "")
                if leaked and step > 1:
                    key = "order-dependent:" + leaked
            elif clause == "pure":
                key = "mutates-params:" + side["changed"] if side["changed"] != "input" else "mutates-input:dataframe"
            elif clause == "order":
                key = "order-dependent:" + (leaked or "+".join(x[0] for x in sigs))
            elif clause == "result":
                key = ("order-dependent:" + leaked) if leaked and step > 1 else "wrong-result:" + sg
            elif clause == "error":
                key = "missing-error:" + ";".join("%s:%s" % (x[0], x[1]) for x in sigs)
            elif clause == "valid":
                key = ("rejects-valid:" if side["msgs"] else "accepts-invalid:") + sg
            else:
                key = clause + ":" + sg
            rp = {"mode": "recorded", "ops": conc["ops"], "tables": conc["tables"], "order": conc["order"],
                  "observed": rec["obs"], "clause": clause, "step": step, "changed": side["changed"]}
            ctx.violation(_attribute(key, ctx._seen_v), "recorded run rejected by Remodel.tla (clause %s, step %d): ops=%s tables=%r order=%s observed=%s %s" % (
                clause, step, json.dumps(conc["ops"]), conc["tables"], conc["order"], json.dumps(obs)[:400],
                ("changed: " + side["changed"]) if side["changed"] else ""), rp)
    ctx.note("recorded_runs_judged_by_tlc", len(recs))
    ctx.note("recorded_runs_rejected", rejected)


def _keep(ctx, k, v, cap=3):
    """Keep a few examples per kind of drift."""
    lst = ctx.extra.setdefault(k, {}).setdefault(str(v.get("key", "")).split(":")[0] if not str(v.get("key", "")).startswith("B:")
                                                 else v["key"], [])
    if len(lst) < cap:
        lst.append(v)


# ----------------------------------------------------------------------------------------------
# CLI scenario: a list that fails validation is reported and nothing is executed
# ----------------------------------------------------------------------------------------------
def cli_never_partial(c, work):
    """run_remodel on a data directory with the case's tables and its (invalid) list: must raise with messages and
    leave every file byte-identical."""
    from hed.tools.remodeling.cli import run_remodel
    root = os.path.join(work, "cli")
    shutil.rmtree(root, ignore_errors=True)
    os.makedirs(root)
    files = {}
    tables = c["tables"] if len(c["tables"]) > 1 else c["tables"] * 2
    for i, tsv in enumerate(tables):
        p = os.path.join(root, "sub-%02d_task-t_events.tsv" % (i + 1))
        with open(p, "w", newline="") as fh:
            fh.write(tsv)
        files[p] = tsv
    model = os.path.join(work, "cli_rmdl.json")
    with open(model, "w") as fh:
        json.dump(c["ops"], fh)
    try:
        with warnings.catch_warnings():
            warnings.simplefilter("ignore")
            run_remodel.main([root, model, "-nb", "-ns"])
        outcome = "completed"
    except BaseException as ex:          # argparse may SystemExit
        outcome = "%s: %s" % (type(ex).__name__, str(ex)[:300])
    changed = [os.path.basename(p) for p, t in files.items() if open(p, newline="").read() != t]
    extra = sorted(set(os.listdir(root)) - {os.path.basename(p) for p in files})
    shutil.rmtree(root, ignore_errors=True)
    return outcome, changed, extra


# ----------------------------------------------------------------------------------------------
def run(ctx):
    quick = ctx.quick
    ctx.rule = ("cases = (operation list from the JSON specification: every flag setting, optional parameters present/absent, "
                "structural faults, rule violations) x (1-3 small tables with n/a, numeric-looking and duplicate values, "
                "different column sets) x (every processing order of length 2-3 with repetition), all enumerated by TLC "
                "from MC_Remodel.tla, plus seeded random deeper cases recorded from the real code and judged by TLC; "
                "distinct = distinct (operation list, tables, order); non-trivial = the expected outcome differs from the "
                "input table, is a documented error, or the list is invalid")
    import hed  # noqa: F401   (import once; children are forked)
    import hed.tools.remodeling.cli.run_remodel  # noqa: F401
    from hed.tools.remodeling.remodeler_validator import RemodelerValidator
    from concurrent.futures import ThreadPoolExecutor
    _G["work"] = ctx.work
    _G.pop("validator", None)
    mpctx = mp.get_context("fork")
    # the worker processes are forked BEFORE any thread exists; TLC JVMs are then started side by side from threads
    with mpctx.Pool(14) as pool, ThreadPoolExecutor(8) as ex:
        # ---- 1. TLC: sensitivity, coverage (small model), invariants + case emission ----
        jobs = [("sens", "MC_RemodelSmall", "MC_RemodelSmall_leaky_params.cfg",
                 dict(workers=2, expect_ok=False, label="sensitivity: an operation that keeps per-file state must violate ParamsConstant")),
                ("sens", "MC_RemodelSmall", "MC_RemodelSmall_leaky_order.cfg",
                 dict(workers=2, expect_ok=False, label="sensitivity: ... and OrderIndependent")),
                ("design", "MC_RemodelSmall", "MC_RemodelSmall.cfg",
                 dict(workers=2, coverage=True, label="design run with coverage (small model)", timeout=900)),
                ("gen", "MC_Remodel", "MC_Remodel_unit_q.cfg" if quick else "MC_Remodel_unit_t.cfg",
                 dict(workers=1, timeout=2400, heap="6g",
                      label="invariants + emission: single operations x tables, each table run twice")),
                ("gen", "MC_Remodel", "MC_Remodel_seq_q.cfg" if quick else "MC_Remodel_seq_t.cfg",
                 dict(workers=1, timeout=2400, heap="6g",
                      label="invariants + emission: lists of 2-3 operations x 1-3 tables x all orders"))]
        # (a metadir of its own for every JVM: they start within the same millisecond)
        futs = [ex.submit(ctx.tlc, mod, cfg, workdir=os.path.join(ctx.work, "tlc%d" % n), **kw)
                for n, (_, mod, cfg, kw) in enumerate(jobs)]
        # ---- 2. binding B, recording part: the pool is idle while TLC enumerates ----
        recs = pool.map(_record_job, b_cases(ctx.rng, 300 if quick else 6000), chunksize=16)
        fut_b = ex.submit(b_judge, ctx, recs, os.path.join(ctx.work, "tlcB"))
        # ---- 3. binding A: replay the emitted cases as soon as a model is finished ----
        sens = {}
        concs = []
        pending = []
        n = 0
        for (kind, mod, cfg, kw), fut in zip(jobs, futs):
            r = fut.result()
            if kind == "sens":
                want = "ParamsConstant" if "params" in cfg else "OrderIndependent"
                sens[cfg] = r.violated
                if r.violated != want:
                    raise tlc.TLCFailure("sensitivity run %s should violate %s, got %s" % (cfg, want, r.violated))
            elif kind == "design":
                if not r.coverage.get("Next", (0, 0))[1]:
                    raise tlc.TLCFailure("vacuous design run: no Run step was taken (%s)" % (r.coverage,))
            else:
                if not r.json_lines:
                    raise tlc.TLCFailure("no cases emitted by %s" % cfg)
                part = []
                for j in r.json_lines:
                    n += 1
                    part.append((j, concretise(j, "file" if n % 3 == 0 else "df")))
                r.json_lines = []
                r.stdout = ""
                concs += part
                pending.append(pool.map_async(_job, [c for _, c in part], chunksize=32))
        ctx.note("defective_designs_rejected_by_spec", sens)
        ctx.exhaustive = True
        res = []
        for p in pending:
            res += p.get()
        drift = 0
        executed = steps = invalid = ties = 0
        kinds = {}
        for j, c in concs:
            for e in j["exp"]:
                kinds[e["k"]] = kinds.get(e["k"], 0) + 1
            if not j["valid"]:
                kinds["invalid-list"] = kinds.get("invalid-list", 0) + 1
        ctx.note("expected_outcomes_by_kind", kinds)        # non-vacuity of ValidImpliesRuns / InvalidNeverExecutes
        for (j, c), r in zip(concs, res):
            if "crash" in r:
                raise RuntimeError("harness failure on case %s: %s" % (json.dumps(c["ops"]), r["crash"]))
            ctx.case(sha([j["ops"], j["tabs"], j["order"], c["flavour"]]), nontrivial=_nontrivial(j))
            if r["info"]["executed"]:
                executed += 1
                ctx.traces += 1
                steps += r["info"]["steps"]
                ties += r["info"].get("tie_equivalent", 0)
            elif not c["valid"]:
                invalid += 1
            for level, key, text in r["F"]:
                if level == "violation":
                    ctx.violation(_attribute(key, ctx._seen_v), text, dict(_replay_obj(c), mode="case"))
                else:
                    drift += 1
                    ctx.bump("spec_drift")
                    kinds = ctx.extra.setdefault("spec_drift_kinds", {})
                    kinds[key.split(":")[0]] = kinds.get(key.split(":")[0], 0) + 1
                    _keep(ctx, "spec_drift_examples", {"key": key, "text": text[:500]})
        ctx.note("tlc_cases", len(concs))
        ctx.note("cases_executed_on_dispatcher", executed)
        ctx.note("dispatcher_runs", steps)
        ctx.note("results_equal_up_to_order_of_equal_onset_rows", ties)
        ctx.note("invalid_lists_reported_not_executed", invalid)
        # ---- 4. invalid lists through the command-line program: reported, nothing executed ----
        _G["validator"] = RemodelerValidator()
        ncli = 0
        for j, c in concs:
            if c["valid"] or not c["ops"] or (len(c["ops"]) == 1 and ncli >= (12 if quick else 60)):
                continue
            ncli += 1
            outcome, changed, extra = cli_never_partial(c, ctx.work)
            lab = ";".join("%s:%s:%s" % (s[0], f[0], f[1]) for s, f in zip(c["sigs"], c["faults"]))
            ctx.case("cli:" + sha(c["ops"]))
            if changed or extra:
                ctx.violation("partially-executed:" + lab,
                              "run_remodel with a list that fails validation changed %s / created %s (outcome %s); ops=%s" % (
                                  changed, extra, outcome, json.dumps(c["ops"])), dict(_replay_obj(c), mode="cli"))
            elif not outcome.startswith("ValueError"):
                ctx.violation("invalid-not-reported:" + lab,
                              "run_remodel with a list that fails validation ended with %r instead of reporting the messages; ops=%s" % (
                                  outcome, json.dumps(c["ops"])), dict(_replay_obj(c), mode="cli"))
        ctx.note("cli_invalid_list_scenarios", ncli)
        # ---- 5. binding B, verdicts ----
        b_report(ctx, recs, fut_b.result())
    # ---- 6. KeyMap.tla: the lookup table behind remap_columns as a state machine (update / resort histories on one object) ----
    from .. import keymap
    ctx.tlc("MC_KeyMap", "MC_KeyMap.cfg", workers=8, label="design: KeyMap machine (PosExact, FirstWins, Counts, Sorted, FirstSeenOrder)")
    for vc, inv in (("MC_KeyMap_vac1.cfg", "NeverRepeats"), ("MC_KeyMap_vac2.cfg", "NeverResorted")):
        rv = ctx.tlc("MC_KeyMap", vc, workers=2, expect_ok=False, label="vacuity guard: %s must be violated" % inv)
        if not rv.violated:
            raise tlc.TLCFailure("KeyMap.tla: %s should be violated" % inv)
    kjobs = []
    for keys, order, fed, kcols, take in ((("Keys1", "Order1", "KeysFed1", ["a"], 6 if quick else None)),
                                          (("Keys2", "Order2", "Keys2", ["a", "b"], None if quick else 3)),
                                          (("Keys3", "Order3", "KeysFed3", ["a", "b"], None))):
        kcfg = ctx.cfg("MC_KeyMap_gen.cfg", ("Keys <- Keys1", "Keys <- " + keys), ("KeyOrder <- Order1", "KeyOrder <- " + order),
                       ("FedKeys <- KeysFed1", "FedKeys <- " + fed),
                       ("MaxRows = 2", "MaxRows = 1" if (quick and keys != "Keys1") else "MaxRows = 2"))
        rk = ctx.tlc("MC_KeyMap", kcfg, workers=1, timeout=1800, label="KeyMap histories (%s)" % keys)
        order_v = {"Order1": [["x"], ["y"], ["z"]], "Order2": [["a", "2"], ["x", "1"], ["x", "2"]],
                   "Order3": [["a", "2"], ["x", "11"], ["x1", "1"]]}[order]
        kjobs += keymap.jobs_from(rk.json_lines, kcols, order_v, 3, ctx.seed, take)
    with mpctx.Pool(14) as pool:
        kres = pool.map(keymap.run_history, kjobs, chunksize=8)
    for job, probs in zip(kjobs, kres):
        ctx.case("keymap:" + json.dumps(job["hist"], sort_keys=True), nontrivial=True)
        ctx.traces += 1
        for kind, text in probs:
            ctx.violation(kind, text, {"mode": "keymap", "job": job})
    ctx.note("keymap_histories_replayed", len(kjobs))
    for j, c in [concs[i] for i in (len(concs) // 7, len(concs) // 2, len(concs) - 5) if i < len(concs)]:
        ctx.sample({"ops": c["ops"], "tables": c["tables"], "order": c["order"], "valid": c["valid"],
                    "expected": [_show(e) for e in c["expected"]], "flavour": c["flavour"]})
    if ctx.extra.get("spec_drift"):
        print("SPEC-DRIFT C17: %d disagreements on details beyond the property statement (see evidence: spec_drift_kinds)"
              % ctx.extra["spec_drift"])
    ctx.assumptions += [
        "cells are text as in a .tsv file; tables reach the code the way the remodeler reads files (pandas type inference on "
        "all-numeric columns); results are compared as text with numbers in canonical form (2.0 = 2)",
        "parameter values that are compared with cells (remove_values, event_code, factor_values, map keys) are strings; "
        "'n/a' is the missing-value marker and is not used as a parameter value",
        "onset/duration arithmetic over small non-negative integers (TLC integers); onset cells are always numeric",
        "outcomes the documentation does not define (named column absent without a covering flag, name clashes, values of "
        "another kind) are 'any': only purity and repeatability are checked there",
        "one case in three is passed to run_operations as a file path (bytes compared before/after), the others as DataFrame"]


def selftest(ctx):
    """Show that the binding can fail: a corrupted expectation (A) and a corrupted recording (B) are both rejected."""
    import hed  # noqa: F401
    from hed.tools.remodeling.remodeler_validator import RemodelerValidator
    _G["work"] = ctx.work
    _G["validator"] = RemodelerValidator()
    os.makedirs(os.path.join(ctx.work, "st"), exist_ok=True)
    op = _w({"op": "remove_columns", "column_names": ["b"], "ignore_missing": True})
    tab = {"cols": ["a", "b"], "rows": [{"a": "x", "b": NA}, {"a": "1", "b": "y"}]}
    good = {"k": "ok", "cols": ["a"], "rows": [{"a": "x"}, {"a": "1"}], "e": "", "d": False, "u": False}
    bad = dict(good, rows=[{"a": "x"}, {"a": "2"}])
    ok = True
    for exp, want in ((good, 0), (bad, 1)):
        j = {"ops": [op], "tabs": [tab], "order": [1, 1], "exp": [exp, exp], "valid": True, "bad": []}
        F, _ = check_concrete(concretise(j, "df"), os.path.join(ctx.work, "st"))
        n = len([1 for lvl, _, _ in F if lvl == "violation"])
        print("selftest A: expectation %s -> %d violation(s)" % ("faithful" if not want else "corrupted", n))
        ok = ok and (n > 0) == bool(want)
    rec, conc, side = _record_job({"ops": [op], "tabs": [tab], "order": [1, 1]})
    rec2 = json.loads(json.dumps(rec))
    rec2["obs"][1]["rows"][0]["a"] = "corrupted"
    r = b_judge(ctx, [(rec, conc, side), (rec2, conc, side)], os.path.join(ctx.work, "tlcB"))
    acc = set(int(m.group(2)) for m in _RE_VERDICT.finditer(r.stdout) if m.group(1) == "ACCEPT")
    rej = set(int(m.group(2)) for m in _RE_VERDICT.finditer(r.stdout) if m.group(1) == "REJECT")
    print("selftest B: faithful recording %s, corrupted recording %s" % (
        "accepted" if 1 in acc else "REJECTED", "rejected" if 2 in rej else "ACCEPTED"))
    ok = ok and 1 in acc and 2 in rej and 1 not in rej
    shutil.rmtree(ctx.work, ignore_errors=True)
    print("selftest " + ("passed" if ok else "FAILED"))
    return 0 if ok else 1


def replay(obj):
    import hed  # noqa: F401
    from hed.tools.remodeling.remodeler_validator import RemodelerValidator
    work = os.path.join(tlc.VERIF, ".work", "C17replay")
    shutil.rmtree(work, ignore_errors=True)
    os.makedirs(work)
    _G["work"] = work
    _G["validator"] = RemodelerValidator()
    try:
        mode = obj.get("mode", "case")
        if mode == "keymap":
            from .. import keymap
            p = keymap.run_history(obj["job"])
            return (not p), "; ".join(t for _, t in p) or "agrees with KeyMap.tla"
        if mode == "cli":
            outcome, changed, extra = cli_never_partial(obj, work)
            bad = bool(changed or extra) or not outcome.startswith("ValueError")
            return (not bad), "run_remodel outcome %r, files changed %s, created %s" % (outcome, changed, extra)
        if mode == "recorded":
            # re-run and compare with what was recorded when TLC rejected it
            from hed.tools.remodeling.dispatcher import Dispatcher
            ops = copy.deepcopy(obj["ops"])
            obs = []
            try:
                disp = Dispatcher(ops, data_root=None, backup_name=None, hed_versions=None)
            except Exception as ex:
                return False, "construction raises %s: %s" % (type(ex).__name__, ex)
            for f in obj["order"]:
                try:
                    with warnings.catch_warnings():
                        warnings.simplefilter("ignore")
                        p = project(disp.run_operations(_mkdf(obj["tables"][f])))
                    obs.append({"k": "ok", "e": "", "cols": p["cols"], "rows": p["rows"]})
                except Exception as ex:
                    obs.append({"k": "exc", "e": type(ex).__name__, "cols": [], "rows": []})
            st = obj["step"] - 1
            same = 0 <= st < len(obs) and st < len(obj["observed"]) and obs[st] == obj["observed"][st] or \
                (obj["clause"] in ("pure", "valid") and _fmt_ops(ops) != _fmt_ops(obj["ops"]))
            return (not same), "clause %s at step %d: now observed %s" % (obj["clause"], obj["step"],
                                                                          json.dumps(obs[st] if 0 <= st < len(obs) else None)[:400])
        F, info = check_concrete(obj, work)
        v = [(k, t) for lvl, k, t in F if lvl == "violation"]
        if v:
            return False, "; ".join("%s: %s" % (k, t[:400]) for k, t in v[:3])
        return True, "case runs as the specification prescribes (%d dispatcher runs)" % info["steps"]
    finally:
        shutil.rmtree(work, ignore_errors=True)
