"""C08 — sidecar validation is total and flags each structural fault.

TLC: specs/SidecarRules.tla — JSON value grammar (depth 3, <= 2 members per container, node budget),
column typing, one predicate per structural rule of the statement, verdict
arbitrary | clean | one-fault(rule, codes), and a fault-injection layer (one action per rule) over
clean base sidecars.  TLC checks: the rule set is total over every enumerated document, the code's
typing agrees with the rules, bases are clean, ONE injection breaks exactly the rule it is named
after (design run + sensitivity run with a rule left out).

Binding A: every document TLC emits (grammar documents, clean bases, bases with one or two stacked
injections) is rendered to JSON text and run through Sidecar(io.StringIO(text)).validate(schema):
it must return a list and never raise; `clean` documents must carry no error-severity issue;
`one-fault` documents must carry an error-severity issue whose code is in the set the spec gives
for the broken rule.  The class and the codes come from TLC, Python only renders and compares.
"""
import io
import json
import multiprocessing as mp
import os
import traceback

from .. import facts, tlc

EC_COL, EC_KEY = "ec_sidecarColumnName", "ec_sidecarKeyName"
INJECT_ACTIONS = ["InjHedType", "InjValueHash", "InjCatHash", "InjHedColumn", "InjNaKey",
                  "InjBrace", "InjRefUnknown", "InjRefSelf", "InjRefNested"]
RULES = ["hedType", "valueOneHash", "catNoHash", "hedNotColumn", "naNotKey",
         "refBalanced", "refKnown", "refNotSelf", "refNotNested"]
_G = {}


# ----------------------------------------------------------------------------------------------
# vocabulary (from the schema XML, independent of hed): tags that are valid on their own
def vocabulary(version="8.3.0"):
    f = facts.load(version)
    plain, valued = [], []
    short = f.short_unique()
    for t in f.real_tags():
        if short.get(t["name"].casefold()) != t["long"]:
            continue
        if any(a in t["inh"] for a in ("requireChild", "unique", "required", "tagGroup", "topLevelTagGroup",
                                       "reserved", "deprecatedFrom")):
            continue
        if not t["name"].replace("-", "").isalnum():
            continue
        vc = f.value_child(t)
        if vc is None:
            if not t["children"]:
                plain.append(t["name"])
        else:
            a = vc["attrs"]
            if "unitClass" not in a and "deprecatedFrom" not in a and a.get("valueClass") in (["numericClass"], ["textClass"], ["nameClass"]):
                valued.append(t["name"] + "/#")
    return plain, valued


# ----------------------------------------------------------------------------------------------
# concretisation: TLC encoding -> Python object -> JSON text
def _seq(x):
    """ToJson may render a 1..n function as an array or as an object keyed "1".."n"."""
    if isinstance(x, dict):
        return [x[k] for k in sorted(x, key=int)]
    return x


XDEF = "(Definition/Xexp/#, (Item-count/#, Square))"      # declared outside the sidecar (extra_def_dicts)


def depth_of(enc):
    if isinstance(enc, str):
        return 0
    kids = _seq(enc["l"]) if "l" in enc else [p[1] for p in _seq(enc["o"])]
    return 1 + max([depth_of(k) for k in kids], default=0)


class Concretiser:
    def __init__(self, plain, valued):
        self.plain, self.valued = plain, valued

    def render(self, enc, rot):
        """enc: the spec's document encoding; rot: rotation into the vocabulary (coverage)."""
        self.k = 0
        self.rot = rot
        return self._val(enc)

    def _plain(self):
        self.k += 1
        return self.plain[(self.rot * 7 + self.k) % len(self.plain)]

    def _valued(self, first=False):
        self.k += 1
        if first:       # ONE placeholder may also be written as a valued Def or as its expanded group (two '#', one placeholder)
            m = (self.rot + self.k) % 7
            if m == 0:
                return "Def/Xexp/#"
            if m == 1:
                return ["(Def-expand/Xexp/#, (Item-count/#, Square))", "((Square, Item-count/#), Def-expand/Xexp/#)"][self.rot % 2]
        return self.valued[(self.rot * 5 + self.k) % len(self.valued)]

    def _string(self, h, r, b, d):
        parts = []
        if r:
            parts.append("{%s}" % r)
        if b == "open":
            parts.append("{" + self._plain())
        elif b == "close":
            parts.append(self._plain() + "}")
        for j in range(h):
            parts.append(self._valued(first=(j == 0)))
        if d:
            self.k += 1
            parts.append("(Definition/Cdef%d/#, (%s, %s))" % (self.k, self._valued(), self._plain()))
        if not parts or (h == 0 and not d and b == "ok" and (self.rot + self.k) % 2 == 0) or (h > 0 and self.rot % 3 == 0):
            parts.append(self._plain())
        if self.rot % 4 == 1 and len(parts) > 1:
            parts.reverse()
        return ", ".join(parts)

    def _val(self, enc):
        if isinstance(enc, str):
            if enc.startswith("S|"):
                _, h, r, b, d = enc.split("|")
                return self._string(int(h), r, b, d == "1")
            self.k += 1
            if enc == "estr":
                return ""
            if enc == "num":
                return [3, 0, 2.5, -1][(self.rot + self.k) % 4]
            if enc == "bool":
                return (self.rot + self.k) % 2 == 0
            if enc == "null":
                return None
            raise ValueError(enc)
        if "l" in enc:
            return [self._val(x) for x in _seq(enc["l"])]
        return {p[0]: self._val(p[1]) for p in (_seq(q) for q in _seq(enc["o"]))}


# ----------------------------------------------------------------------------------------------
# execution against the real code
def _init():
    from hed import load_schema_version
    from hed.models.sidecar import Sidecar
    from hed.models.definition_dict import DefinitionDict
    _G["schema"] = load_schema_version("8.3.0")
    _G["Sidecar"] = Sidecar
    _G["dd"] = DefinitionDict(XDEF, _G["schema"])


def run_text(text):
    """-> {"raised": name, "msg":, "where":} | {"notlist": type} | {"issues": [(code, severity, column, key)]}"""
    try:
        issues = _G["Sidecar"](io.StringIO(text)).validate(_G["schema"], extra_def_dicts=_G["dd"])
    except Exception as ex:  # noqa  (the property: no exception of any type)
        tb = [fr for fr in traceback.extract_tb(ex.__traceback__) if "/hed/" in fr.filename]
        where = "%s:%d" % (tb[-1].filename.split("/hed/", 1)[-1], tb[-1].lineno) if tb else "?"
        return {"raised": type(ex).__name__, "msg": str(ex)[:160], "where": "hed/" + where}
    if not isinstance(issues, list):
        return {"notlist": type(issues).__name__}
    return {"issues": [(str(i.get("code")), i.get("severity", 1), i.get(EC_COL), i.get(EC_KEY))
                       if isinstance(i, dict) else ("<not a dict: %s>" % type(i).__name__, 1, None, None) for i in issues]}


def judge(case, out):
    """Compare the real outcome with the spec's verdict.  -> (violations [(key, text)], drift [text])"""
    text, cls, why = case["text"], case["cls"], case["why"]
    shape = why if why not in ("multi-fault", "one-fault") else "+".join(sorted(case["broken"]))
    if "raised" in out:
        return [("raises:%s:%s" % (out["raised"], shape),
                 "Sidecar(%s).validate(schema) raised %s: %s at %s (document class: %s)"
                 % (text, out["raised"], out["msg"], out["where"], shape))], []
    if "notlist" in out:
        return [("returns-not-a-list:%s" % out["notlist"], "validate of %s returned a %s, not a list" % (text, out["notlist"]))], []
    errs = [i for i in out["issues"] if i[1] == 1]
    if cls == "clean":
        if errs:
            codes = sorted({i[0] for i in errs})
            return [("clean-sidecar-rejected:%s" % "+".join(codes),
                     "sidecar %s obeys every structural rule and is built from valid annotations, but validation reports "
                     "error(s) %s" % (text, codes))], []
        return [], []
    if cls == "one-fault":
        f = case["broken"][0]
        hit = [i for i in errs if i[0] in case["codes"]]
        if not hit:
            seen = sorted({i[0] for i in errs})
            return [("fault-not-flagged:%s" % f,
                     "sidecar %s breaks exactly the rule %s; expected an error-severity issue with code in %s, "
                     "validation reported %s" % (text, f, sorted(case["codes"]), seen or "no error"))], []
        drift = []
        if f not in ("refNotSelf", "refNotNested"):        # those two are reported without a column context
            cols = {a[0] for a in case["at"]}
            keys = {a[1] for a in case["at"]}
            if not any(i[2] in cols and (i[3] is None or i[3] in keys) for i in hit):
                drift.append("%s: rule %s broken at %s, reported at %s" % (text, f, sorted(case["at"]),
                                                                          [(i[2], i[3]) for i in hit]))
        return [], drift
    return [], []


def _work(case):
    return judge(case, run_text(case["text"]))


# ----------------------------------------------------------------------------------------------
def _tlc_gen(ctx, cfg, label, workers):
    r = ctx.tlc("MC_SidecarRules", cfg, workers=workers, label=label, timeout=1500)
    if len(r.json_lines) != r.distinct:
        raise tlc.TLCFailure("%s: %d states but %d decodable emitted lines" % (cfg, r.distinct, len(r.json_lines)))
    return r.json_lines


def run(ctx):
    quick = ctx.quick
    ctx.rule = ("cases = JSON documents emitted by TLC: (a) every document of the value grammar (scalars: valid HED, "
                "HED with '#', HED with reference to colA/colB, unbalanced brace, empty string, number, bool, null; "
                "lists and objects with <= 2 members, keys from 7 names) with container depth <= 3 and <= 4 nodes, "
                "plus (thorough) <= 5 nodes over a reduced alphabet; (b) every clean base sidecar (1-2 columns: value / "
                "categorical with 1-2 categories / ignored / definitions, with references) and every document reachable "
                "from one by 1 or 2 fault injections; distinct = distinct document; non-trivial = not a bare scalar and "
                "(for the classes clean / one-fault) judged by code")
    # ---- model level
    if quick:
        ctx.tlc("MC_SidecarRules", "MC_SidecarRules_q.cfg", workers=8, coverage=True,
                label="design: small bases, 2 stacked injections, all invariants", timeout=600)
    else:
        ctx.tlc("MC_SidecarRules", "MC_SidecarRules.cfg", workers=12, coverage=True,
                label="design: all bases, 2 stacked injections, all invariants", timeout=1500)
    never = [a for a in INJECT_ACTIONS if ctx.actions.get(a, (0, 0))[1] == 0]
    if never:
        raise tlc.TLCFailure("fault actions never taken (vacuous model): %s" % never)
    for drop in (["refNotSelf"] if quick else ["refNotSelf", "naNotKey", "valueOneHash"]):
        cfgname = "MC_SidecarRules_drop_%s.cfg" % drop
        r = ctx.tlc("MC_SidecarRules", cfgname, workers=4, expect_ok=False,
                    label="sensitivity: rule %s left out of the rule set" % drop, timeout=600)
        if not r.violated:
            raise tlc.TLCFailure("SidecarRules without rule %s should violate FaultExact" % drop)
        ctx.note("sensitivity_drop_%s" % drop, r.violated)

    # ---- generation
    docs = {}

    def add(lines, origin):
        for j in lines:
            k = json.dumps(j["doc"], sort_keys=True)
            if k not in docs:
                docs[k] = {"enc": j["doc"], "cls": j["cls"], "why": j["why"], "broken": sorted(j["broken"]),
                           "codes": sorted(j["codes"]), "at": [tuple(a) for a in j["at"]], "origin": origin}
            elif (docs[k]["cls"], docs[k]["broken"]) != (j["cls"], sorted(j["broken"])):
                raise tlc.TLCFailure("two verdicts for one document %s" % k)

    add(_tlc_gen(ctx, "MC_SidecarRules_grammar.cfg", "grammar: depth 3, <= 4 nodes, full alphabet (+Total, TypingSound)", 8), "grammar")
    if not quick:
        add(_tlc_gen(ctx, "MC_SidecarRules_grammar5.cfg", "grammar: depth 3, <= 5 nodes, reduced alphabet", 8), "grammar5")
    add(_tlc_gen(ctx, "MC_SidecarRules_gen1.cfg", "fault layer: all bases, one injection", 8), "faults1")
    add(_tlc_gen(ctx, "MC_SidecarRules_gen2q.cfg" if quick else "MC_SidecarRules_gen2.cfg",
                 "fault layer: two stacked injections", 8 if quick else 14), "faults2")
    ctx.exhaustive = True
    ctx.note("documents_emitted", len(docs))

    # ---- selection (quick: every document of depth <= 2, a seeded quarter of the deeper grammar documents)
    keys = sorted(docs)
    chosen = []
    for n, k in enumerate(keys):
        d = docs[k]
        if quick and d["origin"] == "grammar" and d["cls"] == "arbitrary" and depth_of(d["enc"]) >= 3 \
                and (n + ctx.seed) % 4 != 0:
            continue
        if quick and d["origin"] == "grammar" and d["why"] == "column-entry-not-object" and (n + ctx.seed) % 3 != 0:
            continue
        chosen.append(k)
    ctx.note("documents_replayed", len(chosen))

    # ---- concretise
    plain, valued = vocabulary()
    ctx.note("vocabulary", {"plain_tags": len(plain), "value_tags": len(valued)})
    conc = Concretiser(plain, valued)
    cases = []
    for n, k in enumerate(chosen):
        d = docs[k]
        obj = conc.render(d["enc"], n + ctx.seed)
        cases.append({"text": json.dumps(obj), "cls": d["cls"], "why": d["why"], "broken": d["broken"],
                      "codes": d["codes"], "at": d["at"], "origin": d["origin"]})

    # ---- replay
    _init()
    with mp.get_context("fork").Pool(14) as pool:
        results = pool.map(_work, cases, chunksize=200)
    per_class, per_rule, drift_examples = {}, {}, []
    raising = {}
    for c, (viol, drift) in zip(cases, results):
        per_class[c["cls"]] = per_class.get(c["cls"], 0) + 1
        if c["cls"] == "one-fault":
            per_rule[c["broken"][0]] = per_rule.get(c["broken"][0], 0) + 1
        ctx.case(c["text"], nontrivial=c["why"] != "top-level-not-object" or c["text"][0] in "[{")
        ctx.traces += 1
        for key, text in viol:
            if key.startswith("raises:"):
                raising[key] = raising.get(key, 0) + 1
            ctx.violation(key, text, {"text": c["text"], "cls": c["cls"], "why": c["why"], "broken": c["broken"],
                                      "codes": c["codes"], "at": c["at"]})
        for t in drift:
            ctx.bump("spec_drift")
            if len(drift_examples) < 5:
                drift_examples.append(t)
    ctx.note("spec_drift", ctx.extra.get("spec_drift", 0))
    ctx.note("spec_drift_examples", drift_examples)
    ctx.note("replayed_per_class", per_class)
    ctx.note("one_fault_per_rule", per_rule)
    ctx.note("raising_documents_per_key", raising)
    missing = [f for f in RULES if not per_rule.get(f)]
    if missing or not per_class.get("clean") or not per_class.get("arbitrary"):
        raise tlc.TLCFailure("vacuous replay: rules without a one-fault document %s, classes %s" % (missing, per_class))
    shown = set()
    for c in cases:
        tag = (c["cls"], c["broken"][0] if c["cls"] == "one-fault" else c["why"])
        if tag not in shown and len(c["text"]) > 20:
            shown.add(tag)
            ctx.sample({"json": c["text"], "class": c["cls"], "why": c["why"], "broken": c["broken"], "codes": c["codes"]}, cap=8)
    ctx.assumptions += [
        "a 'well-typed' sidecar is an object of objects whose HED entries hold no empty string / empty map and whose other "
        "members do not mention the key HED; only for those are codes compared (clean: no error; exactly one rule broken: "
        "that rule's code); every other document is only required to return a list",
        "codes per rule: '#' count -> PLACEHOLDER_INVALID; HED column / n/a key -> SIDECAR_INVALID; the four brace and reference "
        "rules -> SIDECAR_BRACES_INVALID; HED entry type -> SIDECAR_INVALID or the implementation's own names "
        "sidecarUnknownColumn / wrongHedDataType / blankValueString (the statement names no code for it)",
        "'#' inside a Definition group does not count for the categorical rule (columns of definitions are clean)",
        "annotation strings are drawn round-robin from the schema 8.3.0 vocabulary read by vf/facts.py, distinct within one document",
    ]


def selftest(ctx):
    """Show that the binding can fail: swap the expected class of emitted documents and check that judge() objects."""
    lines = _tlc_gen(ctx, "MC_SidecarRules_gen2q.cfg", "selftest: small fault layer", 4)
    plain, valued = vocabulary()
    conc = Concretiser(plain, valued)
    _init()
    bad = 0
    tried = {"one-fault-as-clean": 0, "clean-as-one-fault": 0, "wrong-code": 0}
    for n, j in enumerate(sorted(lines, key=lambda x: json.dumps(x["doc"], sort_keys=True))[:600]):
        case = {"text": json.dumps(conc.render(j["doc"], n)), "cls": j["cls"], "why": j["why"], "broken": sorted(j["broken"]),
                "codes": sorted(j["codes"]), "at": [tuple(a) for a in j["at"]]}
        out = run_text(case["text"])
        if "issues" not in out:
            continue
        if j["cls"] == "one-fault":
            swapped = [dict(case, cls="clean", why="clean", broken=[], codes=[]), dict(case, codes=["NO_SUCH_CODE"])]
            names = ["one-fault-as-clean", "wrong-code"]
        elif j["cls"] == "clean":
            swapped = [dict(case, cls="one-fault", why="one-fault", broken=["naNotKey"], codes=["SIDECAR_INVALID"], at=[("colA", "n/a")])]
            names = ["clean-as-one-fault"]
        else:
            continue
        if judge(case, out)[0]:
            continue            # a genuine disagreement: not what the self-test is about
        for nm, sw in zip(names, swapped):
            tried[nm] += 1
            if not judge(sw, out)[0]:
                bad += 1
                print("SELFTEST-MISS %s: %s" % (nm, case["text"]))
    print("C08 selftest: corrupted expectations tried %s, not detected %d" % (tried, bad))
    return 1 if bad or not all(tried.values()) else 0


def replay(obj):
    _init()
    out = run_text(obj["text"])
    obj = dict(obj, at=[tuple(a) for a in obj.get("at", [])])
    viol, _ = judge(obj, out)
    if viol:
        return False, "; ".join(t for _, t in viol)
    return True, "%s: outcome %s agrees with the specification (%s)" % (obj["text"], out, obj["cls"])
