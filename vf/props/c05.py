"""C05 — schemas survive saving and reloading in every format.

TLC: specs/SchemaStore.tla — abstract schemas (tags with parent / attribute-value pairs / description kind /
inLibrary and rooted markers, unit classes, units, other sections, header), edit actions, the writer's decision
table `Written(s, merged, fmt)` (which entries and attributes are written, level adjustment of rooted sub-trees,
the three encodings of the tree used by XML / MediaWiki / TSV) and the loader `Loaded(file)` (partner re-loaded,
inLibrary re-added, rooted sub-trees re-attached).  Design runs check RoundTrip, FormatsAgree, MultiMergeRefuses,
WriterSelects, XmlDeclarative over every schema reachable by <= 2 (quick) / 3 (thorough) edits; four sensitivity
configurations (writer keeps inLibrary, loader does not re-attach, in-memory order "appended", TSV writes the
properties of a partner unit class that only hosts library units) must violate RoundTrip.

Binding
 A1 (zero edits)  every bundled schema that passes compliance is saved with save_as_xml / save_as_mediawiki /
    save_as_dataframes (merged, and unmerged for partnered libraries), reloaded, compared with `==` and across
    formats; every saved XML is read by vf/facts.py and TLC (Trace_SchemaStore.tla) decides whether it lists exactly
    what the writer table prescribes for the ORIGINAL bundled XML (also read by vf/facts.py).
 A2 (edit sequences)  every abstract schema emitted by TLC is rendered as an unmerged library schema in MediaWiki
    text (description strings drawn, seeded, from the allowed character classes per description kind), loaded with
    from_string, saved / reloaded in 3 formats x merged/unmerged, compared with `==`, across formats, and each saved
    XML read by vf/facts.py is compared with the rows TLC emitted for that schema (partner entries: with the partner's
    own XML).
 A3 (several libraries)  TLC's Merge cases and every offline pair of bundled libraries with the same partner: the
    merged schema must refuse every way of saving.

Violation keys (format and cause first, so that one defect = one prefix):
    <fmt>:<Section>:<what>:neq:<merged|unmerged>                            reloaded schema != original (`==`)
    <fmt>:desc:<description kind>:<Section>:neq:<mode>                      ... because a description changed
    <fmt>:<Section>:<field>:state:<mode>  /  <fmt>:desc:<kind>:<Section>:state:<mode>    reloaded library entries != specification state
    <fmt>:<...>:differs-from-<fmt0>:<mode>                                  formats disagree although each equals the original
    <fmt>:raises-save|raises-load:<Exception[:code]>:<mode>
    xml-file:<section>:<library|partner>:<field>[:<kind>]:<mode>            independent reading of the saved XML vs specification
    multimerge:...   second-generation:<key>   bundled:<key>
"""
import copy
import hashlib
import json
import multiprocessing as mp
import os
import random
import re
import shutil
import time

from .. import facts, tlc

PARTNER = "8.3.0"
LEGACY = ("score_1.0.0", "testlib_1.0.2")        # stand-alone libraries with an undeclared inLibrary attribute
FORMATS = ("xml", "mediawiki", "tsv")
_G = {}


# ----------------------------------------------------------------------------------------------------------------
# independent view of an XML file (vf/facts.py)
# ----------------------------------------------------------------------------------------------------------------
def _norm_attrs(d):
    """facts attribute dict -> sorted list of [name, value] pairs (boolean attribute: value "true")"""
    out = []
    for k, v in d.items():
        if v is True:
            out.append([k, "true"])
        else:
            out += [[k, x] for x in v]
    return sorted(out)


def xml_view(path):
    f = facts.Facts(path)
    tags = {}
    dups = 0
    for t in f.tags:
        par = f.by_long[t["parent"]] if t["parent"] else None
        sid = (par["name"] + "/#") if t["name"] == "#" else t["name"]
        if sid in tags:
            dups += 1
        tags[sid] = {"parent": par["name"] if par else "", "attrs": _norm_attrs(t["attrs"]), "desc": t["desc"],
                     "val": t["name"] == "#"}
    ucs, units = {}, {}
    for n, uc in f.unit_classes.items():
        ucs[n] = {"attrs": _norm_attrs(uc["attrs"]), "desc": uc["desc"]}
        for un, u in uc["units"].items():
            if un in units:
                dups += 1
            units[un] = {"uclass": n, "attrs": _norm_attrs(u["attrs"]), "desc": u["desc"]}
    others = {}
    for sect, d, key in (("valueClass", f.value_classes, "attrs"), ("unitModifier", f.modifiers, "attrs"),
                         ("attribute", f.attr_defs, "props"), ("property", f.prop_defs, "props")):
        for n, e in d.items():
            others[sect + ":" + n] = {"sect": sect, "name": n, "attrs": _norm_attrs(e[key]), "desc": e["desc"]}
    hdr = {"library": [f.library] if f.library else [], "withStandard": f.with_standard,
           "unmerged": bool(f.unmerged), "version": f.version}
    return {"hdr": hdr, "tags": tags, "ucs": ucs, "units": units, "others": others, "dups": dups,
            "prologue": f.prologue.strip(), "epilogue": f.epilogue.strip()}


def _h(desc):
    return "none" if not desc else hashlib.sha1(desc.encode("utf-8")).hexdigest()[:12]


def _trace_schema(v):
    """view -> JSON for Trace_SchemaStore (descriptions as hashes: TLC only has to compare them)"""
    return {"hdr": {k: v["hdr"][k] for k in ("library", "withStandard", "unmerged")},
            "tags": [{"name": n, "parent": e["parent"], "attrs": e["attrs"], "desc": _h(e["desc"]), "val": e["val"]}
                     for n, e in v["tags"].items()],
            "ucs": [{"name": n, "attrs": e["attrs"], "desc": _h(e["desc"])} for n, e in v["ucs"].items()],
            "units": [{"name": n, "uclass": e["uclass"], "attrs": e["attrs"], "desc": _h(e["desc"])}
                      for n, e in v["units"].items()],
            "others": [{"name": e["name"], "sect": e["sect"], "attrs": e["attrs"], "desc": _h(e["desc"])}
                       for e in v["others"].values()]}


# ----------------------------------------------------------------------------------------------------------------
# saving / loading through the public API
# ----------------------------------------------------------------------------------------------------------------
def _save(schema, fmt, merged, base):
    if fmt == "xml":
        path = base + ".xml"
        schema.save_as_xml(path, save_merged=merged)
    elif fmt == "mediawiki":
        path = base + ".mediawiki"
        schema.save_as_mediawiki(path, save_merged=merged)
    else:
        path = base + "_tsv"
        shutil.rmtree(path, ignore_errors=True)
        schema.save_as_dataframes(path, save_merged=merged)
    return path


def _exc(ex):
    return "%s: %s" % (type(ex).__name__, re.sub(r"\s+", " ", str(ex))[:160])


def _exc_key(ex):
    code = getattr(ex, "code", None)
    return type(ex).__name__ + (":" + str(code) if isinstance(code, str) else "")


def diagnose(a, b, kinds=None):
    """Name the first difference between two schema objects (class of difference, concrete text)."""
    from hed.schema.hed_schema_constants import HedSectionKey
    kinds = kinds or {}
    if a.get_save_header_attributes() != b.get_save_header_attributes():
        return "header", "header %s vs %s" % (a.get_save_header_attributes(), b.get_save_header_attributes())
    for key in HedSectionKey:
        da, db = a[key].duplicate_names, b[key].duplicate_names
        if bool(da) != bool(db):
            return "%s:duplicate" % key.name, "duplicate entries %s vs %s" % (sorted(da), sorted(db))
    if a.prologue.strip() != b.prologue.strip():
        return "prologue", "prologue %r vs %r" % (a.prologue[:60], b.prologue[:60])
    if a.epilogue.strip() != b.epilogue.strip():
        return "epilogue", "epilogue %r vs %r" % (a.epilogue[:60], b.epilogue[:60])
    order = [HedSectionKey.Properties, HedSectionKey.Attributes, HedSectionKey.UnitModifiers, HedSectionKey.Units,
             HedSectionKey.UnitClasses, HedSectionKey.ValueClasses, HedSectionKey.Tags]
    for key in order + [k for k in HedSectionKey if k not in order]:
        A, B = a[key].all_names, b[key].all_names
        if A == B:
            continue
        miss, extra = sorted(set(A) - set(B)), sorted(set(B) - set(A))
        if miss or extra:
            if key == HedSectionKey.Tags and miss and extra and \
                    {m.split("/")[-1] for m in miss} & {m.split("/")[-1] for m in extra}:
                return "Tags:parent", "node moved: %s became %s" % (miss[:3], extra[:3])
            return "%s:%s" % (key.name, "missing" if miss else "extra"), "missing %s extra %s" % (miss[:4], extra[:4])
        for k in A:
            if A[k] != B[k]:
                ea, eb = A[k], B[k]
                if ea.description != eb.description:
                    sid = ea.name
                    if key == HedSectionKey.Tags:
                        sid = ea.short_tag_name + ("/#" if ea.name.endswith("/#") else "")
                    kd = kinds.get((key.name, sid), "")
                    return ("desc:%s:%s" % (kd or "any", key.name),
                            "%s description %r became %r" % (ea.name, ea.description, eb.description))
                if ea.attributes != eb.attributes:
                    d = sorted(x for x in set(ea.attributes) | set(eb.attributes) if ea.attributes.get(x) != eb.attributes.get(x))
                    return "%s:attrs:%s" % (key.name, d[0]), "%s attributes %s became %s" % (ea.name, ea.attributes, eb.attributes)
                return "%s:entry" % key.name, "%s differs (inherited attributes or units)" % ea.name
    if a._namespace != b._namespace:
        return "namespace", "namespace"
    return "unknown", "schemas compare unequal"


def round_trips(s, base, merged_opts, fmts, kinds=None, strings=True):
    """save/reload s in every format; returns (problems, {(merged, fmt): path}, reloaded objects)"""
    from hed.schema import load_schema, from_string
    prob, paths, objs = [], {}, {}
    for merged in merged_opts:
        ms = "merged" if merged else "unmerged"
        for fmt in fmts:
            try:
                p = _save(s, fmt, merged, "%s_%s" % (base, ms))
                paths[(merged, fmt)] = p
            except Exception as ex:  # noqa
                prob.append(("%s:raises-save:%s:%s" % (fmt, _exc_key(ex), ms), "saving as %s (%s) raised %s" % (fmt, ms, _exc(ex))))
                continue
            try:
                r = load_schema(p)
            except Exception as ex:  # noqa
                prob.append(("%s:raises-load:%s:%s" % (fmt, _exc_key(ex), ms),
                             "the %s file saved %s cannot be loaded again: %s" % (fmt, ms, _exc(ex))))
                continue
            objs[(merged, fmt)] = r
            if not (r == s):
                k, text = diagnose(s, r, kinds)
                prob.append(("%s:%s:neq:%s" % (fmt, k, ms), "saved as %s (%s) and reloaded: not equal to the original: %s" % (fmt, ms, text)))
            elif fmt in ("xml", "mediawiki") and strings:
                # the same format through strings (get_as_*_string / from_string): another reader entry point
                try:
                    txt = s.get_as_xml_string(merged) if fmt == "xml" else s.get_as_mediawiki_string(merged)
                    r2 = from_string(txt, schema_format="." + fmt)
                    if not (r2 == s):
                        k, text = diagnose(s, r2, kinds)
                        prob.append(("%s-string:%s:neq:%s" % (fmt, k, ms), "written to a %s string (%s) and read back with from_string: "
                                     "not equal to the original: %s" % (fmt, ms, text)))
                except Exception as ex:  # noqa
                    prob.append(("%s-string:raises:%s:%s" % (fmt, _exc_key(ex), ms), "the %s string (%s) cannot be read back with "
                                 "from_string: %s" % (fmt, ms, _exc(ex))))
        # formats agree with one another (reported separately only when each reload equals the original, i.e. when the
        # disagreement is not already reported above)
        got = [f for f in fmts if (merged, f) in objs and objs[(merged, f)] == s]
        for f in got[1:]:
            if not (objs[(merged, got[0])] == objs[(merged, f)]):
                k, text = diagnose(objs[(merged, got[0])], objs[(merged, f)], kinds)
                prob.append(("%s:%s:differs-from-%s:%s" % (f, k, got[0], ms),
                             "schemas reloaded from the %s and the %s file (%s) differ: %s" % (got[0], f, ms, text)))
    return prob, paths, objs


# ----------------------------------------------------------------------------------------------------------------
# A1: bundled schemas
# ----------------------------------------------------------------------------------------------------------------
def bundled_case(arg):
    version, path, work = arg
    from hed.schema import load_schema
    out = {"version": version, "problems": [], "saved": {}, "skipped": None}
    s = load_schema(path)
    errors = s.check_compliance(check_for_warnings=False)
    fmts = FORMATS
    if errors:
        if version in LEGACY:
            fmts = ("xml", "mediawiki")
        else:
            out["skipped"] = "does not pass compliance (%d errors)" % len(errors)
            return out
    merged_opts = [True, False] if s.with_standard else [True]
    base = os.path.join(work, "b_" + version)
    prob, paths, _ = round_trips(s, base, merged_opts, fmts)
    out["problems"] = prob
    out["n"] = len(merged_opts) * len(fmts)
    for (merged, fmt), p in paths.items():
        if fmt == "xml":
            try:
                out["saved"]["merged" if merged else "unmerged"] = xml_view(p)
            except Exception as ex:  # noqa
                out["problems"].append(("xml-file:unreadable:%s" % ("merged" if merged else "unmerged"),
                                        "saved XML cannot be read by the independent reader: %s" % _exc(ex)))
    return out


def multimerge_case(arg):
    """Every way of saving a schema merged from several libraries must refuse."""
    versions, work, tag = arg
    from hed.schema import load_schema_version
    from hed.errors.exceptions import HedFileError
    try:
        s = load_schema_version(list(versions))
    except Exception as ex:  # noqa
        return {"versions": versions, "loaded": False, "why": _exc(ex), "problems": []}
    return {"versions": versions, "loaded": True, "library": s.library, "problems": refusals(s, os.path.join(work, tag), HedFileError)}


def refusals(s, base, HedFileError):
    prob = []
    if s.can_save():
        prob.append(("multimerge:can_save", "can_save() is True for library=%r" % s.library))
    for fmt in FORMATS:
        for merged in (True, False):
            b = "%s_%s_%s" % (base, fmt, merged)
            try:
                p = _save(s, fmt, merged, b)
                prob.append(("multimerge:saved:%s" % fmt, "schema merged from libraries %r was saved as %s (save_merged=%s) to %s"
                             % (s.library, fmt, merged, os.path.basename(p))))
            except HedFileError:
                left = [x for x in (b + ".xml", b + ".mediawiki", b + "_tsv") if os.path.exists(x)]
                if left:
                    prob.append(("multimerge:file-left:%s" % fmt, "saving refused but left %s behind" % left))
            except Exception as ex:  # noqa
                prob.append(("multimerge:raises-other:%s:%s" % (fmt, type(ex).__name__),
                             "saving a schema merged from %r as %s raised %s instead of refusing with HedFileError" % (s.library, fmt, _exc(ex))))
    for name in ("get_as_xml_string", "get_as_mediawiki_string", "get_as_dataframes"):
        try:
            getattr(s, name)()
            prob.append(("multimerge:saved:%s" % name, "%s() returned a result for library=%r" % (name, s.library)))
        except HedFileError:
            pass
        except Exception as ex:  # noqa
            prob.append(("multimerge:raises-other:%s:%s" % (name, type(ex).__name__), "%s() raised %s" % (name, _exc(ex))))
    return prob


# ----------------------------------------------------------------------------------------------------------------
# A2: concretiser  (abstract schema from TLC -> MediaWiki text of an unmerged library schema)
# ----------------------------------------------------------------------------------------------------------------
_WORDS = ["a", "The", "item", "of", "sensory", "Event", "x2", "3.5", "value", "is", "in", "HED", "tag", "note", "per", "cent"]
_PUNCT = [".", ";", ":", "-", "(", ")", "/", "%", "+", "?", "!", "_", "'", ","]
_UNI_RANGES = [(0xC0, 0xD6), (0xD8, 0xF6), (0xF8, 0xFF), (0x391, 0x3A1), (0x3B1, 0x3C9), (0x410, 0x44F), (0x5D0, 0x5EA),
               (0x3041, 0x3060), (0x4E00, 0x4E40), (0x1F600, 0x1F620)]
_UNI = [chr(c) for a, b in _UNI_RANGES for c in range(a, b + 1) if chr(c).isprintable()] + list("€→≤°µ…—“”‘’")
# non-ASCII characters the description rules accept although they are separators / invisible: what a line is, or where a
# field ends, must not depend on them (NEL, LINE SEPARATOR, PARAGRAPH SEPARATOR, no-break space, zero-width space)
_UNI_ODD = ["\u0085", "\u2028", "\u2029", "\u00a0", "\u200b"]
_MARK = ["<", ">", "&", "*", "#", "|", "\\", "~", "@", "$", "^", "`", "'''", "&amp;", "<b>", "</i>", "!#", "**", "''", "\\n",
         "%s", "&lt;", "<!--", "-->", "//", "==",
         "&#8203;", "&#8203;", "x&#8203;y", "&#x200b;"]      # the TEXT of a character entity (the wiki format uses this one in names)
DESC_KINDS = ("plain", "eq", "quote", "qstart", "unicode", "markup")


def _word(rng, uni=False):
    if uni:
        w = "".join(rng.choice(_UNI) for _ in range(rng.randint(1, 6)))
        if rng.random() < 0.25:
            k = rng.randrange(1, len(w)) if len(w) > 1 else 1
            w = w[:k] + rng.choice(_UNI_ODD) + w[k:] + rng.choice(_UNI)
        return w
    if rng.random() < 0.5:
        return rng.choice(_WORDS)
    return "".join(rng.choice("abcdefghijklmnopqrstuvwxyzABCDEFGHIJKLMNOPQRSTUVWXYZ0123456789") for _ in range(rng.randint(1, 7)))


def draw_desc(kind, rng):
    """A description of the given kind over the text class the schema rules allow for descriptions:
    printable ASCII without [ ] { }, plus printable non-ASCII characters; no leading/trailing blanks."""
    if kind == "none":
        return ""
    toks = []
    for _ in range(rng.randint(1, 7)):
        toks.append(_word(rng, uni=(kind == "unicode" and rng.random() < 0.7)))
        if rng.random() < 0.3:
            toks[-1] += rng.choice(_PUNCT)
    if kind == "eq":
        i = rng.randrange(len(toks))
        toks[i] = rng.choice(["%s=%s" % (toks[i], _word(rng)), toks[i] + " = " + _word(rng), toks[i] + "==", "=" + toks[i], toks[i] + "="])
    elif kind == "quote":
        i = rng.randrange(len(toks))
        toks[i] = rng.choice(['%s "%s"' % (_word(rng), toks[i]), toks[i] + '"', 'x"' + toks[i], toks[i] + ' " ' + _word(rng)])
    elif kind == "qstart":
        toks[0] = rng.choice(['"%s"' % toks[0], '"' + toks[0], '"%s %s"' % (toks[0], _word(rng))])
    elif kind == "markup":
        for _ in range(rng.randint(1, 3)):
            toks.insert(rng.randrange(len(toks) + 1), rng.choice(_MARK))
    elif kind == "unicode" and all(ord(c) < 128 for c in "".join(toks)):
        toks.append(_word(rng, uni=True))
    sep = "  " if rng.random() < 0.1 else " "
    text = sep.join(toks).strip()
    if kind == "qstart" and not text.startswith('"'):
        text = '"' + text
    if kind in ("quote", "markup", "eq", "plain", "unicode") and text.startswith('"'):
        text = "q" + text
    assert text and not set(text) & set("[]{}\t\n\r"), text
    return text


def _fmt_attrs(pairs):
    out = []
    for a, v in sorted(pairs):
        if a == "inLibrary":
            continue
        out.append(a if v == "true" else "%s=%s" % (a, v))
    return ", ".join(out)


def _extras(pairs, desc):
    a = _fmt_attrs(pairs)
    parts = []
    if a:
        parts.append("{%s}" % a)
    if desc:
        parts.append("[%s]" % desc)
    return " ".join(parts)


def concretise(case, seed):
    """-> dict(text, descs {section:name -> string}, kinds)"""
    rng = random.Random(seed)
    descs, kinds = {}, {}

    def dd(section, e):
        k = e["desc"]
        kinds[(section, e["name"])] = k
        descs[section + ":" + e["name"]] = draw_desc(k, rng)
        return descs[section + ":" + e["name"]]
    tags = {e["name"]: e for e in case["tags"]}
    kids = {}
    for e in case["tags"]:
        kids.setdefault(e["parent"] if e["parent"] in tags else "", []).append(e)
    lines = []

    def emit(e, level):
        x = _extras(e["attrs"], dd("Tags", e))
        if level == 0:
            lines.append("")
            lines.append("'''%s'''%s" % (e["name"], " <nowiki>%s</nowiki>" % x if x else ""))
        elif e["val"]:
            lines.append("%s <nowiki># %s</nowiki>" % ("*" * level, x))
        else:
            lines.append("%s %s%s" % ("*" * level, e["name"], " <nowiki>%s</nowiki>" % x if x else ""))
        ch = list(kids.get(e["name"], []))
        rng.shuffle(ch)
        ch.sort(key=lambda c: not c["val"])      # a '#' child directly follows its parent
        for c in ch:
            emit(c, level + 1)
    roots = list(kids.get("", []))
    rng.shuffle(roots)
    for r in roots:
        emit(r, 0)
    std = case.get("mode") == "standard"
    if std:
        hdr = [("version", "8.3.0")]      # the only version that is neither "pre-release" nor parsed with pre-8.3 attribute rules
    else:
        hdr = [('version', "1.%d.%d" % (rng.randint(0, 3), rng.randint(0, 9))), ('library', case["hdr"]["library"][0]),
               ('withStandard', case["hdr"]["withStandard"]), ('unmerged', "True")]
    version = hdr[0][1]
    head = "HED " + " ".join('%s="%s"' % kv for kv in hdr)
    rest = _G["std_rest"] if std else {"unitModifier": [], "valueClass": [], "attribute": [], "property": []}
    out = [head, "", "'''Prologue'''", "Schema generated for round-trip checking.", "", "!# start schema"] + lines
    out += ["", "!# end schema", "", "'''Unit classes'''"]
    own_uc = {u["name"]: u for u in case["ucs"]}
    hosts = sorted({x["uclass"] for x in case["units"]} | set(own_uc))
    rng.shuffle(hosts)
    for ucn in hosts:
        if ucn in own_uc:
            x = _extras(own_uc[ucn]["attrs"], dd("UnitClasses", own_uc[ucn]))
            out.append("* %s%s" % (ucn, " <nowiki>%s</nowiki>" % x if x else ""))
        else:
            out.append("* %s" % ucn)
        for u in [u for u in case["units"] if u["uclass"] == ucn]:
            x = _extras(u["attrs"], dd("Units", u))
            out.append("** %s%s" % (u["name"], " <nowiki>%s</nowiki>" % x if x else ""))
    def fixed(sect):          # entries of the other sections taken over unchanged from the partner's XML (stand-alone mode)
        for e in rest[sect]:
            x = _extras(e["attrs"], e["desc"])
            out.append("* %s%s" % (e["name"], " <nowiki>%s</nowiki>" % x if x else ""))
    out += ["", "'''Unit modifiers'''"]
    fixed("unitModifier")
    out += ["", "'''Value classes'''"]
    for o in case["others"]:
        if o["sect"] == "valueClass":
            x = _extras(o["attrs"], dd("ValueClasses", o))
            out.append("* %s%s" % (o["name"], " <nowiki>%s</nowiki>" % x if x else ""))
    fixed("valueClass")
    out += ["", "'''Schema attributes'''"]
    fixed("attribute")
    out += ["", "'''Properties'''"]
    fixed("property")
    out += ["", "'''Epilogue'''", "Generated; see specs/SchemaStore.tla.", "", "!# end hed", ""]
    return {"text": "\n".join(out), "descs": descs, "kinds": {"%s:%s" % k: v for k, v in kinds.items()}, "version": version}


# ----------------------------------------------------------------------------------------------------------------
# A2: execution and judgement of one generated case
# ----------------------------------------------------------------------------------------------------------------
def _expected_rows(view, descs):
    """rows emitted by TLC (Written(s, m, "xml")) -> same shape as xml_view()"""
    tags = {}
    for r in view["tags"]:
        tags[r["name"]] = {"parent": r["xmlParent"], "attrs": sorted(r["attrs"]), "val": r["val"],
                           "desc": descs.get("Tags:" + r["name"], "")}
    ucs = {r["name"]: {"attrs": sorted(r["attrs"]), "desc": descs.get("UnitClasses:" + r["name"], "") if r["props"] else ""}
           for r in view["ucs"]}
    units = {r["name"]: {"uclass": r["uclass"], "attrs": sorted(r["attrs"]), "desc": descs.get("Units:" + r["name"], "")}
             for r in view["units"]}
    others = {r["sect"] + ":" + r["name"]: {"sect": r["sect"], "name": r["name"], "attrs": sorted(r["attrs"]),
                                            "desc": descs.get("ValueClasses:" + r["name"], "")} for r in view["others"]}
    return {"tags": tags, "ucs": ucs, "units": units, "others": others}


def _cmp_section(sec, got, exp, partner, merged, kinds):
    """got: saved XML; exp: rows prescribed by the spec for the library's own entries; partner: the partner's XML
    (must be listed unchanged when merged, not at all when unmerged, except a unit class that hosts library units)."""
    prob = []
    want = dict(exp)
    if merged:
        for k, e in partner.items():
            want.setdefault(k, e)
    ms = "merged" if merged else "unmerged"
    for k in sorted(set(want) - set(got)):
        prob.append(("xml-file:%s:missing:%s" % (sec, ms), "saved %s XML does not list %s %r" % (ms, sec, k)))
    for k in sorted(set(got) - set(want)):
        prob.append(("xml-file:%s:extra:%s" % (sec, ms), "saved %s XML lists %s %r which the schema does not have%s"
                     % (ms, sec, k, " (partner entry in an unmerged file)" if k in partner else "")))
    for k in sorted(set(got) & set(want)):
        g, w = got[k], want[k]
        for fld in ("parent", "uclass", "attrs", "desc", "val"):
            if fld in w and g.get(fld) != w[fld]:
                kd = kinds.get("%s:%s" % ({"tags": "Tags", "ucs": "UnitClasses", "units": "Units", "others": "ValueClasses"}[sec], k), "")
                who = "partner" if k in partner and k not in exp else "library"
                prob.append(("xml-file:%s:%s:%s%s:%s" % (sec, who, fld, (":" + kd) if fld == "desc" and kd else "", ms),
                             "saved %s XML lists %s %r with %s %r, the schema has %r" % (ms, sec, k, fld, g.get(fld), w[fld])))
                break
    return prob


def judge_xml(path, merged, case, conc):
    try:
        got = xml_view(path)
    except Exception as ex:  # noqa
        return [("xml-file:unreadable:%s" % ("merged" if merged else "unmerged"), "saved XML cannot be read: %s" % _exc(ex))]
    view = case["xmlMerged" if merged else "xmlUnmerged"]
    exp = _expected_rows(view, conc["descs"])
    partner = _G["std_partner"] if case.get("mode") == "standard" else _G["partner"]
    prob = []
    ms = "merged" if merged else "unmerged"
    h = view["hdr"]
    want_h = {"library": h["library"], "withStandard": h["withStandard"], "unmerged": h["unmerged"], "version": conc["version"]}
    if got["hdr"] != want_h:
        prob.append(("xml-file:header:%s" % ms, "saved %s XML header %s, expected %s" % (ms, got["hdr"], want_h)))
    for sec in ("tags", "ucs", "units", "others"):
        prob += _cmp_section(sec, got[sec], exp[sec], partner[sec], merged, conc["kinds"])
    return prob


def project(s, lib_only=True, value_classes=None):
    """(library) entries of a real schema object in the vocabulary of the specification"""
    def own(e):
        return "inLibrary" in e.attributes or not lib_only

    def pairs(attrs):
        out = []
        for k, v in attrs.items():
            out += [[k, "true"]] if v is True else [[k, x] for x in str(v).split(",")]
        return sorted(out)
    tags = {}
    for e in s.tags.all_names.values():
        if not own(e):
            continue
        val = e.name.endswith("/#")
        sid = e.short_tag_name + "/#" if val else e.short_tag_name
        par = e.parent
        if val:
            parent = e.short_tag_name
        else:
            parent = par.short_tag_name if par is not None else ""
        tags[sid] = {"parent": parent, "attrs": pairs(e.attributes), "desc": e.description or "", "val": val}
    ucs = {e.name: {"attrs": pairs(e.attributes), "desc": e.description or ""} for e in s.unit_classes.values() if own(e)}
    units = {e.name: {"uclass": e.unit_class_entry.name, "attrs": pairs(e.attributes), "desc": e.description or ""}
             for e in s.units.values() if own(e)}
    others = {"valueClass:" + e.name: {"attrs": pairs(e.attributes), "desc": e.description or ""}
              for e in s.value_classes.values() if (own(e) if lib_only else e.name in (value_classes or ()))}
    return {"tags": tags, "ucs": ucs, "units": units, "others": others}


def _state_rows(case, descs):
    tags = {e["name"]: {"parent": e["parent"], "attrs": sorted(e["attrs"]), "desc": descs.get("Tags:" + e["name"], ""), "val": e["val"]}
            for e in case["tags"]}
    ucs = {e["name"]: {"attrs": sorted(e["attrs"]), "desc": descs.get("UnitClasses:" + e["name"], "")} for e in case["ucs"]}
    units = {e["name"]: {"uclass": e["uclass"], "attrs": sorted(e["attrs"]), "desc": descs.get("Units:" + e["name"], "")} for e in case["units"]}
    others = {e["sect"] + ":" + e["name"]: {"attrs": sorted(e["attrs"]), "desc": descs.get("ValueClasses:" + e["name"], "")}
              for e in case["others"]}
    return {"tags": tags, "ucs": ucs, "units": units, "others": others}


def execute(item):
    """item = {id, case (TLC json), conc (concretised), work} -> {id, problems, drift, stats}"""
    from hed.schema import from_string, load_schema
    from hed.errors.exceptions import HedFileError
    case, conc = item["case"], item["conc"]
    res = {"id": item["id"], "problems": [], "drift": [], "saves": 0}
    work = os.path.join(item["work"], "g%s_%d" % (item["id"], os.getpid()))
    os.makedirs(work, exist_ok=True)
    try:
        merge = bool(case["edits"]) and case["edits"][-1][0] == "Merge"
        body = case
        if merge:   # the rendered library is the schema BEFORE the merge; the other library is merged in afterwards
            body = dict(case, tags=[e for e in case["tags"] if ["inLibrary", "score"] not in e["attrs"]],
                        hdr=dict(case["hdr"], library=case["hdr"]["library"][:1]))
        try:
            s = from_string(conc["text"], schema_format=".mediawiki", name="c05-generated")
        except Exception as ex:  # noqa
            # the vehicle is only a way to obtain the schema object: try the other reader entry point (a file) before giving up
            try:
                vp = os.path.join(work, "vehicle.mediawiki")
                with open(vp, "w", encoding="utf-8", newline="\n") as fh:
                    fh.write(conc["text"])
                s = load_schema(vp)
                res["drift"].append(("vehicle-string-load-failed", "generated MediaWiki text loads from a file but not with from_string: %s" % _exc(ex)))
            except Exception as ex2:  # noqa
                res["drift"].append(("vehicle-load-failed", "generated MediaWiki text does not load: %s / %s" % (_exc(ex), _exc(ex2))))
                return res
        errs = s.check_compliance(check_for_warnings=True)
        if errs:      # outside the statement (it speaks of schemas that pass compliance): not judged
            res["drift"].append(("vehicle-noncompliant", "generated schema has compliance issues %s" % sorted({e["code"] for e in errs})))
            return res
        # the loaded object against the specification's state (loader side of the model)
        std = case.get("mode") == "standard"
        vcs = [o["name"] for o in case["others"] if o["sect"] == "valueClass"]
        got, want = project(s, not std, vcs), _state_rows(body, conc["descs"])
        for sec in got:
            if got[sec] != want[sec]:
                ks = sorted(k for k in set(got[sec]) | set(want[sec]) if got[sec].get(k) != want[sec].get(k))
                res["drift"].append(("projection:" + sec, "loaded %s %r is %s, specification state %s"
                                     % (sec, ks[0], got[sec].get(ks[0]), want[sec].get(ks[0]))))
        if merge:
            s2 = load_schema(_G["score_path"], schema=copy.deepcopy(s))
            if "," not in s2.library:
                res["drift"].append(("merge-vehicle", "merging did not produce a multi-library schema: %r" % s2.library))
            res["problems"] += refusals(s2, os.path.join(work, "mm"), HedFileError)
            res["saves"] += 9
            # the other library may also arrive from a file in UNMERGED form (header unmerged="True"), in each format
            for fmt in (("xml", "mediawiki")[item["id"] % 2],):       # (a TSV folder cannot be merged into a loaded schema: refused by design)
                up = _unmerged_score(fmt, work)
                try:
                    s3 = load_schema(up, schema=copy.deepcopy(s))
                except Exception as ex:  # noqa
                    res["drift"].append(("merge-vehicle", "merging the unmerged %s file of the other library failed: %s" % (fmt, _exc(ex))))
                    continue
                if "," in s3.library:
                    res["problems"] += [(k + ":from-unmerged-" + fmt, t + " (second library merged in from its unmerged %s file)" % fmt)
                                        for k, t in refusals(s3, os.path.join(work, "mu"), HedFileError)]
                    res["saves"] += 9
            return res
        kinds = {tuple(k.split(":", 1)): v for k, v in conc["kinds"].items()}
        mopts = [True] if std else [True, False]
        prob, paths, objs = round_trips(s, os.path.join(work, "s"), mopts, FORMATS, kinds)
        res["problems"] += prob
        res["saves"] += 3 * len(mopts)
        # independent of HedSchema.__eq__: the library entries of every reloaded object are the specification's state
        for (merged, fmt), r in sorted(objs.items()):
            if any(k.split(":")[0] == fmt and k.endswith(":merged" if merged else ":unmerged") for k, _ in prob):
                continue
            gr = project(r, not std, vcs)
            for sec in gr:
                if gr[sec] != want[sec]:
                    ks = sorted(k for k in set(gr[sec]) | set(want[sec]) if gr[sec].get(k) != want[sec].get(k))
                    a, b = gr[sec].get(ks[0]), want[sec].get(ks[0])
                    fld = "missing" if a is None else "extra" if b is None else [f for f in b if a.get(f) != b[f]][0]
                    kd = conc["kinds"].get("%s:%s" % ({"tags": "Tags", "ucs": "UnitClasses", "units": "Units", "others": "ValueClasses"}[sec], ks[0].split(":")[-1]), "")
                    sname = {"tags": "Tags", "ucs": "UnitClasses", "units": "Units", "others": "ValueClasses"}[sec]
                    what = "desc:%s:%s" % (kd or "any", sname) if fld == "desc" else "%s:%s" % (sname, fld)
                    res["problems"].append(("%s:%s:state:%s" % (fmt, what, "merged" if merged else "unmerged"),
                                            "schema reloaded from the %s %s file has %s %r = %s, the original has %s"
                                            % ("merged" if merged else "unmerged", fmt, sec, ks[0], a, b)))
                    break
        for merged in mopts:
            p = paths.get((merged, "xml"))
            if p:
                res["problems"] += judge_xml(p, merged, case, conc)
        # a TSV file that cannot even be tokenised: name the description kind that is known to do this when it is present
        if "qstart" in conc["kinds"].values():
            res["problems"] = [("tsv:desc:qstart:" + k[4:], t) if k.startswith("tsv:raises-load:") else (k, t) for k, t in res["problems"]]
        # second generation: a schema that was LOADED FROM A MERGED file is saved again (header says merged)
        fmt2 = FORMATS[item["id"] % 3]
        r = objs.get((True, fmt2))
        if r is not None and r == s and not res["problems"] and not std:
            p2, _, _ = round_trips(r, os.path.join(work, "t"), [False], [FORMATS[(item["id"] // 3) % 3]], kinds)
            res["problems"] += [("second-generation:" + k, "schema reloaded from the merged %s file, then " % fmt2 + t) for k, t in p2]
            res["saves"] += 1
        return res
    finally:
        shutil.rmtree(work, ignore_errors=True)


# ----------------------------------------------------------------------------------------------------------------
# A4: histories of saves into re-used locations (specs/SchemaFiles.tla)
# ----------------------------------------------------------------------------------------------------------------
HIST_VARIANTS = {"libM": ("score_2.0.0", True), "libU": ("score_2.0.0", False), "std": ("8.3.0", True),
                 "oldM": ("testlib_3.0.0", True), "oldU": ("testlib_3.0.0", False)}


def _hist_variant(name):
    key = "hv:" + name
    if key not in _G:
        from hed.schema import load_schema
        version, merged = HIST_VARIANTS[name]
        sch = load_schema(dict(facts.bundled())[version])
        dfs = sch.get_as_dataframes(save_merged=merged)
        _G[key] = (sch, merged, dfs)
    return _G[key]


def variant_rows():
    """the tables that have rows, per variant, from the real writer (checked against Rows of the specification)"""
    return {name: sorted(k for k, df in _hist_variant(name)[2].items() if not df.empty) for name in HIST_VARIANTS}


def history_case(arg):
    """replay one history of saves TLC emitted; then load every (location, format) the specification lists and compare"""
    idx, case, work = arg
    from hed.schema import load_schema
    from hed.schema.schema_io import df_util
    root = os.path.join(work, "h%d_%d" % (idx, os.getpid()))
    os.makedirs(root, exist_ok=True)
    prob = []

    def place(loc, fmt):
        if fmt == "tsv":
            return os.path.join(root, "tsvdir") if loc == "folder" else os.path.join(root, "other", "name.tsv")
        base = os.path.join(root, "one") if loc == "folder" else os.path.join(root, "other", "name")
        return base + "." + fmt
    try:
        said = " ; ".join("%s %s -> %s" % (v, f, l) for l, f, v in case["hist"])
        for loc, fmt, var in case["hist"]:
            sch, merged, _ = _hist_variant(var)
            pth = place(loc, fmt)
            os.makedirs(os.path.dirname(pth), exist_ok=True)
            try:
                if fmt == "tsv":
                    sch.save_as_dataframes(pth, save_merged=merged)
                elif fmt == "xml":
                    sch.save_as_xml(pth, save_merged=merged)
                else:
                    sch.save_as_mediawiki(pth, save_merged=merged)
            except Exception as ex:  # noqa
                prob.append(("history:%s:raises-save:%s" % (fmt, _exc_key(ex)), "history [%s]: saving %s raised %s" % (said, var, _exc(ex))))
                return idx, prob
        for e in case["expect"]:
            sch, merged, dfs = _hist_variant(e["variant"])
            pth = place(e["loc"], e["fmt"])
            what = "history [%s]: loading the %s %s location" % (said, e["loc"], e["fmt"])
            try:
                r = load_schema(pth)
            except Exception as ex:  # noqa
                prob.append(("history:%s:raises-load:%s" % (e["fmt"], _exc_key(ex)), "%s raised %s" % (what, _exc(ex))))
                continue
            if not (r == sch):
                k, text = diagnose(sch, r)
                prob.append(("history:%s:%s:neq" % (e["fmt"], k), "%s does not give the schema saved last (%s): %s" % (what, e["variant"], text)))
            if e["fmt"] == "tsv":       # table by table: whose rows the location holds, as the specification says
                got = df_util.load_dataframes(pth)
                for t, owner in e["tables"]:
                    g = got[t]
                    if owner == "blank":
                        if not g.empty:
                            prob.append(("history:tsv:stale-table:%s" % t, "%s: table %s must be blank but has %d rows" % (what, t, len(g))))
                    else:
                        w = _hist_variant(owner)[2][t]
                        if len(g) != len(w) or list(g.iloc[:, 0]) != list(w.iloc[:, 0].astype(str)):
                            prob.append(("history:tsv:wrong-table:%s" % t, "%s: table %s does not hold the rows of %s (%d rows, expected %d)"
                                         % (what, t, owner, len(g), len(w))))
        return idx, prob
    finally:
        shutil.rmtree(root, ignore_errors=True)


def _unmerged_score(fmt, work):
    """the other library (score 2.0.0) saved in unmerged form, once per worker and format"""
    key = "uscore:" + fmt
    if key not in _G:
        from hed.schema import load_schema
        sc = load_schema(_G["score_path"])
        base = os.path.join(os.path.dirname(work.rstrip("/")), "uscore_%d" % os.getpid())
        _G[key] = _save(sc, fmt, False, base)
    return _G[key]


# ----------------------------------------------------------------------------------------------------------------
def _init_globals():
    if _G:
        return
    import hed  # noqa
    from hed.schema import load_schema_version
    load_schema_version(PARTNER)                       # warm the in-memory cache before forking
    paths = dict(facts.bundled())
    _G["partner"] = xml_view(paths[PARTNER])
    _G["score_path"] = paths["score_2.0.0"]
    # stand-alone mode: everything outside the specification's slice that a standard schema needs (attribute and property
    # definitions, unit modifiers, the other value classes) is taken over from the partner's XML unchanged
    modeled = {"valueClass:numericClass", "valueClass:textClass"}
    rest = {k: e for k, e in _G["partner"]["others"].items() if k not in modeled}
    _G["std_partner"] = {"tags": {}, "ucs": {}, "units": {}, "others": rest}
    _G["std_rest"] = {sect: [e for e in rest.values() if e["sect"] == sect] for sect in ("unitModifier", "valueClass", "attribute", "property")}


def _extra_coverage(ctx, r):
    """vf/tlc.py only parses coverage lines without a location suffix; add the ones with `(l c l c)`."""
    for m in re.finditer(r"^<(\w+) line \d+, col \d+ to line \d+, col \d+ of module \w+ \([\d ]+\)>: (\d+):(\d+)", r.stdout, re.M):
        d, t = ctx.actions.get(m.group(1), (0, 0))
        ctx.actions[m.group(1)] = (d + int(m.group(2)), t + int(m.group(3)))


def _cfg_variant(name, repl):
    with open(os.path.join(tlc.SPECS, "MC_SchemaStore.cfg")) as f:
        txt = f.read()
    for a, b in repl:
        assert a in txt, a
        txt = txt.replace(a, b)
    with open(os.path.join(tlc.SPECS, name), "w") as f:
        f.write(txt)
    return name


def _check_base_slice(ctx, case0):
    """The slice of the partner schema written into SchemaStore.tla must be what the partner's XML says (hedId aside)."""
    p = _G["partner"]
    bad = []
    for r in case0["base"]["tags"]:
        g = p["tags"].get(r["name"])
        if g is None or g["parent"] != r["parent"] or [a for a in g["attrs"] if a[0] != "hedId"] != sorted(r["attrs"]):
            bad.append(("tag", r["name"]))
    for r in case0["base"]["ucs"]:
        g = p["ucs"].get(r["name"])
        if g is None or [a for a in g["attrs"] if a[0] != "hedId"] != sorted(r["attrs"]) or bool(g["desc"]) != (r["desc"] != "none"):
            bad.append(("unitClass", r["name"]))
    for r in case0["base"]["units"]:
        g = p["units"].get(r["name"])
        if g is None or g["uclass"] != r["uclass"] or [a for a in g["attrs"] if a[0] != "hedId"] != sorted(r["attrs"]) \
                or bool(g["desc"]) != (r["desc"] != "none"):
            bad.append(("unit", r["name"]))
    for r in case0["base"]["others"]:
        g = p["others"].get(r["sect"] + ":" + r["name"])
        if g is None or [a for a in g["attrs"] if a[0] != "hedId"] != sorted(r["attrs"]):
            bad.append((r["sect"], r["name"]))
    if bad:
        raise tlc.TLCFailure("the partner slice in SchemaStore.tla does not match HED %s: %s" % (PARTNER, bad))
    ctx.note("partner_slice_checked_against_xml", len(case0["base"]["tags"]) + len(case0["base"]["ucs"]) +
             len(case0["base"]["units"]) + len(case0["base"]["others"]))


def _select(cases, n, seed):
    """deterministic choice of n cases: all single-edit cases first, then stratified by the kind of the last edits"""
    rng = random.Random(seed)
    first = [c for c in cases if len(c["edits"]) <= 1]
    rest = [c for c in cases if len(c["edits"]) > 1]
    groups = {}
    for c in rest:      # AddUnit is told apart by the unit class it adds to (a partner class, the library's own class);
        # an edit that works ON a node added by an earlier edit (a child / value child / attribute of a new node) is a kind of its own
        added = set()
        key = []
        for e in c["edits"]:
            tgt = e[2] if e[0] in ("AddNode", "AddRooted") and len(e) > 2 else (e[1] if len(e) > 1 else "")
            key.append(e[0] + (":" + e[1] if e[0] == "AddUnit" else "") + (":on-new" if isinstance(tgt, str) and tgt in added else ""))
            if e[0] in ("AddNode", "AddRooted"):
                added.add(e[1])
        groups.setdefault(tuple(key[-2:]), []).append(c)
    for g in groups.values():
        rng.shuffle(g)
    out = list(first)
    keys = sorted(groups)
    rnd = 0
    while any(groups.values()) and (len(out) < n or rnd == 0):     # every pair of edit kinds is represented at least once
        for k in keys:
            if groups[k] and (len(out) < n or rnd == 0):
                out.append(groups[k].pop())
        rnd += 1
    return out


def run(ctx):
    quick = ctx.quick
    ctx.rule = ("cases = (0) histories of <= 3 saves into re-used locations (SchemaFiles.tla); (1) every bundled schema x format x merged/unmerged; (2) abstract schemas reachable in SchemaStore.tla by "
                "edit sequences (AddNode, AddRooted, RemoveLeaf, SetAttr, SetDesc, AddValueChild, AddUnitClass, AddUnit, AddValueClass, "
                "Merge), each rendered as a library schema with seeded description strings and saved/reloaded in 3 formats x "
                "merged/unmerged; (3) multi-library merges.  distinct = distinct abstract schema (or bundled schema x format x mode); "
                "non-trivial = at least one edit or a bundled schema")
    _init_globals()
    # ---------------- bundled schemas and multi-library merges start right away (they do not need TLC's output)
    bund = [(v, p, ctx.work) for v, p in facts.bundled()]
    bund.sort(key=lambda x: -os.path.getsize(x[1]))
    libs = {}
    for v, p in facts.bundled():
        f = facts.load(v)
        if f.library and f.with_standard:
            libs[v] = (f.library, f.with_standard)
    pairs = [((a, b), ctx.work, "mm%d" % k) for k, (a, b) in enumerate(
        (a, b) for a in sorted(libs) for b in sorted(libs) if a != b and libs[a][1] == libs[b][1] and libs[a][0] != libs[b][0])]
    pool = mp.get_context("fork").Pool(14)
    try:
        rb = pool.map_async(bundled_case, bund, chunksize=1)
        rm = pool.map_async(multimerge_case, pairs, chunksize=1)
        _run_rest(ctx, pool, rb, rm)
    finally:
        pool.terminate()
        pool.join()


def _run_rest(ctx, pool, rb, rm):
    quick = ctx.quick
    # ---------------- design runs
    depth = 2 if quick else 3
    made = []
    try:
        cfg, cfg_std = "MC_SchemaStore.cfg", "MC_SchemaStore_standard.cfg"
        if not quick:
            # variants live in this run's scratch directory (nothing is written into specs/)
            cfg = ctx.cfg("MC_SchemaStore.cfg", ("MaxEdits = 2", "MaxEdits = 3"))
            cfg_std = ctx.cfg("MC_SchemaStore.cfg", ("MaxEdits = 2", "MaxEdits = 3"), ('MODE = "partnered"', 'MODE = "standard"'))
        r = ctx.tlc("MC_SchemaStore", cfg, workers=16, coverage=True, timeout=3000,
                    label="design: RoundTrip, FormatsAgree, MultiMergeRefuses, WriterSelects, XmlDeclarative; partnered library, <= %d edits" % depth)
        _extra_coverage(ctx, r)
        r = ctx.tlc("MC_SchemaStore", cfg_std, workers=16, coverage=True, timeout=3000,
                    label="design: same invariants, stand-alone standard schema, <= %d edits" % depth)
        _extra_coverage(ctx, r)
        sens = {}
        for name, what in (("keepinlib", "writer keeps inLibrary when saving unmerged"),
                           ("noreroot", "loader does not re-attach rooted sub-trees"),
                           ("appended", "library sub-trees appended at the end of an unsorted partner group (MediaWiki stars ambiguous)"),
                           ("tsvprops", "TSV writer lists the properties of a partner unit class that only hosts library units")):
            rs = ctx.tlc("MC_SchemaStore", "MC_SchemaStore_%s.cfg" % name, workers=4, expect_ok=False, timeout=900,
                         label="sensitivity: " + what)
            sens[name] = rs.violated
            if rs.violated != "RoundTrip":
                raise tlc.TLCFailure("sensitivity configuration %s should violate RoundTrip, got %r" % (name, rs.violated))
        ctx.note("sensitivity_violations", sens)
        # ---------------- case generation
        # the added unit is called jiffy in one of the two generation runs and jif/fy (allowedCharacter=slash) in the other
        slash = ("UnitNames <- UnitNamesDef", "UnitNames <- UnitNamesSlash")
        same = ("UnitNames <- UnitNamesDef", "UnitNames <- UnitNamesDef")
        rg = ctx.tlc("MC_SchemaStore", ctx.cfg("MC_SchemaStore_gen.cfg", slash if ctx.seed % 2 else same), workers=1, timeout=3000,
                     label="generation: every schema reachable by <= 2 edits with the saved-XML rows the specification prescribes")
        cases = [j for j in rg.json_lines if "edits" in j]
        base0 = [j for j in rg.json_lines if "base" in j]
        nsim = 100 if quick else 1200
        rs = ctx.tlc("MC_SchemaStore", "MC_SchemaStore_sim.cfg", workers=1, mode="simulate", simulate="num=%d" % nsim, depth=6,
                     seed=ctx.seed + 1, timeout=3000, label="generation: random edit sequences of length <= 5 (simulation)")
        deep = [j for j in rs.json_lines if "edits" in j and len(j["edits"]) >= 3]
        rstd = ctx.tlc("MC_SchemaStore", ctx.cfg("MC_SchemaStore_genstd.cfg", same if ctx.seed % 2 else slash), workers=1, timeout=3000,
                       label="generation: stand-alone standard schema, every schema reachable by <= 2 edits")
        std_cases = [j for j in rstd.json_lines if "edits" in j]
        # every other stand-alone case calls its new node Gr\u00f6\u00dfe instead of Kappa: a legal tag name whose case-folded
        # form ("gr\u00f6sse") differs from its lower-case form - it has children and value children like any other node
        def _on_new(j):          # some edit works on a node that an earlier edit added
            added = set()
            for e in j["edits"]:
                tgt = e[2] if e[0] in ("AddNode", "AddRooted") and len(e) > 2 else (e[1] if len(e) > 1 else "")
                if isinstance(tgt, str) and tgt in added:
                    return True
                if e[0] in ("AddNode", "AddRooted"):
                    added.add(e[1])
            return False
        std_cases = [json.loads(json.dumps(j).replace("Kappa", "Gr\\u00f6\\u00dfe").replace("Delta", "Stra\\u00dfe"))
                     if (_on_new(j) or (n + ctx.seed) % 2 == 0) else j for n, j in enumerate(std_cases)]
    finally:
        for m in made:
            os.remove(os.path.join(tlc.SPECS, m))
    if not base0:
        raise tlc.TLCFailure("generation run did not emit the partner slice")
    _check_base_slice(ctx, base0[0])
    seen, uniq_deep = set(), []
    for j in deep:
        k = json.dumps([j["tags"], j["ucs"], j["units"], j["others"], j["hdr"]], sort_keys=True)
        if k not in seen:
            seen.add(k)
            uniq_deep.append(j)
    n_shallow = 130 if quick else 1200
    n_deep = 60 if quick else 1200
    n_std = 40 if quick else 500
    chosen = _select(cases, n_shallow, ctx.seed) + uniq_deep[:n_deep] + _select(std_cases, n_std, ctx.seed + 7)
    ctx.note("generated_schemas_available", {"exhaustive_le2_edits": len(cases), "simulated_ge3_edits": len(uniq_deep),
                                             "standalone_le2_edits": len(std_cases)})
    ctx.exhaustive = False
    items = []
    for i, c in enumerate(chosen):
        body = c
        if c["edits"] and c["edits"][-1][0] == "Merge":
            body = dict(c, tags=[e for e in c["tags"] if ["inLibrary", "score"] not in e["attrs"]],
                        hdr=dict(c["hdr"], library=c["hdr"]["library"][:1]))
        items.append({"id": i, "case": c, "conc": concretise(body, ctx.seed * 1000003 + i), "work": ctx.work})

    # ---------------- histories of saves into re-used locations (SchemaFiles.tla)
    ctx.tlc("MC_SchemaFiles", "MC_SchemaFiles.cfg", workers=8, timeout=900,
            label="design: LoadSeesLastSave, OtherPlacesUntouched; every history of <= 3 saves, 2 locations x 3 formats x 3 variants")
    rsk = ctx.tlc("MC_SchemaFiles", "MC_SchemaFiles_skipempty.cfg", workers=4, expect_ok=False, timeout=900,
                  label="sensitivity: a TSV writer that skips blank tables")
    if rsk.violated != "LoadSeesLastSave":
        raise tlc.TLCFailure("sensitivity configuration skipempty should violate LoadSeesLastSave, got %r" % rsk.violated)
    hists, rows_spec = [], None
    for cfgname, label in (("MC_SchemaFiles_gen.cfg", "generation: every history of <= 3 TSV saves into one re-used location, 5 variants"),
                           ("MC_SchemaFiles_gen2.cfg", "generation: <= 3 saves, folder / .tsv-prefix location x {tsv, xml} x {merged, unmerged}")):
        rh = ctx.tlc("MC_SchemaFiles", cfgname, workers=1, timeout=900, label=label)
        for j in rh.json_lines:
            if "rows" in j:
                rows_spec = rows_spec or j["rows"]
            else:
                hists.append(j)
    real_rows = variant_rows()
    if rows_spec is None or any(sorted(rows_spec[v]) != real_rows[v] for v in rows_spec):
        raise tlc.TLCFailure("Rows of MC_SchemaFiles.tla do not describe the bundled variants: %s vs %s" % (rows_spec, real_rows))
    if quick:
        rng = random.Random(ctx.seed + 5)
        short = [h for h in hists if len(h["hist"]) <= 2]
        long_ = [h for h in hists if len(h["hist"]) > 2]
        rng.shuffle(long_)
        hists = short + long_[:150]
    rhc = pool.map_async(history_case, [(i, h, ctx.work) for i, h in enumerate(hists)], chunksize=4)

    t_tlc = time.time() - ctx.t0
    # ---------------- generated cases (same pool as the bundled schemas)
    rgc = pool.map_async(execute, items, chunksize=2)
    rb, rm, rgc, rhc = rb.get(), rm.get(), rgc.get(), rhc.get()
    rb.sort(key=lambda o: o["version"])
    ctx.note("phase_wall_s", {"tlc_design_and_generation": round(t_tlc, 1), "replay": round(time.time() - ctx.t0 - t_tlc, 1)})

    # ---- A1 verdicts
    trace = {"schemas": [], "cases": []}
    tinfo = []
    nb = 0
    skipped = {}
    for o in rb:
        if o["skipped"]:
            skipped[o["version"]] = o["skipped"]
            continue
        nb += 1
        ctx.case("bundled:%s" % o["version"], n=o.get("n", 0))
        for k in range(o.get("n", 0)):
            ctx.nontrivial.add("bundled:%s:%d" % (o["version"], k))
        ctx.traces += o.get("n", 0)
        for key, text in o["problems"]:
            ctx.violation("bundled:" + key, "bundled schema %s: %s" % (o["version"], text),
                          {"kind": "bundled", "version": o["version"]})
        orig = xml_view(dict(facts.bundled())[o["version"]])
        trace["schemas"].append(_trace_schema(orig))
        for m, view in sorted(o["saved"].items()):
            trace["cases"].append({"schema": len(trace["schemas"]), "merged": m == "merged", "saved": _trace_schema(view)})
            tinfo.append((o["version"], m, orig, view))
    ctx.note("bundled_schemas_checked", nb)
    ctx.note("bundled_schemas_outside_the_statement", skipped)
    if trace["cases"]:
        tf = os.path.join(ctx.work, "xml_trace.json")
        with open(tf, "w") as fh:
            json.dump(trace, fh)
        rt = ctx.tlc("Trace_SchemaStore", "Trace_SchemaStore.cfg", workers=8, env={"TRACE_FILE": tf}, timeout=1800,
                     label="trace validation: saved XML of every bundled schema (independent reader) against the writer table")
        acc = set(int(x) for x in re.findall(r'<<"ACCEPT", (\d+)>>', rt.stdout))
        rej = {int(a): (b, c) for a, b, c in re.findall(r'<<"REJECT", (\d+), "([^"]*)", "([^"]*)">>', rt.stdout)}
        if len(acc) + len(rej) != len(trace["cases"]):
            raise tlc.TLCFailure("trace validation gave %d verdicts for %d cases" % (len(acc) + len(rej), len(trace["cases"])))
        ctx.traces += len(trace["cases"])
        ctx.note("saved_xml_validated_by_tlc", {"accepted": len(acc), "rejected": len(rej)})
        for k, (why, detail) in sorted(rej.items()):
            version, m, orig, view = tinfo[k - 1]
            ctx.violation("bundled:xml-file:%s:%s" % (why, m),
                          "bundled schema %s saved as %s XML: the independent reader finds a different %s than the original lists (first "
                          "difference at %r)" % (version, m, why, detail), {"kind": "bundled", "version": version})
        for version, m, orig, view in tinfo:
            for fld in ("prologue", "epilogue"):
                if orig[fld] != view[fld]:
                    ctx.violation("bundled:xml-file:%s:%s" % (fld, m), "bundled schema %s saved as %s XML: %s differs" % (version, m, fld),
                                  {"kind": "bundled", "version": version})
            if orig["hdr"]["version"] != view["hdr"]["version"]:
                ctx.violation("bundled:xml-file:version:%s" % m, "bundled schema %s saved as %s XML: version %r" % (version, m, view["hdr"]["version"]),
                              {"kind": "bundled", "version": version})
    # ---- A3 verdicts (bundled pairs)
    nm = 0
    notload = {}
    for o in rm:
        if not o["loaded"]:
            notload[",".join(o["versions"])] = o["why"][:80]
            continue
        nm += 1
        ctx.case("multimerge:" + ",".join(o["versions"]))
        ctx.traces += 1
        for key, text in o["problems"]:
            ctx.violation(key, "load_schema_version(%s): %s" % (list(o["versions"]), text), {"kind": "multimerge", "versions": list(o["versions"])})
    ctx.note("multi_library_pairs_checked", nm)
    if notload:
        ctx.note("multi_library_pairs_not_loadable", notload)
    if nm == 0:
        raise tlc.TLCFailure("no multi-library pair could be loaded offline")
    # ---- A4 verdicts
    for idx, prob in rhc:
        h = hists[idx]
        ctx.case("history:" + json.dumps(h["hist"]), nontrivial=len(h["hist"]) > 1)
        ctx.traces += 1
        ctx.bump("saves_reloaded", len(h["hist"]))
        for key, text in prob:
            ctx.violation(key, text, {"kind": "history", "case": h})
    ctx.note("save_histories_replayed", len(hists))
    # ---- A2 verdicts
    drift = {}
    feats = {}
    for it, o in zip(items, rgc):
        c = it["case"]
        ctx.case(json.dumps([c["tags"], c["ucs"], c["units"], c["others"], c["hdr"]], sort_keys=True), nontrivial=bool(c["edits"]))
        ctx.traces += 1
        ctx.bump("saves_reloaded", o["saves"])
        for e in c["edits"]:
            feats[e[0]] = feats.get(e[0], 0) + 1
        for key, text in o["drift"]:
            drift.setdefault(key, []).append(text)
        for key, text in o["problems"]:
            ctx.violation(key, "%s; edits=%s" % (text, json.dumps(c["edits"])),
                          {"kind": "generated", "case": c, "conc": it["conc"], "id": it["id"], "only": key})
    ctx.note("edits_replayed_by_kind", feats)
    ctx.note("spec_drift", {k: len(v) for k, v in drift.items()})
    if drift:
        ctx.note("spec_drift_examples", {k: v[0][:300] for k, v in drift.items()})
    if sum(len(v) for k, v in drift.items() if k.startswith("vehicle")) > len(items) // 10:
        raise tlc.TLCFailure("the generated schemas do not load / are not compliant: %s" % {k: v[0] for k, v in drift.items()})
    for it in items[3:40:9]:
        ctx.sample({"edits": it["case"]["edits"], "mediawiki": it["conc"]["text"].split("!# start schema")[1].split("'''Unit modifiers'''")[0][:500]})
    ctx.assumptions += [
        "generated schemas are (a) partnered library schemas over HED %s and (b) small stand-alone standard schemas (the partner slice of "
        "the specification plus the partner's attribute/property/modifier/value-class sections taken over unchanged), both written as "
        "MediaWiki text (the documented way to make a schema) and loaded with from_string" % PARTNER,
        "description strings: printable ASCII without []{} plus printable non-ASCII characters, no leading/trailing blanks, one line",
        "`==` of HedSchema is the oracle for equality (it ignores the unmerged header flag); the saved XML is judged through vf/facts.py",
        "compliance of a bundled schema = check_compliance(check_for_warnings=False) returns no issue",
        "the slice of the partner schema inside SchemaStore.tla is verified against the partner's XML at every run (hedId aside)"]


def replay(obj):
    _init_globals()
    work = os.path.join(os.path.dirname(os.path.dirname(os.path.dirname(os.path.abspath(__file__)))), ".work", "C05-replay")
    shutil.rmtree(work, ignore_errors=True)
    os.makedirs(work, exist_ok=True)
    try:
        if obj["kind"] == "bundled":
            path = dict(facts.bundled())[obj["version"]]
            o = bundled_case((obj["version"], path, work))
            prob = list(o["problems"])
            # what the saved XML lists is judged by the specification (TLC, one small run)
            trace = {"schemas": [_trace_schema(xml_view(path))], "cases": []}
            modes = sorted(o["saved"])
            for m in modes:
                trace["cases"].append({"schema": 1, "merged": m == "merged", "saved": _trace_schema(o["saved"][m])})
            if trace["cases"]:
                tf = os.path.join(work, "xml_trace.json")
                with open(tf, "w") as fh:
                    json.dump(trace, fh)
                rt = tlc.run("Trace_SchemaStore", "Trace_SchemaStore.cfg", workers=2, env={"TRACE_FILE": tf}, workdir=work, timeout=900)
                for a, b, c in re.findall(r'<<"REJECT", (\d+), "([^"]*)", "([^"]*)">>', rt.stdout):
                    prob.append(("bundled:xml-file:%s:%s" % (b, modes[int(a) - 1]),
                                 "saved %s XML differs from what the original lists: %s (first difference at %r)" % (modes[int(a) - 1], b, c)))
            return (not prob), "; ".join(t for _, t in prob) or "round trips agree and the saved XML lists what the specification prescribes"
        if obj["kind"] == "history":
            _, prob = history_case((0, obj["case"], work))
            return (not prob), "; ".join(t for _, t in prob) or "every location loads the schema saved there last"
        if obj["kind"] == "multimerge":
            o = multimerge_case((tuple(obj["versions"]), work, "mm"))
            prob = o["problems"]
            return (not prob), "; ".join(t for _, t in prob) or "every way of saving refuses"
        o = execute({"id": obj["id"], "case": obj["case"], "conc": obj["conc"], "work": work})
        prob = [(k, t) for k, t in o["problems"] if k == obj.get("only")] or o["problems"]
        return (not prob), "; ".join("%s: %s" % kt for kt in prob[:3]) or "agrees with the specification"
    finally:
        shutil.rmtree(work, ignore_errors=True)
