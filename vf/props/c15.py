"""C15 — search queries obey their documented logic on every annotation.

TLC: specs/Query.tla
  * result-list semantics of query_expressions.py over all annotation trees up to a node bound; the laws
    OrIff, AndOnlyIfBoth, AndSymmetric, AndAssociative, AndDistinctTags, SiblingOrderInvariant (MC_Query*.cfg);
  * tokenizer + parser of query_handler.py as a pushdown automaton and as recursive descent, proven equal;
    UnbalancedRejected for the parser the property requires, violated by the parser the code implements
    (MC_QueryText*.cfg).
Binding A (spec -> code):
  * every (annotation, query, boolean) emitted by TLC is concretised with real HED 8.3.0 tags (families
    validated by TLC against the abstract vocabulary) and replayed:  bool(QueryHandler(q).search(HedString(s, schema)));
  * the laws, repeatability, no-mutation and sibling-order invariance are re-checked on the code's own answers;
  * seeded random deep annotations / queries over the real vocabulary are judged by TLC (Trace_Query.tla);
  * every emitted / generated query text is compiled: compile-or-ValueError, unbalanced grouping symbols rejected.
Only clauses of the property statement call ctx.violation; other disagreements with the model are spec drift.
"""
import json
import multiprocessing as mp
import os
import random

from .. import facts, tlc

SCHEMA_VERSION = "8.3.0"
JAVA_ENV = {"JAVA_TOOL_OPTIONS": "-XX:ParallelGCThreads=2"}     # 16 GC threads thrash on this box
ABS_ORDER = ["p", "ra", "rb", "c", "v/x"]
ATOM_OPS = ("term", "exact", "prefix")
# the generation atoms of MC_Query.tla (GA), in its order
GA = [("term", "p"), ("term", "ra"), ("term", "c"), ("exact", "ra"), ("exact", "rb"), ("exact", "p"),
      ("prefix", "r"), ("prefix", "ra"), ("term", "v"), ("exact", "v"), ("exact", "v/x"), ("prefix", "v")]
_G = {}


# --------------------------------------------------------------------------------------------------
# query ASTs -> text
# --------------------------------------------------------------------------------------------------
def q_text(q, style=0, andtok="&&", bare=False):
    """Render a query AST.  style 0: every nested binary operator parenthesised; 1: minimal parentheses."""
    op = q["op"]
    if op == "term":
        return q["t"]
    if op == "exact":
        return q["t"] if (bare and "/" in q["t"]) else '"%s"' % q["t"]
    if op == "prefix":
        return q["t"] + "*"
    if op == "wild":
        return "?" * q["t"]
    if op == "not":
        inner = q_text(q["r"], style, andtok, bare)
        if q["r"]["op"] in ("and", "or", "not"):
            inner = "(" + inner + ")"
        return "~" + inner
    if op == "desc":
        inner = q_text(q["r"], style, andtok, bare)       # "[[" and "]]" are (legacy) tokens of their own
        return "[" + (" " if inner[0] == "[" else "") + inner + (" " if inner[-1] == "]" else "") + "]"
    if op == "xany":
        return "{" + q_text(q["r"], style, andtok, bare) + "}"
    if op == "xonly":
        return "{" + q_text(q["r"], style, andtok, bare) + ":}"
    if op == "xopt":
        return "{" + q_text(q["r"], style, andtok, bare) + ": " + q_text(q["l"], style, andtok, bare) + "}"
    tok = andtok if op == "and" else "||"

    def side(x, right):
        s = q_text(x, style, andtok, bare)
        if x["op"] in ("and", "or"):
            if style == 1 and ((not right and x["op"] == op) or (op == "or" and x["op"] == "and")):
                return s
            return "(" + s + ")"
        return s
    return side(q["l"], False) + " " + tok + " " + side(q["r"], True)


def q_map(q, fn):
    """Copy of q with every atom replaced by fn(atom)."""
    if q["op"] in ATOM_OPS:
        return fn(q)
    out = {"op": q["op"]}
    if "t" in q:
        out["t"] = q["t"]
    if "l" in q:
        out["l"] = q_map(q["l"], fn)
    if "r" in q:
        out["r"] = q_map(q["r"], fn)
    return out


def q_key(q):
    return json.dumps(q, sort_keys=True)


def q_shape(q):
    return q["op"]


def q_core(q):
    """Only the constructs whose meaning the statement fixes: term / "term" / term* / && / ||."""
    if q["op"] in ATOM_OPS:
        return True
    if q["op"] in ("and", "or"):
        return q_core(q["l"]) and q_core(q["r"])
    return False


# --------------------------------------------------------------------------------------------------
# vocabulary (vf/facts.py only) and families
# --------------------------------------------------------------------------------------------------
def vkey(t, val=None):
    return t["name"].casefold() + ("/" + val.casefold() if val else "")


def vocab_entry(t, val=None):
    return {"terms": [x.casefold() for x in t["long"].split("/")], "short": vkey(t, val)}


def tag_forms(f, t, val=None):
    forms = f.suffix_forms(t)
    forms = [forms[0], forms[-1]] + ([forms[len(forms) // 2]] if len(forms) > 2 else [])
    return [x + ("/" + val if val else "") for x in forms]


def propose_families(f, rng, want):
    """Candidate concretisations of {p, ra, rb, c, v/x}: two children of a common parent whose short forms
    share a prefix, an unrelated tag, an unrelated value-taking tag.  TLC decides which ones are faithful."""
    real = f.real_tags()
    top = lambda t: t["long"].split("/")[0]
    parents = []
    for t in real:
        kids = [f.by_long[c] for c in t["children"] if not c.endswith("/#")]
        best = None
        for a in kids:
            for b in kids:
                if a is b:
                    continue
                cp = os.path.commonprefix([a["name"].casefold(), b["name"].casefold()])
                if cp and cp not in (a["name"].casefold(), b["name"].casefold()) \
                        and not t["name"].casefold().startswith(cp):
                    if best is None or len(cp) > len(best[2]):
                        best = (a, b, cp)
        if best:
            parents.append((t,) + best)
    vtags = [t for t in real if t["has_value_child"]]
    others = list(real)
    rng.shuffle(parents)
    rng.shuffle(vtags)
    rng.shuffle(others)
    vals = ["x1", "abc", "3", "Some-value", "q_7"]
    out = []
    oi = vi = 0
    for k in range(want):
        p, ra, rb, r = parents[k % len(parents)]
        for _ in range(len(others)):
            c = others[oi % len(others)]
            oi += 1
            if top(c) != top(p):
                break
        for _ in range(len(vtags)):
            v = vtags[vi % len(vtags)]
            vi += 1
            if top(v) != top(p) and v is not c:
                break
        # a shorter prefix now and then (still TLC-validated)
        if len(r) > 2 and k % 3 == 1:
            r = r[:len(r) - 1]
        out.append({"p": p, "ra": ra, "rb": rb, "c": c, "v": v, "val": vals[k % len(vals)], "r": r})
    return out


def family_labels(fam):
    return [vkey(fam["p"]), vkey(fam["ra"]), vkey(fam["rb"]), vkey(fam["c"]), vkey(fam["v"], fam["val"])]


def family_atom(fam, op, t):
    """Abstract atom -> real atom (casefolded text, as the model sees it)."""
    name = {"p": fam["p"], "ra": fam["ra"], "rb": fam["rb"], "c": fam["c"], "v": fam["v"]}
    if t == "v/x":
        txt = vkey(fam["v"], fam["val"])
    elif t == "r":
        txt = fam["r"]
    else:
        txt = vkey(name[t])
    return {"op": op, "t": txt}


def family_vocab(fam):
    return {vkey(fam["p"]): vocab_entry(fam["p"]), vkey(fam["ra"]): vocab_entry(fam["ra"]),
            vkey(fam["rb"]): vocab_entry(fam["rb"]), vkey(fam["c"]): vocab_entry(fam["c"]),
            vkey(fam["v"], fam["val"]): vocab_entry(fam["v"], fam["val"])}


def family_forms(f, fam):
    return {"p": tag_forms(f, fam["p"]), "ra": tag_forms(f, fam["ra"]), "rb": tag_forms(f, fam["rb"]),
            "c": tag_forms(f, fam["c"]), "v/x": tag_forms(f, fam["v"], fam["val"])}


def family_name(fam):
    return "%s>{%s,%s}|%s*|%s|%s/%s" % (fam["p"]["name"], fam["ra"]["name"], fam["rb"]["name"], fam["r"],
                                        fam["c"]["name"], fam["v"]["name"], fam["val"])


def vary_case(s, k):
    return [s, s.lower(), s.upper(), s.capitalize()][k % 4]


# --------------------------------------------------------------------------------------------------
# annotation trees -> HED strings
# --------------------------------------------------------------------------------------------------
def tree_string(par, texts, sep=", "):
    """par[k-1] = parent of node k (0 = root), texts[k-1] = tag text or None for a group."""
    kids = {}
    for k, p in enumerate(par, 1):
        kids.setdefault(p, []).append(k)

    def rec(g):
        parts = []
        for k in kids.get(g, []):
            if texts[k - 1] is None:
                parts.append("(" + rec(k) + ")")
            else:
                parts.append(texts[k - 1])
        return sep.join(parts)
    return rec(0)


def sibling_shuffle(par, lab, rng):
    """Another document order of the same annotation.  Returns (par2, lab2, perm) with perm[k-1] = new number of k."""
    kids = {}
    for k, p in enumerate(par, 1):
        kids.setdefault(p, []).append(k)
    order = []

    def rec(g):
        ks = list(kids.get(g, []))
        rng.shuffle(ks)
        for k in ks:
            order.append(k)
            rec(k)
    rec(0)
    new = {old: i for i, old in enumerate(order, 1)}
    par2 = [0] * len(par)
    lab2 = [None] * len(par)
    for old in order:
        par2[new[old] - 1] = new[par[old - 1]] if par[old - 1] else 0
        lab2[new[old] - 1] = lab[old - 1]
    return par2, lab2, [new[k] for k in range(1, len(par) + 1)]


# --------------------------------------------------------------------------------------------------
# execution on the real code
# --------------------------------------------------------------------------------------------------
def _schema():
    if "schema" not in _G:
        from hed import load_schema_version
        _G["schema"] = load_schema_version(SCHEMA_VERSION)
    return _G["schema"]


def snapshot(hs):
    """Everything observable about an annotation object: text forms and the identity structure."""
    groups = hs.get_all_groups()
    ident = tuple((id(g), id(g._parent) if g._parent is not None else 0,
                   tuple((id(c), str(c), id(c._parent)) for c in g.children)) for g in groups)
    return str(hs), hs.get_as_long(), hs.get_original_hed_string(), ident


def compile_query(text):
    """-> (handler or None, outcome) with outcome 'ok' | 'ValueError' | other exception name."""
    from hed.models.query_handler import QueryHandler
    try:
        return QueryHandler(text), "ok"
    except ValueError:
        return None, "ValueError"
    except Exception as ex:      # noqa
        return None, type(ex).__name__


def search(handler, hs):
    return bool(handler.search(hs))


def run_searches(hed_text, qtexts):
    """Fresh objects: the booleans of the queries on the annotation (None where a query does not compile)."""
    from hed import HedString
    hs = HedString(hed_text, _schema())
    out = []
    for t in qtexts:
        h, oc = compile_query(t)
        out.append(search(h, hs) if h else None)
    return out


class LawIndex:
    """Where the operands of the composite queries of a universe are (to check the laws on the code's answers)."""

    def __init__(self, queries):
        self.q = queries
        idx = {q_key(q): i for i, q in enumerate(queries)}
        self.atoms = [i for i, q in enumerate(queries) if q["op"] in ATOM_OPS]
        self.ors, self.ands, self.assoc = [], [], []
        for i, q in enumerate(queries):
            if q["op"] in ("and", "or"):
                il, ir = idx.get(q_key(q["l"])), idx.get(q_key(q["r"]))
                if il is None or ir is None:
                    continue
                if q["op"] == "or":
                    self.ors.append((i, il, ir))
                else:
                    sw = idx.get(q_key({"op": "and", "l": q["r"], "r": q["l"]}))
                    self.ands.append((i, il, ir, sw))
            if q["op"] == "and" and q["l"]["op"] == "and":
                a, b, c = q["l"]["l"], q["l"]["r"], q["r"]
                j = idx.get(q_key({"op": "and", "l": a, "r": {"op": "and", "l": b, "r": c}}))
                if j is not None:
                    self.assoc.append((i, j))


def and_chain(q):
    """operands of a pure conjunction of atoms (any nesting of &&), or None"""
    if q["op"] in ATOM_OPS:
        return [q]
    if q["op"] != "and":
        return None
    l, r = and_chain(q["l"]), and_chain(q["r"])
    return (l + r) if (l is not None and r is not None) else None


def check_chain(q, code_i, model_i, mk, i):
    """'A && B && C ...' over plain terms matches only via pairwise DIFFERENT tags: the model's answer for such a chain is
    exactly "there are that many different tags of one group, one per operand"; the code may not match where it says no."""
    ch = and_chain(q)
    if ch is not None and len(ch) >= 3 and code_i and not model_i:
        mk("distinct", "and-distinct-tags:chain%d" % len(ch),
           "a conjunction of %d terms matches although there are no %d different tags, one per term" % (len(ch), len(ch)), {"ab": i})


def check_laws(li, code, nodw, mk):
    """Laws of the statement on the code's own booleans.  mk(kind, key, text, indices) records a problem."""
    for i, il, ir in li.ors:
        if code[i] != (code[il] or code[ir]):
            mk("oriff", "or-iff:%s||%s" % (q_shape(li.q[il]), q_shape(li.q[ir])), "'A || B' = %s but A = %s, B = %s"
               % (code[i], code[il], code[ir]), {"ab": i, "a": il, "b": ir})
    for i, il, ir, sw in li.ands:
        if code[i] and not (code[il] and code[ir]):
            mk("andonly", "and-only-if-both:%s&&%s" % (q_shape(li.q[il]), q_shape(li.q[ir])),
               "'A && B' matches but A = %s, B = %s" % (code[il], code[ir]), {"ab": i, "a": il, "b": ir})
        if sw is not None and code[i] != code[sw]:
            mk("andsym", "and-symmetric:%s&&%s" % tuple(sorted((q_shape(li.q[il]), q_shape(li.q[ir])))),
               "'A && B' = %s but 'B && A' = %s" % (code[i], code[sw]), {"ab": i, "ba": sw})
        if code[i] and li.q[il]["op"] in ATOM_OPS and li.q[ir]["op"] in ATOM_OPS and (il, ir) in nodw:
            mk("distinct", "and-distinct-tags:%s&&%s" % (q_shape(li.q[il]), q_shape(li.q[ir])),
               "'A && B' matches although no two different tags match A and B", {"ab": i})
    for i, j in li.assoc:
        if code[i] != code[j]:
            mk("andassoc", "and-associative", "'(A && B) && C' = %s but 'A && (B && C)' = %s" % (code[i], code[j]),
               {"l": i, "r": j})


def _eval_tree(hed_text, handlers, handlers2=None):
    """Search every compiled query twice on one annotation object; check repeatability and no mutation.
    handlers2: the same query texts compiled a SECOND time in this process (used for the repeated search)."""
    from hed import HedString
    hs = HedString(hed_text, _schema())
    before = snapshot(hs)
    code = [search(h, hs) for h in handlers]
    again = [search(h, hs) for h in reversed(handlers2 or handlers)][::-1]
    after = snapshot(hs)
    return code, again, before == after, (before[0], after[0])


def _rejected(bad):
    t, oc = bad
    return ("wellformed-rejected:" + oc, "the well-formed query %r does not compile (%s)" % (t, oc),
            {"kind": "compile", "text": t, "expect": "accept"})


def _gen_worker(job):
    """Replay a slice of the TLC-emitted (annotation x query universe) cases."""
    tids, seed = job
    g = _G
    queries, li, fams = g["queries"], g["li"], g["fams"]
    out = {"n": 0, "true": 0, "problems": [], "drift": [], "drift_n": 0, "sib": 0, "samples": []}
    hcache = g.setdefault("hcache", {})
    batches = {}
    for tid in tids:
        tr = g["trees"][tid]
        rng = random.Random(seed * 1000003 + tid)
        fi = (tid + seed) % len(fams)
        fam = fams[fi]
        if fi not in hcache:
            texts = [q_text(q, style=fi % 2, andtok="," if fi % 3 == 2 else "&&", bare=bool(fi % 2))
                     for q in fam["cq_cased"]]
            hs_, hs2_, bad = [], [], None
            for t in texts:
                h, oc = compile_query(t)
                if h is None and bad is None:
                    bad = (t, oc)
                hs_.append(h)
            for t in texts:                 # ... and every text once more (compiling is repeatable too)
                h2, oc2 = compile_query(t)
                if h2 is None and bad is None:
                    bad = (t, oc2)
                hs2_.append(h2)
            hcache[fi] = (texts, hs_, bad, hs2_)
        texts, handlers, bad, handlers2 = hcache[fi]
        if bad:
            # a query the grammar (and the model's parser) accepts is refused: its documented meaning is unavailable
            out["problems"].append(_rejected(bad))
            continue
        forms = fam["forms"]

        def concrete(par, lab):
            tx = [None if l == "grp" else forms[l][rng.randrange(len(forms[l]))] for l in lab]
            return tree_string(par, tx, sep=rng.choice([", ", ","]))
        s = concrete(tr["par"], tr["lab"])
        code, again, same, strs = _eval_tree(s, handlers, handlers2)
        exp = tr["res"]
        nodw = tr["nodw"]
        out["n"] += len(code)
        out["true"] += sum(exp)

        def mk(kind, key, text, ix, hed=s, hed2=None):
            rp = {"kind": kind, "hed": s if hed is None else hed, "schema": SCHEMA_VERSION}
            if hed2 is not None:
                rp["hed2"] = hed2
            for k, v in ix.items():
                rp[k] = texts[v] if type(v) is int else v
            out["problems"].append((key, "annotation %r (family %s): %s; queries %s"
                                    % (rp["hed"], fam["name"], text, {k: rp[k] for k in ix}), rp))
        if not same:
            mk("mutation", "mutation", "searching changed the annotation object: str before %r, after %r" % strs,
               {"queries": list(texts)})
        for i, (a, b) in enumerate(zip(code, again)):
            if a != b:
                mk("repeat", "repeat:%s" % q_shape(queries[i]), "two searches of the same query answered %s then %s" % (a, b),
                   {"query": i})
        for i, (c, e) in enumerate(zip(code, exp)):
            if c != e:
                q = queries[i]
                if q["op"] in ATOM_OPS:
                    mk("atom", "term-semantics:%s:%s" % ({"term": "bare", "exact": "quoted", "prefix": "star"}[q["op"]],
                                                         "false-match" if c else "missed-match"),
                       "model (schema facts) says %s, code says %s" % (e, c), {"query": i, "expected": bool(e)})
                else:
                    out["drift_n"] += 1
                    if len(out["drift"]) < 5:
                        out["drift"].append({"hed": s, "query": texts[i], "model": e, "code": c})
        check_laws(li, code, nodw, mk)
        for i, q in enumerate(queries):
            check_chain(q, code[i], exp[i], mk, i)
        # the same annotation with siblings in another order: same answers (and the model's answers for it)
        if tr["n"] > 1:
            par2, lab2, perm = sibling_shuffle(tr["par"], tr["lab"], rng)
            if (par2, lab2) != (tr["par"], tr["lab"]):
                s2 = concrete(par2, lab2)
                code2, again2, same2, strs2 = _eval_tree(s2, handlers)
                out["sib"] += 1
                out["n"] += len(code2)
                for i, (a, b) in enumerate(zip(code, code2)):
                    if a != b:
                        mk("sibling", "sibling-order:%s" % q_shape(queries[i]),
                           "answer %s, with siblings reordered (%r) %s" % (a, s2, b), {"query": i}, hed2=s2)
                t2 = g["bykey"].get((tuple(par2), tuple(lab2)))
                if t2 is not None:
                    for i, (c, e) in enumerate(zip(code2, g["trees"][t2]["res"])):
                        if c != e and queries[i]["op"] not in ATOM_OPS:
                            out["drift_n"] += 1
        batches.setdefault(fi, []).append((s, list(code)))
        if len(out["samples"]) < 2 and tr["n"] >= 3 and any(exp):
            i = exp.index(True, len(exp) // 2) if True in exp[len(exp) // 2:] else exp.index(True)
            out["samples"].append({"annotation": s, "query": texts[i], "model": exp[i], "code": code[i]})
        out["problems"] = out["problems"][:40]
    # the batch interface: many annotations (with None / empty entries in between) against the same handlers at once must give,
    # row by row, what the single searches gave
    from hed import HedString
    from hed.models.query_service import search_hed_objs
    for fi, items in batches.items():
        texts, handlers, bad, handlers2 = hcache[fi]
        if bad:
            continue
        objs, want = [], []
        for j, (s, code) in enumerate(items[:60]):
            if j % 2 == 0:
                objs.append(None if j % 4 == 0 else HedString("", _schema()))
                want.append([0] * len(handlers))
            objs.append(HedString(s, _schema()))
            # (an annotation without any tag is an "empty entry": documented to give 0 for every query)
            want.append([int(bool(c)) for c in code] if objs[-1] else [0] * len(handlers))
        try:
            df = search_hed_objs(objs, handlers, ["q%d" % k for k in range(len(handlers))])
            got = [[int(x) for x in row] for row in df.values.tolist()]
        except Exception as ex:  # noqa
            got = "raised %s: %s" % (type(ex).__name__, ex)
        if got != want:
            k = next((i for i in range(len(want)) if not isinstance(got, list) or i >= len(got) or got[i] != want[i]), 0)
            out["problems"].append(("batch-differs", "search_hed_objs over %d annotations (None / empty entries in between): row %d (%r) is %s, "
                                    "the single searches gave %s" % (len(objs), k, str(objs[k]) if objs[k] is not None else None,
                                                                     got[k] if isinstance(got, list) and k < len(got) else got, want[k]),
                                    {"kind": "batch", "hed": [str(o) if o is not None else None for o in objs], "queries": list(texts), "schema": SCHEMA_VERSION}))
    return out


def _deep_worker(job):
    """Replay a slice of the random deep cases judged by TLC in trace mode."""
    cases = job
    out = {"n": 0, "problems": [], "drift": [], "drift_n": 0, "modellaw": [], "samples": []}
    for c in cases:
        v = c["verdict"]
        texts = c["texts"]
        handlers, handlers2, bad = [], [], None
        for t in texts:
            h, oc = compile_query(t)
            if h is None and bad is None:
                bad = (t, oc)
            handlers.append(h)
        for t in texts:
            h2, oc2 = compile_query(t)
            if h2 is None and bad is None:
                bad = (t, oc2)
            handlers2.append(h2)
        if bad:
            out["problems"].append(_rejected(bad))
            continue
        s, s2 = c["hed"], c["hed2"]
        code, again, same, strs = _eval_tree(s, handlers, handlers2)
        out["n"] += len(code)

        def mk(kind, key, text, ix, hed2=None):
            rp = {"kind": kind, "hed": s, "schema": SCHEMA_VERSION}
            if hed2 is not None:
                rp["hed2"] = hed2
            for k, val in ix.items():
                rp[k] = texts[val] if type(val) is int else val
            out["problems"].append((key, "annotation %r: %s; queries %s" % (s, text, {k: rp[k] for k in ix}), rp))
        if not same:
            mk("mutation", "mutation", "searching changed the annotation object: str before %r, after %r" % strs,
               {"queries": list(texts)})
        for i, (a, b) in enumerate(zip(code, again)):
            if a != b:
                mk("repeat", "repeat:%s" % q_shape(c["qs"][i]), "two searches answered %s then %s" % (a, b), {"query": i})
        for i, (cv, e) in enumerate(zip(code, v["res"])):
            if cv != e:
                q = c["qs"][i]
                if q["op"] in ATOM_OPS:
                    mk("atom", "term-semantics:%s:%s" % ({"term": "bare", "exact": "quoted", "prefix": "star"}[q["op"]],
                                                         "false-match" if cv else "missed-match"),
                       "model (schema facts) says %s, code says %s" % (e, cv), {"query": i, "expected": bool(e)})
                else:
                    out["drift_n"] += 1
                    if len(out["drift"]) < 5:
                        out["drift"].append({"hed": s, "query": texts[i], "model": e, "code": cv})
        for i, q in enumerate(c["qs"]):
            check_chain(q, code[i], v["res"][i], mk, i)
        L = c["law"]
        if L:
            a, b, cc, o, ab, ba, l3, r3 = [x - 1 for x in L]
            if code[o] != (code[a] or code[b]):
                mk("oriff", "or-iff:%s||%s" % (q_shape(c["qs"][a]), q_shape(c["qs"][b])),
                   "'A || B' = %s but A = %s, B = %s" % (code[o], code[a], code[b]), {"ab": o, "a": a, "b": b})
            if code[ab] and not (code[a] and code[b]):
                mk("andonly", "and-only-if-both:%s&&%s" % (q_shape(c["qs"][a]), q_shape(c["qs"][b])),
                   "'A && B' matches but A = %s, B = %s" % (code[a], code[b]), {"ab": ab, "a": a, "b": b})
            if code[ab] != code[ba]:
                mk("andsym", "and-symmetric:%s&&%s" % tuple(sorted((q_shape(c["qs"][a]), q_shape(c["qs"][b])))),
                   "'A && B' = %s but 'B && A' = %s" % (code[ab], code[ba]), {"ab": ab, "ba": ba})
            if code[l3] != code[r3]:
                mk("andassoc", "and-associative", "'(A && B) && C' = %s but 'A && (B && C)' = %s" % (code[l3], code[r3]),
                   {"l": l3, "r": r3})
            for (x, y), w in zip(c["dw"], v["dw"]):
                if code[ab] and not w:
                    mk("distinct", "and-distinct-tags:%s&&%s" % (q_shape(c["qs"][a]), q_shape(c["qs"][b])),
                       "'A && B' matches although no two different tags match A and B", {"ab": ab})
            if v["lawfails"]:
                out["modellaw"].append({"hed": s, "laws": v["lawfails"], "A": texts[a], "B": texts[b], "C": texts[cc],
                                        "code_agrees": [code[i] for i in (a, b, cc, o, ab, ba, l3, r3)] ==
                                                       [v["res"][i] for i in (a, b, cc, o, ab, ba, l3, r3)]})
        if s2 is not None:
            code2, _, same2, _ = _eval_tree(s2, handlers)
            out["n"] += len(code2)
            for i, (x, y) in enumerate(zip(code, code2)):
                if x != y:
                    mk("sibling", "sibling-order:%s" % q_shape(c["qs"][i]),
                       "answer %s, with siblings reordered (%r) %s" % (x, s2, y), {"query": i}, hed2=s2)
            for i, (cv, e) in enumerate(zip(code2, v["res2"])):
                if cv != e and c["qs"][i]["op"] not in ATOM_OPS:
                    out["drift_n"] += 1
        if len(out["samples"]) < 1 and any(v["res"]):
            i = v["res"].index(True)
            out["samples"].append({"annotation": s, "query": texts[i], "model": True, "code": code[i]})
        out["problems"] = out["problems"][:40]
    return out


def _text_worker(items):
    """Compile query texts; items = verdict dicts from TLC (text, balanced, strict, lenient, swallowed)."""
    out = {"n": 0, "problems": [], "drift": [], "drift_n": 0, "accepted": 0, "rejected": 0, "unbalanced": 0,
           "lenient_extra": 0}
    for c in items:
        h, oc = compile_query(c["text"])
        out["n"] += 1
        if oc == "ok":
            out["accepted"] += 1
        else:
            out["rejected"] += 1
        if not c["balanced"]:
            out["unbalanced"] += 1
        if oc not in ("ok", "ValueError"):
            out["problems"].append(("compile-raises:" + oc,
                                    "QueryHandler(%r) raised %s instead of compiling or ValueError" % (c["text"], oc),
                                    {"kind": "compile", "text": c["text"], "expect": "compile-or-valueerror"}))
        if oc == "ok" and not c["balanced"]:
            sw = c.get("swallowed", "")
            cls = "closing-symbol-as-term" if sw in (")", "]", "}") else \
                  "double-bracket-as-term" if sw in ("[[", "]]") else "other"
            out["problems"].append(("unbalanced-accepted:" + cls,
                                    "QueryHandler(%r) compiles although its grouping symbols are unbalanced%s"
                                    % (c["text"], " (the token %r is taken as a search term)" % sw if sw else ""),
                                    {"kind": "compile", "text": c["text"], "expect": "reject"}))
        if oc == "ok" and c["balanced"] and not c["strict"]:
            out["lenient_extra"] += 1
        # the required parser accepts => compile; even the parser as implemented rejects => reject; texts in
        # between (a grouping token swallowed as a term) may go either way without drift
        if (c["strict"] and oc != "ok") or (not c["lenient"] and oc == "ok"):
            out["drift_n"] += 1
            if len(out["drift"]) < 5:
                out["drift"].append({"text": c["text"], "model_strict": c["strict"], "model_lenient": c["lenient"], "code": oc})
        if oc == "ok" and not c["strict"]:
            out["swallowing"] = out.get("swallowing", 0) + 1
        # keep one problem per key per slice
        seen, keep = set(), []
        for p in out["problems"]:
            if p[0] not in seen:
                seen.add(p[0])
                keep.append(p)
        out["problems"] = keep
    return out


def _pool(n):
    return mp.get_context("fork").Pool(n)


def _slices(xs, n):
    k = max(1, (len(xs) + n - 1) // n)
    return [xs[i:i + k] for i in range(0, len(xs), k)]


# --------------------------------------------------------------------------------------------------
# random deep cases over the real vocabulary
# --------------------------------------------------------------------------------------------------
def random_tree(rng, labels, max_nodes, max_depth=4):
    n = rng.randint(1, max_nodes)
    par, lab, depth = [], [], {0: 0}
    for k in range(1, n + 1):
        # open groups: the ancestors-or-self chain of the previous node
        opens = [0]
        if k > 1:
            x = k - 1
            chain = []
            while x:
                chain.append(x)
                x = par[x - 1]
            opens += [g for g in chain if lab[g - 1] == "grp"]
        opens = [g for g in opens if depth[g] + 1 <= max_depth]
        p = rng.choice(opens) if rng.random() < 0.6 else max(opens)
        l = "grp" if (rng.random() < 0.3 and depth[p] + 1 < max_depth) else rng.choice(labels)
        par.append(p)
        lab.append(l)
        depth[k] = depth[p] + 1
    return par, lab


def random_query(rng, atoms, depth, allow_neg=True, allow_wild=True):
    def has(q, op):
        return q["op"] == op or any(has(q[k], op) for k in ("l", "r") if k in q)
    if depth <= 0 or rng.random() < 0.22:
        if allow_wild and rng.random() < 0.15:
            return {"op": "wild", "t": rng.randint(1, 3)}
        return dict(rng.choice(atoms))
    op = rng.choice(["and", "and", "or", "or", "not", "desc", "xany", "xonly", "xopt"])
    if op == "not":
        if not allow_neg:
            op = "desc"
        else:
            return {"op": "not", "r": random_query(rng, atoms, depth - 1, True, False)}
    if op in ("and", "or"):
        return {"op": op, "l": random_query(rng, atoms, depth - 1, allow_neg, allow_wild),
                "r": random_query(rng, atoms, depth - 1, allow_neg, allow_wild)}
    if op in ("desc", "xany"):
        return {"op": op, "r": random_query(rng, atoms, depth - 1, allow_neg, allow_wild)}
    if op == "xonly":
        return {"op": op, "r": random_query(rng, atoms, depth - 1, False, allow_wild)}
    return {"op": "xopt", "r": random_query(rng, atoms, depth - 1, False, allow_wild),
            "l": random_query(rng, atoms, depth - 1, False, allow_wild)}


def build_deep_cases(f, rng, fams, count, max_nodes):
    """(annotation, A, B, C) tuples over real tags: family tags plus tags drawn from the whole schema."""
    real = f.real_tags()
    vocab, cases, used = {}, [], set()
    for ci in range(count):
        fam = fams[ci % len(fams)]
        pool = [(fam[k], None) for k in ("p", "ra", "rb", "c")] + [(fam["v"], fam["val"])]
        for _ in range(rng.randint(0, 3)):
            t = rng.choice(real)
            pool.append((t, rng.choice(["x1", "7"]) if (t["has_value_child"] and rng.random() < 0.5) else None))
        # relatives make term matching interesting: parents / children of pool members
        for t, _v in list(pool[:4]):
            if t["parent"] and rng.random() < 0.3:
                pool.append((f.by_long[t["parent"]], None))
            ch = [c for c in t["children"] if not c.endswith("/#")]
            if ch and rng.random() < 0.3:
                pool.append((f.by_long[rng.choice(ch)], None))
        labels = []
        for t, v in pool:
            k = vkey(t, v)
            vocab[k] = vocab_entry(t, v)
            used.add(t["long"])
            labels.append(k)
        labels = sorted(set(labels))
        info = {vkey(t, v): (t, v) for t, v in pool}
        atoms = []
        for k in labels:
            t, v = info[k]
            terms = vocab[k]["terms"]
            atoms.append({"op": "term", "t": rng.choice(terms)})
            atoms.append({"op": "term", "t": terms[-1]})
            atoms.append({"op": "exact", "t": k})
            if v:
                atoms.append({"op": "exact", "t": terms[-1]})
            atoms.append({"op": "prefix", "t": k[:rng.randint(1, len(k))]})
        par, lab = random_tree(rng, labels, max_nodes)
        core = rng.random() < 0.4
        if core:
            A = rng.choice(atoms) if rng.random() < 0.6 else random_query_core(rng, atoms, 2)
            B = rng.choice(atoms) if rng.random() < 0.6 else random_query_core(rng, atoms, 2)
            C = rng.choice(atoms) if rng.random() < 0.6 else random_query_core(rng, atoms, 1)
        else:
            A = random_query(rng, atoms, rng.randint(1, 3))
            B = random_query(rng, atoms, rng.randint(0, 3))
            C = random_query(rng, atoms, rng.randint(0, 2))
        A, B, C = dict(A), dict(B), dict(C)
        An = lambda x, y: {"op": "and", "l": x, "r": y}
        qs = [A, B, C, {"op": "or", "l": A, "r": B}, An(A, B), An(B, A), An(An(A, B), C), An(A, An(B, C))]
        extra = random_query(rng, atoms, 4)
        qs.append(extra)
        dw = [[1, 2]] if A["op"] in ATOM_OPS and B["op"] in ATOM_OPS else []
        par2, lab2, perm = sibling_shuffle(par, lab, rng)
        if (par2, lab2) == (par, lab):
            perm = []
        # concrete texts
        def txt(l, info=info):
            if l == "grp":
                return None
            t, v = info[l]
            forms = tag_forms(f, t, v)
            return forms[rng.randrange(len(forms))]
        s = tree_string(par, [txt(l) for l in lab], sep=rng.choice([", ", ","]))
        s2 = tree_string(par2, [txt(l) for l in lab2]) if perm else None
        style, andtok, bare = rng.randint(0, 1), rng.choice(["&&", "&&", ","]), rng.random() < 0.5
        cased = [q_map(q, lambda a: {"op": a["op"], "t": vary_case(a["t"], rng.randint(0, 3))}) for q in qs]
        texts = [q_text(q, style, andtok, bare) for q in cased]
        # the atom texts exactly as the parser sees them (casefolded) with the mode the AST intends
        atoms_seen = {}

        def collect(qa, qc):
            if qa["op"] in ATOM_OPS:
                atoms_seen[q_text(qc, style, andtok, bare).casefold()] = qa
            for k in ("l", "r"):
                if k in qa:
                    collect(qa[k], qc[k])
        for qa, qc in zip(qs, cased):
            collect(qa, qc)
        cases.append({"n": len(par), "par": par, "lab": lab, "qs": qs, "perm": perm, "dw": dw,
                      "atoms": [[t, a] for t, a in sorted(atoms_seen.items())],
                      "law": [1, 2, 3, 4, 5, 6, 7, 8], "hed": s, "hed2": s2, "texts": texts, "core": core})
    return vocab, cases, used


def random_query_core(rng, atoms, depth):
    if depth <= 0 or rng.random() < 0.3:
        return dict(rng.choice(atoms))
    return {"op": rng.choice(["and", "or"]), "l": random_query_core(rng, atoms, depth - 1),
            "r": random_query_core(rng, atoms, depth - 1)}


# --------------------------------------------------------------------------------------------------
# random query texts: grammar to depth 3-4 and unbalanced variants
# --------------------------------------------------------------------------------------------------
def build_texts(rng, fams, count):
    out = []
    words = []
    for fam in fams:
        words += [fam["p"]["name"], fam["ra"]["name"], fam["c"]["name"], '"%s"' % fam["rb"]["name"], fam["r"] + "*",
                  fam["v"]["name"] + "/" + fam["val"], '"%s/%s"' % (fam["v"]["name"], fam["val"])]
    atoms = [{"op": "term", "t": w} for w in words]
    groupers = "()[]{}"
    for i in range(count):
        q = random_query(rng, atoms, rng.randint(1, 4), True, True)
        if rng.random() < 0.15:        # ill-formed on purpose: negated wildcards, negation in { : }
            q = rng.choice([{"op": "not", "r": {"op": "and", "l": q, "r": {"op": "wild", "t": rng.randint(1, 3)}}},
                            {"op": "xonly", "r": {"op": "and", "l": q, "r": {"op": "not", "r": dict(atoms[0])}}}])
        s = q_text(q, rng.randint(0, 1), rng.choice(["&&", ","]))
        if rng.random() < 0.3:
            s = s.replace(" ", "")
        out.append(s)
        # unbalanced / damaged variants
        for _ in range(2):
            t = list(s)
            kind = rng.choice(["del", "ins", "swap", "junk", "dup"])
            gpos = [j for j, ch in enumerate(t) if ch in groupers]
            if kind == "del" and gpos:
                del t[rng.choice(gpos)]
            elif kind == "ins":
                t.insert(rng.randint(0, len(t)), rng.choice(groupers))
            elif kind == "swap" and gpos:
                j = rng.choice(gpos)
                t[j] = rng.choice(groupers)
            elif kind == "dup" and gpos:
                j = rng.choice(gpos)
                t.insert(j, t[j])
            else:
                t.insert(rng.randint(0, len(t)), rng.choice(["$", "&", "|", "!", ":", "~", "?", "@", "%", "="]))
            out.append("".join(t))
    return out


# --------------------------------------------------------------------------------------------------
# the check
# --------------------------------------------------------------------------------------------------
def _report(ctx, res):
    for key, text, rp in res.get("problems", []):
        ctx.violation(key, text, rp)
    if res.get("drift_n"):
        ctx.bump("spec_drift", res["drift_n"])
        ex = ctx.extra.setdefault("spec_drift_examples", [])
        for d in res.get("drift", []):
            if len(ex) < 12:
                ex.append(d)


def _expect_violation(ctx, cfg, inv, label, **kw):
    r = ctx.tlc("MC_Query", cfg, expect_ok=False, env=JAVA_ENV, label=label, **kw)
    if r.violated != inv:
        raise tlc.TLCFailure("%s: expected %s to be violated, TLC reported %r" % (cfg, inv, r.violated))
    return r


def _design_runs(ctx, quick, ncpu):
        # ---- 1. design runs: the laws on the model --------------------------------------------------
    r = ctx.tlc("MC_Query", "MC_Query.cfg", workers=ncpu, coverage=True, env=JAVA_ENV, timeout=900,
                label="laws on all annotation trees <= 4 nodes")
    ctx.note("law_trees_checked", r.distinct)
    if not quick:
        r = ctx.tlc("MC_Query", "MC_Query_big.cfg", workers=ncpu, env=JAVA_ENV, timeout=1500,
                    label="laws, larger query universes, trees <= 4 nodes")
        r = ctx.tlc("MC_Query", "MC_Query_deep.cfg", workers=ncpu, env=JAVA_ENV, timeout=1800,
                    label="laws, medium query universes, all annotation trees <= 5 nodes")
        ctx.note("law_trees_checked", r.distinct)
    # sensitivity: broken variants of the semantics must violate the laws; vacuity guards must fail
    for cfg, inv in [("MC_Query_nodisjoint.cfg", "AndDistinctTags"), ("MC_Query_asym.cfg", "AndSymmetric"),
                     ("MC_Query_orleft.cfg", "OrIff")]:
        _expect_violation(ctx, cfg, inv, "sensitivity: broken semantics, %s must be violated" % inv, workers=2, timeout=300)
    if not quick:       # vacuity guards as TLC runs (the quick tier reads the same facts off the emitted cases)
        for cfg, inv in [("MC_Query_vac_and.cfg", "NeverAndMatch"), ("MC_Query_vac_sib.cfg", "NeverReordered")]:
            _expect_violation(ctx, cfg, inv, "vacuity: %s must be violated" % inv, workers=2, timeout=300)
    ctx.note("sensitivity_runs_violated_as_expected", 3)

    # ---- 2. design runs: tokenizer / parser -----------------------------------------------------
    ctx.tlc("MC_Query", "MC_QueryText.cfg", workers=ncpu, coverage=True, env=JAVA_ENV, timeout=900,
            label="parser: PDA = recursive descent, unbalanced rejected, all lexeme strings <= 4 (core alphabet)")
    if not quick:
        ctx.tlc("MC_Query", "MC_QueryText_deep.cfg", workers=ncpu, env=JAVA_ENV, timeout=1800,
                label="parser invariants, all lexeme strings <= 5 (core alphabet)")
    rl = _expect_violation(ctx, "MC_QueryText_lenient.cfg", "UnbalancedRejectedLenient",
                           "the parser as the code implements it does NOT reject all unbalanced texts", workers=2, timeout=300)
    if not quick:
        for cfg, inv in [("MC_QueryText_vac_acc.cfg", "NeverAccepts"), ("MC_QueryText_vac_unb.cfg", "NeverUnbalanced")]:
            _expect_violation(ctx, cfg, inv, "vacuity: %s must be violated" % inv, workers=2, timeout=300)
    ctx.note("model_of_code_parser_violates_UnbalancedRejected", True)



def run(ctx):
    quick = ctx.quick
    ncpu = min(16, os.cpu_count() or 4)
    f = facts.load(SCHEMA_VERSION)
    import hed  # noqa  (imported once in the parent, workers are forked)
    _schema()
    ctx.rule = ("cases = (annotation tree x query) pairs: every tree with <= N nodes over {p-child ra, p-child rb, unrelated c, "
                "the parent p, value tag v/x, group} x the query universe of MC_Query.tla (all queries with <= 1 operator "
                "over 12 atoms and 3 wildcards, selected depth-2/3 shapes), concretised with real 8.3.0 tag families "
                "(TLC-validated) in short/long/intermediate spelling; plus seeded random annotations (<= 12 nodes, depth <= 4) "
                "x (A, B, C) law tuples over the real vocabulary judged by TLC in trace mode; plus every lexeme string "
                "<= M tokens and random grammar texts with damaged brackets for the parser.  distinct = abstract "
                "(tree, query) pair; non-trivial = the model says the query matches")
    ctx.exhaustive = True
    ctx.assumptions += [
        "annotations are built from schema tags of HED 8.3.0 (no unknown tags, no definitions); empty groups included",
        "completeness of && (it matches whenever both operands match via distinct tags) is NOT claimed by the "
        "statement; disagreements there and on [ ], { }, {:}, ?, ~ are reported as spec drift",
        "query texts are ASCII",
    ]

    if os.environ.get("VERIF_C15_SKIP_DESIGN"):      # development aid (mutation testing): the design runs do not touch /repo
        ctx.note("design_runs", "SKIPPED by VERIF_C15_SKIP_DESIGN")
    else:
        _design_runs(ctx, quick, ncpu)

    # ---- 3. families: real tags for the abstract vocabulary, validated by TLC -------------------
    want = 8 if quick else 40
    cands = propose_families(f, ctx.rng, want * 2)
    vocab = {}
    fam_items = []
    for fam in cands:
        vocab.update(family_vocab(fam))
        fam_items.append({"labs": family_labels(fam), "atoms": [family_atom(fam, op, t) for op, t in GA]})
    path = os.path.join(ctx.work, "families.json")
    with open(path, "w") as fh:
        json.dump({"vocab": vocab, "families": fam_items, "cases": [], "texts": []}, fh)
    r = ctx.tlc("Trace_Query", "Trace_Query.cfg", workers=4, env=dict(JAVA_ENV, TRACE_FILE=path), timeout=600,
                label="family validation (%d candidates)" % len(cands))
    okf = {j["family"] for j in r.json_lines if "family" in j and j["ok"]}
    seen_f = {j["family"] for j in r.json_lines if "family" in j}
    if len(seen_f) != len(cands):
        raise tlc.TLCFailure("family validation: %d verdicts for %d candidates" % (len(seen_f), len(cands)))
    fams = [fam for i, fam in enumerate(cands, 1) if i in okf][:want]
    if len(fams) < 3:
        raise tlc.TLCFailure("only %d tag families validated" % len(fams))
    for fam in fams:
        fam["name"] = family_name(fam)
        fam["forms"] = family_forms(f, fam)
    ctx.note("families", [fam["name"] for fam in fams])
    ctx.note("families_rejected_by_tlc", len(cands) - len(okf))

    # ---- 4. binding A: TLC-emitted (tree x query) cases replayed ---------------------------------
    def replay_gen(cfgname, label, tag):
        r = ctx.tlc("MC_Query", cfgname, workers=ncpu, env=JAVA_ENV, timeout=1800, label=label)
        qline = [j for j in r.json_lines if "queries" in j]
        trees = [j for j in r.json_lines if "res" in j]
        if len(qline) != 1 or len(trees) != r.distinct:
            raise tlc.TLCFailure("case generation: %d query lines, %d tree lines for %d states" % (len(qline), len(trees), r.distinct))
        queries = qline[0]["queries"]
        trees.sort(key=lambda t: (t["n"], t["par"], t["lab"]))
        for t in trees:
            t["nodw"] = {(a - 1, b - 1) for a, b in t["nodw"]}
            if len(t["res"]) != len(queries):
                raise tlc.TLCFailure("case generation: truncated line")
        for k, fam in enumerate(fams):
            cq = [q_map(q, lambda a: family_atom(fam, a["op"], a["t"])) for q in queries]
            names = {vkey(fam[x]): fam[x]["name"] for x in ("p", "ra", "rb", "c", "v")}

            def cased(a, k=k, names=names, fam=fam):
                t = a["t"]
                base = t.split("/")[0]
                orig = names.get(base, t)
                if t == vkey(fam["v"], fam["val"]):
                    orig = fam["v"]["name"] + "/" + fam["val"]
                return {"op": a["op"], "t": vary_case(orig if a["op"] != "prefix" else t, k)}
            fam["cq_cased"] = [q_map(q, cased) for q in cq]
        _G.update({"queries": queries, "li": LawIndex(queries), "fams": fams, "trees": trees,
                   "bykey": {(tuple(t["par"]), tuple(t["lab"])): i for i, t in enumerate(trees)}})
        _G.pop("hcache", None)
        reps = 1 if quick else 2
        jobs = []
        for rep in range(reps):
            ids = list(range(len(trees)))
            jobs += [(sl, ctx.seed + 7919 * rep) for sl in _slices(ids, ncpu * 2)]
        with _pool(ncpu) as pool:
            results = pool.map(_gen_worker, jobs)
        nsearch = 0
        for res in results:
            _report(ctx, res)
            nsearch += res["n"]
            ctx.traces += res["sib"]
            for s in res["samples"][:1]:
                ctx.sample(s, cap=3)
        ctx.traces += len(trees) * reps
        ctx.evaluations += nsearch
        for ti, t in enumerate(trees):
            ctx.nontrivial.update("%s%d" % (tag, ti * 4096 + i) for i, b in enumerate(t["res"]) if b)
        # vacuity: the antecedents of the laws occur among the emitted cases
        li = _G["li"]
        hits = {"and_matches": sum(1 for t in trees for i, _l, _r, _s in li.ands if t["res"][i]),
                "or_matches": sum(1 for t in trees for i, _l, _r in li.ors if t["res"][i]),
                "and_of_atoms_without_witness_pairs": sum(len(t["nodw"]) for t in trees),
                "associativity_pairs": len(li.assoc), "symmetric_pairs": sum(1 for a in li.ands if a[3] is not None),
                "annotations_reordered": sum(r["sib"] for r in results)}
        ctx.note("law_antecedent_hits" + tag, hits)
        if not tag and not all(hits.values()):
            raise tlc.TLCFailure("vacuous law check: %s" % hits)
        ctx.note("gen_trees" + tag, len(trees))
        ctx.note("gen_queries" + tag, len(queries))
        ctx.note("gen_searches_on_code" + tag, nsearch)

    replay_gen("MC_Query_gen.cfg" if quick else "MC_Query_gen4.cfg",
               "case generation: all trees x query universe with the model's booleans", "")
    if quick:
        # group operators need a group inside a group next to a tag: all 4-node trees x the group-operator universe
        replay_gen("MC_Query_gengrp.cfg", "case generation: 4-node trees x group-operator queries", "_grp")

    # ---- 4b. tags the schema does not know have NO schema path: a bare term never matches them, whatever it spells ------
    from hed import HedString as _HS
    schema_u = _schema()
    nun = 0
    for k, fam in enumerate(fams):
        known = [fam[x]["name"] for x in ("p", "ra", "c")]
        for ui, unk in enumerate(["Banana", "qqzzx", "Zz-top", "Redd"]):
            anns = ["%s, (%s, %s)" % (known[0], unk, known[1]), "(%s), %s" % (unk, known[2]), "%s" % unk,
                    "((%s, %s), %s)" % (known[1], unk, known[2])]
            qs = [(unk, False), (unk.lower(), False), (unk.upper(), False), ("%s && %s" % (unk, known[(ui + k) % 3]), False),
                  ("%s || %s" % (unk, unk.lower()), False), ("[%s]" % unk, False)]
            for an in anns[(ui + k + ctx.seed) % 2::2]:
                hs = _HS(an, schema_u)
                for qt, want in qs:
                    h, oc = compile_query(qt)
                    ctx.case("unknown-tag:%s|%s" % (an, qt))
                    nun += 1
                    if h is None:
                        continue
                    got = search(h, hs)
                    if got != want:
                        ctx.violation("term-semantics:bare:false-match:unidentified-tag",
                                      "annotation %r: the bare term %r matches although no tag has it on its schema path (%r is not a tag of the "
                                      "schema)" % (an, qt, unk), {"kind": "atom", "hed": an, "schema": SCHEMA_VERSION, "query": qt, "expected": want})
    ctx.note("unknown_tag_searches", nun)
    # ---- 5. binding A/B: random deep cases over the real vocabulary, judged by TLC --------------
    ndeep = 600 if quick else 9000
    vocab, cases, used = build_deep_cases(f, ctx.rng, fams, ndeep, 9 if quick else 12)
    path = os.path.join(ctx.work, "deep.json")
    with open(path, "w") as fh:
        json.dump({"vocab": vocab, "families": [], "texts": [],
                   "cases": [{k: c[k] for k in ("n", "par", "lab", "qs", "perm", "dw", "law", "atoms")} for c in cases]}, fh)
    r = ctx.tlc("Trace_Query", "Trace_Query.cfg", workers=ncpu, env=dict(JAVA_ENV, TRACE_FILE=path), timeout=2400,
                label="trace mode: %d random (annotation, A, B, C) tuples over real tags" % len(cases))
    verdicts = {j["case"]["i"]: j["case"] for j in r.json_lines if "case" in j}
    if len(verdicts) != len(cases):
        raise tlc.TLCFailure("trace mode: %d verdicts for %d cases" % (len(verdicts), len(cases)))
    good = []
    for i, c in enumerate(cases, 1):
        v = verdicts[i]
        if not v["treeok"]:
            raise tlc.TLCFailure("trace mode: generated case %d is not a well-formed tree/query: %s" % (i, c["hed"]))
        if not v["atomsok"]:
            raise tlc.TLCFailure("trace mode: case %d, the spec reads the atom texts %s differently from the renderer"
                                 % (i, c["atoms"]))
        c["verdict"] = v
        good.append(c)
        if v["sibfails"]:
            ctx.bump("model_sibling_order_dependent_cases")
    with _pool(ncpu) as pool:
        results = pool.map(_deep_worker, _slices(good, ncpu * 2))
    mlaw = []
    nd = 0
    for res in results:
        _report(ctx, res)
        nd += res["n"]
        mlaw += res["modellaw"]
        for s in res["samples"][:1]:
            ctx.sample(s, cap=6)
    ctx.evaluations += nd
    ctx.traces += len(good)
    for i, c in enumerate(good):
        ctx.nontrivial.update("d%d.%d" % (i, j) for j, b in enumerate(c["verdict"]["res"]) if b)
    ctx.note("deep_cases", len(good))
    ctx.note("deep_searches_on_code", nd)
    ctx.note("schema_tags_used", len(used))
    if mlaw:
        ctx.note("laws_failing_in_model_on_deep_cases", mlaw[:10])
        ctx.bump("model_law_failures", len(mlaw))

    # ---- 6. query texts: compile or ValueError, unbalanced rejected ------------------------------
    r = ctx.tlc("MC_Query", "MC_QueryText_gen.cfg" if quick else "MC_QueryText_gen4.cfg", workers=ncpu, env=JAVA_ENV,
                timeout=1800, label="text generation: all lexeme strings with the automaton's verdicts")
    items = []
    nstates = 0
    for j in r.json_lines:
        if "cases" in j:
            nstates += 1
            items += j["cases"]
    if nstates != r.distinct:
        raise tlc.TLCFailure("text generation: %d lines for %d states" % (nstates, r.distinct))
    rnd = build_texts(ctx.rng, fams, 400 if quick else 6000)
    path = os.path.join(ctx.work, "texts.json")
    with open(path, "w") as fh:
        json.dump({"vocab": {"x": {"terms": ["x"], "short": "x"}}, "families": [], "cases": [], "texts": rnd}, fh)
    r = ctx.tlc("Trace_Query", "Trace_Query.cfg", workers=ncpu, env=dict(JAVA_ENV, TRACE_FILE=path), timeout=1800,
                label="trace mode: %d random grammar texts and damaged variants" % len(rnd))
    tv = [j["textv"] for j in r.json_lines if "textv" in j]
    if len(tv) != len(rnd):
        raise tlc.TLCFailure("trace mode: %d text verdicts for %d texts" % (len(tv), len(rnd)))
    for v in tv:
        if v["rd"] != v["lenient"]:
            raise tlc.TLCFailure("PDA and recursive descent disagree on %r" % v["text"])
    items.sort(key=lambda c: (len(c["text"]), c["text"]))       # TLC workers print in no fixed order
    tv.sort(key=lambda c: c["i"])
    seen_t, allt = set(), []
    for c in items + tv:
        if c["text"] not in seen_t:
            seen_t.add(c["text"])
            allt.append(c)
    with _pool(ncpu) as pool:
        results = pool.map(_text_worker, _slices(allt, ncpu * 2))
    tot = {"n": 0, "accepted": 0, "rejected": 0, "unbalanced": 0, "lenient_extra": 0, "swallowing": 0}
    for res in results:
        _report(ctx, res)
        for k in tot:
            tot[k] += res.get(k, 0)
    ctx.evaluations += tot["n"]
    ctx.traces += tot["n"]
    ctx.nontrivial.update("t:" + c["text"] for c in allt if c["lenient"] or not c["balanced"])
    ctx.note("query_texts", tot)
    if not (tot["accepted"] and tot["rejected"] and tot["unbalanced"]):
        raise tlc.TLCFailure("vacuous parser check: %s" % tot)
    if ctx.extra.get("spec_drift"):
        print("SPEC-DRIFT C15: %d answers differ between model and code outside the statement's clauses, e.g. %s"
              % (ctx.extra["spec_drift"], json.dumps(ctx.extra.get("spec_drift_examples", [])[:2])))
    ctx.sample({"query_text": "( a || a ) && [ a ]", "model": "accept", "code": compile_query("( a || a ) && [ a ]")[1]}, cap=7)


# --------------------------------------------------------------------------------------------------
def replay(obj):
    """Re-execute one recorded concrete case on the real code.  ok=False: the violation reproduces."""
    kind = obj["kind"]
    if kind == "compile":
        h, oc = compile_query(obj["text"])
        if obj["expect"] == "accept":
            return oc == "ok", "QueryHandler(%r): %s (a well-formed query must compile)" % (obj["text"], oc)
        if obj["expect"] == "reject":
            return oc == "ValueError", "QueryHandler(%r): %s (unbalanced grouping symbols must raise ValueError)" % (obj["text"], oc)
        return oc in ("ok", "ValueError"), "QueryHandler(%r): %s" % (obj["text"], oc)
    hed = obj["hed"]

    def b(*names):
        return run_searches(hed, [obj[n] for n in names])
    if kind == "atom":
        (x,) = b("query")
        return x == obj["expected"], "%r on %r -> %s, expected %s" % (obj["query"], hed, x, obj["expected"])
    if kind == "oriff":
        ab, a, bb = b("ab", "a", "b")
        return ab == (a or bb), "A||B=%s A=%s B=%s on %r" % (ab, a, bb, hed)
    if kind == "andonly":
        ab, a, bb = b("ab", "a", "b")
        return (not ab) or (a and bb), "A&&B=%s A=%s B=%s on %r" % (ab, a, bb, hed)
    if kind == "andsym":
        ab, ba = b("ab", "ba")
        return ab == ba, "A&&B=%s B&&A=%s on %r" % (ab, ba, hed)
    if kind == "andassoc":
        l, r = b("l", "r")
        return l == r, "(A&&B)&&C=%s A&&(B&&C)=%s on %r" % (l, r, hed)
    if kind == "distinct":
        (ab,) = b("ab")
        return not ab, "%r on %r -> %s although no two different tags match the operands" % (obj["ab"], hed, ab)
    if kind == "sibling":
        (x,) = b("query")
        (y,) = run_searches(obj["hed2"], [obj["query"]])
        return x == y, "%r -> %s on %r, %s on %r" % (obj["query"], x, hed, y, obj["hed2"])
    if kind == "repeat":
        from hed import HedString
        hs = HedString(hed, _schema())
        h, _ = compile_query(obj["query"])
        x, y = search(h, hs), search(h, hs)
        return x == y, "%r on %r -> %s then %s" % (obj["query"], hed, x, y)
    if kind == "mutation":
        from hed import HedString
        hs = HedString(hed, _schema())
        before = snapshot(hs)
        for t in obj["queries"]:
            h, _ = compile_query(t)
            if h:
                search(h, hs)
        after = snapshot(hs)
        return before == after, "annotation %r after searching: %r" % (before[0], after[0])
    return True, "unknown replay kind %r" % kind


def selftest(ctx):
    """./check C15 --selftest: the replay executor tells right from wrong expectations (no TLC)."""
    _schema()
    probes = [
        ({"kind": "atom", "hed": "(Red, Blue), Green", "query": "Red-color", "expected": True}, True),
        ({"kind": "atom", "hed": "(Red, Blue), Green", "query": "Red-color", "expected": False}, False),
        ({"kind": "atom", "hed": "Label/abc", "query": '"Label"', "expected": False}, True),
        ({"kind": "oriff", "hed": "Red", "ab": "Red || Blue", "a": "Red", "b": "Blue"}, True),
        ({"kind": "oriff", "hed": "Red", "ab": "Red && Blue", "a": "Red", "b": "Blue"}, False),
        ({"kind": "distinct", "hed": "Red", "ab": "Red && Red"}, True),
        ({"kind": "distinct", "hed": "Red, Red", "ab": "Red && Red"}, False),
        ({"kind": "sibling", "hed": "(Red, Blue), Green", "hed2": "Green, (Blue, Red)", "query": "{Red && Blue}"}, True),
        ({"kind": "compile", "text": "(Red", "expect": "reject"}, True),
        ({"kind": "compile", "text": "Red && Blue", "expect": "reject"}, False),
    ]
    bad = 0
    for obj, want in probes:
        ok, text = replay(obj)
        print(("ok   " if ok == want else "WRONG") + " replay -> %s (wanted %s): %s" % (ok, want, text))
        bad += ok != want
    return 1 if bad else 0
