"""C19 — the schema cache never serves or keeps a torn schema file.

TLC: specs/Cache.tla (design runs, sensitivity runs, schedule generation, trace validation).
Binding: vf/sched.py drives real processes along TLC schedules (A) and random schedules (B);
every recorded run is validated against the spec by TLC (Trace_Cache.tla).
"""
import hashlib
import json
import multiprocessing as mp
import os
import random
import shutil
import time

from .. import sched, tlc

FILES = {"w": "HED8.0.0.xml", "v": "HED8.1.0.xml"}
WANT_VERSION = "8.1.0"
ROLES = {
    "Mixed": {"p1": "populate", "p2": "load", "p3": "load"},
    "Def": {"p1": "populate", "p2": "populate", "p3": "load"},
    "AllLoad": {"p1": "load", "p2": "load", "p3": "load"},
}
CFG_OF = {"Mixed": "MC_Cache_mixed.cfg", "Def": "MC_Cache.cfg", "AllLoad": "MC_Cache_allload.cfg"}
REAL2ABS = {v: k for k, v in FILES.items()}

_G = {}


def _setup_installed(work):
    import hed.schema.hed_cache as hc
    inst = os.path.join(work, "installed")
    os.makedirs(inst, exist_ok=True)
    src = os.path.realpath(os.path.join(os.path.dirname(hc.__file__), "schema_data"))
    sizes = {}
    for f in FILES.values():
        shutil.copyfile(os.path.join(src, f), os.path.join(inst, f))
        sizes[f] = os.path.getsize(os.path.join(inst, f))
    return inst, sizes


def _ref_digest(inst):
    from hed.schema import load_schema
    s = load_schema(os.path.join(inst, FILES["v"]))
    return hashlib.sha1(s.get_as_xml_string().encode()).hexdigest()


def _task(role):
    return ("load", WANT_VERSION) if role == "load" else ("populate",)


class Run:
    """One execution of real processes on a fresh cache directory."""

    def __init__(self, rid, roles, inst, sizes, ref, work):
        self.roles = roles
        self.inst = inst
        self.sizes = sizes
        self.ref = ref
        self.dir = os.path.join(work, "cache_%s_%d" % (rid, os.getpid()))
        shutil.rmtree(self.dir, ignore_errors=True)
        os.makedirs(self.dir)
        self.kids = {}
        self.in_cs = set()
        self.trace = []
        self.problems = []       # property-level violations (kind, text)
        self.drift = []

    def start(self, names):
        for p in names:
            self.kids[p] = sched.spawn(p, self.dir, self.inst, _task(self.roles[p]))

    def holder(self):
        return sorted(self.in_cs)[0] if self.in_cs else "none"

    def _events(self, p, evs):
        for e in evs:
            if e["ev"] == "cs_enter":
                if self.in_cs - {p}:
                    self.problems.append(("overlap", "%s entered the cache lock while %s holds it"
                                          % (p, sorted(self.in_cs - {p}))))
                self.in_cs.add(p)
            elif e["ev"] == "cs_exit":
                self.in_cs.discard(p)

    def step(self, p):
        k = self.kids[p]
        op = dict(k.pending)
        held_by_other = bool(self.in_cs - {p})
        k.grant()
        try:
            evs = k.advance()
        except TimeoutError:
            # the process neither reached its next file operation nor finished: it is stuck (e.g. blocked on the lock instead
            # of giving up after its timeout)
            self.problems.append(("lock-error", "%s did not come back from `%s` within %.0f s%s: a holder that cannot get the lock "
                                  "within its timeout must give up with the cache error" % (
                                      p, op["op"], sched.SILENT_TIMEOUT, " while another process holds the lock" if held_by_other else "")))
            k.kill()
            self.in_cs.discard(p)
            evs = []
        self._events(p, evs)
        if k.dead and not k.fin:
            self.problems.append(("died", "%s died unexpectedly at %s" % (p, op)))
            self.in_cs.discard(p)
        res = "pending"
        if k.fin:
            res = self._fin(p, k.fin)
        if op["op"] == "lock":
            refused = any(e["ev"] == "lock_refused" for e in evs)
            if held_by_other and not refused:
                pass    # reported as overlap by _events
            if refused:
                ex = [e for e in evs if e["ev"] == "lock_refused"][0]
                if ex.get("exc") != "CacheException":
                    self.problems.append(("lock-error", "lock refusal surfaced as %s, not CacheException" % ex.get("exc")))
                if not held_by_other and not ex.get("write_time"):
                    self.problems.append(("spurious-refusal", "%s was refused a free lock: %s" % (p, ex.get("msg"))))
        pr = sched.project(self.dir, list(FILES.values()), self.sizes)
        self.trace.append({"p": p, "op": op["op"], "cache": {REAL2ABS[f]: v for f, v in pr["cache"].items()},
                           "extra": pr["extra"], "lock": self.holder(), "res": res, "lf": pr["lockfile"]})
        return op, res

    def _fin(self, p, fin):
        role = self.roles[p]
        r = fin.get("result")
        if role == "load":
            if r != "ok":
                self.problems.append(("load-failed", "%s load_schema_version(%s) raised %s: %s"
                                      % (p, WANT_VERSION, fin.get("exc"), fin.get("msg"))))
                return "fail"
            if fin.get("digest") != self.ref:
                self.problems.append(("load-differs", "%s loaded content differs from the bundled schema" % p))
                return "fail"
            return "ok"
        if r == "ok":
            bad = self._compare_bytes()
            if bad:
                self.problems.append(("population-incomplete",
                                      "%s finished populating but %s" % (p, bad)))
            return "ok"
        if r == "cacheerr":
            return "cacheerr"
        self.problems.append(("populate-raised", "%s cache_local_versions raised %s: %s" % (p, fin.get("exc"), fin.get("msg"))))
        return "fail"

    def _compare_bytes(self):
        for f in FILES.values():
            a = os.path.join(self.dir, f)
            if not os.path.exists(a):
                return "%s is missing" % f
            with open(a, "rb") as x, open(os.path.join(self.inst, f), "rb") as y:
                if x.read() != y.read():
                    return "%s is not byte-identical to the installed copy" % f
        return None

    def crash(self, p):
        k = self.kids[p]
        k.kill()
        self.in_cs.discard(p)
        pr = sched.project(self.dir, list(FILES.values()), self.sizes)
        self.trace.append({"p": p, "op": "crash", "cache": {REAL2ABS[f]: v for f, v in pr["cache"].items()},
                           "extra": pr["extra"], "lock": self.holder(), "res": "pending", "lf": pr["lockfile"]})

    def live(self):
        return [p for p, k in self.kids.items() if not k.dead and not k.fin and k.pending]

    def drain(self, rng=None):
        n = 0
        while self.live() and n < 500:
            ps = self.live()
            self.step(rng.choice(ps) if rng else ps[0])
            n += 1

    def late_loader(self):
        self.roles = dict(self.roles, pL="load")
        self.kids["pL"] = sched.spawn("pL", self.dir, self.inst, _task("load"))
        while self.live():
            self.step("pL")

    def close(self):
        for k in self.kids.values():
            if not k.dead and not k.fin:
                k.kill()
            else:
                k.reap()
        shutil.rmtree(self.dir, ignore_errors=True)


def replay_schedule(args):
    """A: follow a TLC behaviour step by step, compare the real directory with the spec state."""
    rid, rolename, hist = args
    g = _G
    run = Run(rid, ROLES[rolename], g["inst"], g["sizes"], g["ref"], g["work"])
    mism = []
    try:
        run.start(sorted(ROLES[rolename]))
        free = False
        for i, h in enumerate(hist):
            p = h["p"]
            k = run.kids[p]
            if h["op"] == "crash":
                if not k.dead and not k.fin:
                    run.crash(p)
                continue
            if k.dead or k.fin or not k.pending:
                mism.append("step %d: spec schedules %s.%s but the process already finished" % (i, p, h["op"]))
                free = True
                continue
            if k.pending["op"] != h["op"] and not free:
                mism.append("step %d: spec expects %s.%s, code is about to do %s" % (i, p, h["op"], k.pending["op"]))
                free = True
            op, res = run.step(p)
            if not free:
                t = run.trace[-1]
                if t["cache"] != h["cache"]:
                    mism.append("step %d %s.%s: cache %s, spec %s" % (i, p, h["op"], t["cache"], h["cache"]))
                    free = True
                elif sorted(v for v in h["tmpf"].values() if v >= 0) != t["extra"]:
                    mism.append("step %d %s.%s: stray files %s, spec tmpf %s" % (i, p, h["op"], t["extra"], h["tmpf"]))
                    free = True
                elif t["lock"] != h["lock"]:
                    mism.append("step %d %s.%s: holder %s, spec %s" % (i, p, h["op"], t["lock"], h["lock"]))
                    free = True
                elif (h["res"] if not h["res"].startswith("fail") else "fail") != res:
                    mism.append("step %d %s.%s: result %s, spec %s" % (i, p, h["op"], res, h["res"]))
                    free = True
        if run.live():
            mism.append("spec behaviour ended but %s still running" % run.live())
            run.drain()
        run.late_loader()
        return {"rid": rid, "role": rolename, "trace": run.trace, "problems": run.problems, "drift": mism,
                "hist": [[h["p"], h["op"]] for h in hist]}
    finally:
        run.close()


def random_schedule(args):
    """B: seeded random scheduler with random kills; the recorded run goes to trace validation."""
    rid, rolename, seed = args
    g = _G
    rng = random.Random(seed)
    run = Run(rid, ROLES[rolename], g["inst"], g["sizes"], g["ref"], g["work"])
    try:
        run.start(sorted(ROLES[rolename]))
        kills = rng.choice([0, 0, 1, 1, 2])
        steps = 0
        while run.live() and steps < 400:
            ps = run.live()
            p = rng.choice(ps)
            if kills and rng.random() < 0.08:
                run.crash(p)
                kills -= 1
            else:
                # bias: sometimes let one process run a burst
                for _ in range(rng.choice([1, 1, 1, 2, 4])):
                    if p in run.live():
                        run.step(p)
            steps += 1
        run.late_loader()
        return {"rid": rid, "role": rolename, "trace": run.trace, "problems": run.problems, "drift": [],
                "hist": [[t["p"], t["op"]] for t in run.trace], "seed": seed}
    finally:
        run.close()


def _pool_init(g):
    _G.update(g)


def _scenarios(ctx, g):
    """Sequential lock / refresh scenarios (timeout, refresh interval, damaged timestamp)."""
    out = []
    work = g["work"]

    def fresh(name):
        d = os.path.join(work, "sc_" + name)
        shutil.rmtree(d, ignore_errors=True)
        os.makedirs(d)
        return d

    def adv(k):
        """advance, but a process that stays silent is STUCK (blocked on the lock instead of giving up): a finding, not a crash"""
        try:
            return k.advance()
        except TimeoutError:
            out.append(("lock-error", "stuck-process", "process %s neither reached its next file operation nor finished within %.0f s "
                        "(a holder that cannot get the lock within its timeout must give up with the cache error)" % (k.name, sched.SILENT_TIMEOUT)))
            k.kill()
            return []

    def run_to_end(k):
        while not k.fin and not k.dead and k.pending:
            k.grant()
            adv(k)
        return k.fin or {"result": "died"}

    # 1. holder A inside the critical section, B tries: must give up with CacheException
    d = fresh("timeout")
    a = sched.spawn("A", d, g["inst"], ("hold",))
    a.grant(); adv(a)          # lock granted -> now pending in_cs (holding)
    b = sched.spawn("B", d, g["inst"], ("hold",))
    t0 = time.time()
    fb = None
    b.grant()
    try:
        evs = b.advance()
    except TimeoutError:
        out.append(("lock-error", "timeout-scenario", "B, blocked by A, neither entered nor gave up within %.0f s (it must give up with "
                    "CacheException after its timeout)" % sched.SILENT_TIMEOUT))
        b.kill()
        evs = []
    if b.dead and not b.fin:
        fb = {"result": "killed"}
    elif b.pending and b.pending["op"] == "in_cs":
        out.append(("overlap", "timeout-scenario", "B entered `with CacheLock(dir)` while A is still inside it"))
        fb = run_to_end(b)
    else:
        fb = b.fin or {"result": "died"}
        if fb.get("result") != "cacheerr":
            out.append(("lock-error", "timeout-scenario", "B blocked by A ended with %s, expected CacheException" % fb))
    fa = run_to_end(a)
    if fa.get("result") != "ok":
        out.append(("lock-error", "timeout-scenario", "holder A ended with %s" % fa))
    # after A released, C must get the lock
    c = sched.spawn("C", d, g["inst"], ("hold",))
    fc = run_to_end(c)
    if fc.get("result") != "ok":
        out.append(("spurious-refusal", "timeout-scenario", "C could not lock a free cache: %s" % fc))
    for k in (a, b, c):
        k.reap()
    ctx.case("scenario:timeout")
    # 2. holder killed inside the critical section: lock must be free afterwards
    d = fresh("killed")
    a = sched.spawn("A", d, g["inst"], ("hold",))
    a.grant(); adv(a)
    a.kill()
    c = sched.spawn("C", d, g["inst"], ("hold",))
    fc = run_to_end(c)
    if fc.get("result") != "ok":
        out.append(("spurious-refusal", "killed-holder-scenario", "lock not available after its holder was killed: %s" % fc))
    c.reap()
    ctx.case("scenario:killed-holder")
    # 2b. hand-off while a waiter is polling: A holds, B is INSIDE its acquire loop (long timeout) when A leaves,
    #     B then holds; C arriving while B is inside must be refused (the lock file must keep its identity)
    d = fresh("handoff")
    a = sched.spawn("A", d, g["inst"], ("hold",))
    a.grant(); adv(a)                          # A inside
    b = sched.spawn("B", d, g["inst"], ("hold",), lock_timeout=20.0)   # returns as soon as A leaves; long so that load cannot fake a refusal
    b.grant()                                       # B starts acquiring and polls; do not wait for it
    time.sleep(0.5)
    fa = run_to_end(a)                              # A leaves while B polls
    adv(b)                                     # B's acquire returns
    if b.pending and b.pending["op"] == "in_cs":
        c = sched.spawn("C", d, g["inst"], ("hold",))
        c.grant(); adv(c)
        if c.pending and c.pending["op"] == "in_cs":
            out.append(("overlap", "handoff-scenario", "A held the lock, B waited inside acquire, A left and B got the lock; "
                        "C then also entered `with CacheLock(dir)` while B is still inside"))
            run_to_end(c)
        elif (c.fin or {}).get("result") != "cacheerr":
            out.append(("lock-error", "handoff-scenario", "C blocked by B ended with %s, expected CacheException" % c.fin))
        c.reap()
        fb = run_to_end(b)
    else:
        fb = b.fin or {"result": "died"}
        out.append(("spurious-refusal", "handoff-scenario", "B waiting for A's lock (20 s timeout) did not get it after A left: %s" % fb))
    for k in (a, b):
        k.reap()
    ctx.case("scenario:handoff")
    # 2d. two holders in ONE process (threads): the second must give up with the cache error while the first is inside
    d = fresh("threads")
    k = sched.spawn("T", d, g["inst"], ("threads",))
    ft = run_to_end(k) if not k.fin else k.fin
    k.reap()
    if ft.get("t2") == "entered-while-held":
        out.append(("overlap", "threads-scenario", "two threads of one process were inside `with CacheLock(dir)` at the same time: %s" % ft))
    elif ft.get("t1") != "ok" or ft.get("t2") != "cacheerr":
        out.append(("lock-error", "threads-scenario", "thread 1 holds the lock, thread 2 of the same process asks for it: %s (expected t1 ok, "
                    "t2 the cache error)" % {x: ft.get(x) for x in ("result", "t1", "t2", "exc", "msg")}))
    ctx.case("scenario:threads")
    # 2c. first use of a cache location that does not exist yet, by two loaders at once: both reach the creation of the
    #     directory before either has made it; both loads must succeed
    d = os.path.join(work, "sc_firstuse", "not", "yet", "there")
    shutil.rmtree(os.path.join(work, "sc_firstuse"), ignore_errors=True)
    os.makedirs(os.path.dirname(d))
    l1 = sched.spawn("L1", d, g["inst"], ("load", WANT_VERSION))
    l2 = sched.spawn("L2", d, g["inst"], ("load", WANT_VERSION))
    # run each up to the creation of the directory (if it comes), then let them go on alternately
    for k in (l1, l2):
        n = 0
        while k.pending and k.pending["op"] != "mkcache" and n < 50:
            k.grant(); adv(k); n += 1
    live = [l1, l2]
    n = 0
    while any(k.pending for k in live) and n < 400:
        for k in live:
            if k.pending:
                k.grant(); adv(k)
        n += 1
    for k in live:
        f = k.fin or {"result": "died"}
        if f.get("result") != "ok" or f.get("digest") != g["ref"]:
            out.append(("load-failed", "first-use-of-a-missing-cache-directory", "two loaders started together on a cache directory that did not "
                        "exist yet; %s ended with %s" % (k.name, {x: f.get(x) for x in ("result", "exc", "msg")})))
        k.reap()
    ctx.case("scenario:first-use")
    # 3. refresh interval: stamp ages (seconds before now) x expected
    from hed.schema import hed_cache_lock
    thr = hed_cache_lock.CACHE_TIME_THRESHOLD
    for age, expect in [(5, "skipped"), (thr - 30, "skipped"), (thr + 30, "ran"), (None, "ran")]:
        d = fresh("refresh")
        if age is not None:
            with open(os.path.join(d, "last_update.txt"), "w") as f:
                f.write(str(time.time() - age))
        k = sched.spawn("R", d, g["inst"], ("refresh",))
        f = run_to_end(k)
        k.reap()
        got = f.get("result")
        net = f.get("network", 0)
        if expect == "skipped" and (got != "skipped" or net):
            out.append(("refresh-not-skipped", "refresh-age-%s" % age,
                        "refresh %ss after the last one: result %s, network requests %s (must be skipped)" % (age, f, net)))
        if expect == "ran" and not net:
            out.append(("refresh-wrongly-skipped", "refresh-age-%s" % age,
                        "refresh with last update %s s ago did not even try (result %s)" % (age, f)))
        ctx.case("scenario:refresh:%s" % age)
    # 3b. history: a refresh that reached for the source and FAILED (source unreachable) still counts as the last attempt:
    #     a second one straight afterwards is inside the refresh interval and must be skipped without contacting the source
    d = fresh("refresh-after-failure")
    k = sched.spawn("R", d, g["inst"], ("refresh",))
    f1 = run_to_end(k)
    k.reap()
    k = sched.spawn("R", d, g["inst"], ("refresh",))
    f2 = run_to_end(k)
    k.reap()
    if not f1.get("network"):
        out.append(("refresh-wrongly-skipped", "refresh-after-failure", "the first refresh of a fresh cache did not even try (%s)" % f1))
    elif f2.get("result") != "skipped" or f2.get("network"):
        out.append(("refresh-not-skipped", "refresh-after-failure", "a refresh failed (%s); the next one, attempted immediately afterwards, "
                    "was not skipped: %s" % (f1, f2)))
    ctx.case("scenario:refresh-after-failure")
    # 3c. history across processes: P refreshes, more than the interval passes (P's clock is advanced), ANOTHER process refreshes
    #     (the timestamp file then says: 10 s ago), P tries again - inside the interval of that refresh: skipped, no request
    d = fresh("refresh-other-process")
    with open(os.path.join(d, "last_update.txt"), "w") as f:
        f.write(str(time.time() - (thr + 30)))
    k = sched.spawn("R", d, g["inst"], ("refresh_twice", thr + 60))
    n = 0
    while k.pending and k.pending.get("op") != "between" and n < 200:
        k.grant(); adv(k); n += 1
    if k.pending and k.pending.get("op") == "between":
        with open(os.path.join(d, "last_update.txt"), "w") as f:
            f.write(str(time.time() + thr + 50))
        k.grant(); adv(k)
    f3 = run_to_end(k)
    k.reap()
    if f3.get("result") != "ok":
        out.append(("refresh-raised", "refresh-other-process", "two refresh attempts of one process raised: %s" % f3))
    elif not f3.get("net_first"):
        out.append(("refresh-wrongly-skipped", "refresh-other-process", "the first refresh (last update long ago) did not even try: %s" % f3))
    elif f3.get("second") != "skipped" or f3.get("net_second"):
        out.append(("refresh-not-skipped", "refresh-other-process", "another process refreshed 10 s ago (timestamp file), yet this process - which had "
                    "refreshed itself more than an interval ago - went to the source again: %s" % f3))
    ctx.case("scenario:refresh-other-process")
    # 4. damaged (empty / garbage) timestamp file must read as "never updated", not raise
    for content in ["", "garbage\n"]:
        d = fresh("stamp")
        with open(os.path.join(d, "last_update.txt"), "w") as f:
            f.write(content)
        k = sched.spawn("P", d, g["inst"], ("populate",))
        f = run_to_end(k)
        k.reap()
        if f.get("result") != "ok":
            out.append(("stamp-damaged", "stamp-%r" % content,
                        "population with a torn last_update.txt (%r) ended with %s" % (content, f)))
        else:
            l = sched.spawn("L", d, g["inst"], ("load", WANT_VERSION))
            fl = run_to_end(l)
            l.reap()
            if fl.get("result") != "ok":
                out.append(("load-failed", "stamp-%r" % content, "load after that failed: %s" % fl))
        ctx.case("scenario:stamp:%r" % content)
    # 5. every prefix of a single population killed, then a later load  (crash points, sequential)
    d0 = fresh("prefix")
    k = sched.spawn("P", d0, g["inst"], ("populate",))
    nsteps = 0
    while k.pending:
        k.grant(); adv(k); nsteps += 1
    k.reap()
    for cut in range(nsteps + 1):
        d = fresh("prefix")
        k = sched.spawn("P", d, g["inst"], ("populate",))
        for _ in range(cut):
            k.grant(); adv(k)
        if not k.fin:
            k.kill()
        else:
            k.reap()
        l = sched.spawn("L", d, g["inst"], ("load", WANT_VERSION))
        fl = run_to_end(l)
        l.reap()
        if fl.get("result") != "ok" or fl.get("digest") != g["ref"]:
            out.append(("load-failed", "crash-prefix-%d" % cut,
                        "population killed after %d file operations, later load: %s" % (cut, fl)))
        # and a later complete population must repair the directory
        p2 = sched.spawn("P2", d, g["inst"], ("populate",))
        f2 = run_to_end(p2)
        p2.reap()
        if f2.get("result") == "ok":
            for f in FILES.values():
                a = os.path.join(d, f)
                ok = os.path.exists(a) and open(a, "rb").read() == open(os.path.join(g["inst"], f), "rb").read()
                if not ok:
                    out.append(("population-incomplete", "crash-prefix-%d" % cut,
                                "population after a crash at step %d finished but %s is missing/torn" % (cut, f)))
        ctx.case("scenario:crash-prefix:%d" % cut)
    # 5b. killed the instant a file has received its final name (inside os.replace's return): whatever carries a schema name
    # must already be the whole file
    nrep = 0
    while True:
        d = fresh("afterrename")
        k = sched.spawn("P", d, g["inst"], ("populate",))
        k.stop_at_replaced = True
        seen_rep = 0
        while k.pending:
            if k.pending.get("op") == "replaced":
                seen_rep += 1
                if seen_rep > nrep:
                    break
            k.grant(); adv(k)
        if not k.pending:          # no further rename: done
            k.reap()
            break
        k.kill()
        nrep += 1
        for f in FILES.values():
            a = os.path.join(d, f)
            if os.path.exists(a) and open(a, "rb").read() != open(os.path.join(g["inst"], f), "rb").read():
                out.append(("torn-final", "killed-after-rename-%d" % nrep,
                            "population killed right after rename number %d: %s carries its schema name but holds %d of %d bytes"
                            % (nrep, f, os.path.getsize(a), os.path.getsize(os.path.join(g["inst"], f)))))
        l = sched.spawn("L", d, g["inst"], ("load", WANT_VERSION))
        fl = run_to_end(l)
        l.reap()
        if fl.get("result") != "ok" or fl.get("digest") != g["ref"]:
            out.append(("load-failed", "killed-after-rename-%d" % nrep, "population killed right after rename number %d, later load: %s" % (nrep, fl)))
        ctx.case("scenario:killed-after-rename:%d" % nrep)
        if nrep > 20:
            break
    # 5c. a refresh against a REACHABLE source (fake repository offering both files with new hashes): every prefix of its file
    #     operations killed - the download path never leaves a partial file under a schema name either, and a later load works
    offered = list(FILES.values())
    d0 = fresh("dl")
    k = sched.spawn("R", d0, g["inst"], ("refresh_fake", offered))
    nsteps = 0
    while k.pending:
        k.grant(); adv(k); nsteps += 1
    f0 = k.fin or {}
    k.reap()
    if f0.get("result") != "ran":
        out.append(("refresh-download-failed", "refresh-download", "a refresh against a reachable source ended with %s" % f0))
    else:
        for f in offered:
            a = os.path.join(d0, f)
            if not os.path.exists(a) or open(a, "rb").read() != open(os.path.join(g["inst"], f), "rb").read():
                out.append(("population-incomplete", "refresh-download", "a completed refresh left %s missing or different from the source" % f))
    ctx.case("scenario:refresh-download")
    for cut in range(nsteps):
        d = fresh("dl")
        k = sched.spawn("R", d, g["inst"], ("refresh_fake", offered))
        for _ in range(cut):
            if k.pending:
                k.grant(); adv(k)
        if not k.fin:
            k.kill()
        else:
            k.reap()
        for f in offered:
            a = os.path.join(d, f)
            if os.path.exists(a) and open(a, "rb").read() != open(os.path.join(g["inst"], f), "rb").read():
                out.append(("torn-final", "refresh-download-killed-%d" % cut,
                            "refresh killed after %d file operations: %s carries its schema name but holds %d of %d bytes"
                            % (cut, f, os.path.getsize(a), os.path.getsize(os.path.join(g["inst"], f)))))
        l = sched.spawn("L", d, g["inst"], ("load", WANT_VERSION))
        fl = run_to_end(l)
        l.reap()
        if fl.get("result") != "ok" or fl.get("digest") != g["ref"]:
            out.append(("load-failed", "refresh-download-killed-%d" % cut, "refresh killed after %d file operations, later load: %s" % (cut, fl)))
        ctx.case("scenario:refresh-download-killed:%d" % cut)
    return out


def _validate_traces(ctx, results):
    """Trace validation by TLC of every recorded run (batched per role configuration)."""
    verdict = {}
    for rolename in ROLES:
        batch = [r for r in results if r["role"] == rolename]
        if not batch:
            continue
        path = os.path.join(ctx.work, "traces_%s.json" % rolename)
        with open(path, "w") as f:
            json.dump([{"ev": r["trace"]} for r in batch], f)
        r = ctx.tlc("Trace_Cache", "Trace_Cache_%s.cfg" % rolename, workers=1, env={"TRACE_FILE": path},
                    label="trace validation (%s, %d runs)" % (rolename, len(batch)), timeout=900)
        acc, at, inv = set(), {}, {}
        import re
        for m in re.finditer(r'<<"ACCEPT", (\d+)>>', r.stdout):
            acc.add(int(m.group(1)))
        for m in re.finditer(r'<<"AT", (\d+), (\d+)>>', r.stdout):
            t, l = int(m.group(1)), int(m.group(2))
            at[t] = max(at.get(t, 0), l)
        for m in re.finditer(r'<<"INV", (\d+), (\d+), "(\w+)">>', r.stdout):
            inv.setdefault(int(m.group(1)), set()).add(m.group(3))
        for i, res in enumerate(batch, 1):
            verdict[res["rid"]] = {"accepted": i in acc, "matched": at.get(i, 1) - 1, "len": len(res["trace"]),
                                   "inv": sorted(inv.get(i, ()))}
    return verdict


def run(ctx):
    quick = ctx.quick
    ctx.rule = ("cases = schedules of 3 real processes (+1 late loader) at file-operation granularity: TLC simulate "
                "behaviours of Cache.tla replayed step by step, seeded random schedules with kills, every crash prefix "
                "of a population, lock/refresh scenarios; distinct = distinct (roles, operation sequence); "
                "non-trivial = at least two processes interleave or a crash occurs")
    # ---- 1. design runs (exhaustive) ----
    for cfg, lab in [("MC_Cache.cfg", "2 populators + 1 loader"), ("MC_Cache_mixed.cfg", "1 populator + 2 loaders"),
                     ("MC_Cache_allload.cfg", "3 loaders")]:
        ctx.tlc("MC_Cache", cfg, workers=8, coverage=True, label="design: " + lab)
    if not quick:
        ctx.tlc("MC_Cache", "MC_Cache_live.cfg", workers=4, label="liveness EventuallyDone under weak fairness")
    # sensitivity: the spec must reject the three defective designs (non-vacuity of the invariants)
    sens = {}
    for cfg, inv in [("MC_Cache_nolock.cfg", "MutualExclusion"), ("MC_Cache_noatomic.cfg", "NoTornFinal"),
                     ("MC_Cache_nofallback.cfg", "NoFailedLoad")]:
        r = ctx.tlc("MC_Cache", cfg, workers=4, expect_ok=False, label="sensitivity: " + cfg)
        sens[cfg] = r.violated
        if r.violated != inv:
            raise tlc.TLCFailure("sensitivity run %s should violate %s, got %s" % (cfg, inv, r.violated))
    ctx.note("defective_designs_rejected_by_spec", sens)
    # ---- 2. behaviours from TLC ----
    nsim = 60 if quick else 1500
    scheds = []
    for rolename, rdef in [("Mixed", "RoleMixed"), ("Def", "RoleDef"), ("AllLoad", "RoleAllLoad")]:
        r = ctx.tlc("MC_Cache", ctx.cfg("MC_Cache_gen.cfg", ("Role <- RoleMixed", "Role <- " + rdef)), workers=1, mode="simulate",
                    simulate="num=%d" % nsim, depth=80, seed=ctx.seed + 17, label="schedule generation " + rolename,
                    timeout=600)
        seen = set()
        for j in r.json_lines:
            key = json.dumps([[h["p"], h["op"]] for h in j["hist"]])
            if key in seen:
                continue
            seen.add(key)
            scheds.append((rolename, j["hist"]))
    # ---- 3. replay into real processes ----
    import hed  # noqa: F401  (import once, children are forked)
    inst, sizes = _setup_installed(ctx.work)
    g = {"inst": inst, "sizes": sizes, "ref": _ref_digest(inst), "work": ctx.work}
    _G.update(g)
    jobs = [("A%d" % i, rn, h) for i, (rn, h) in enumerate(scheds)]
    nrand = 60 if quick else 3000
    rjobs = [("B%d" % i, ["Mixed", "Def", "AllLoad"][i % 3], ctx.seed * 100003 + i) for i in range(nrand)]
    mpctx = mp.get_context("fork")
    with mpctx.Pool(12, initializer=_pool_init, initargs=(g,)) as pool:
        resA = pool.map(replay_schedule, jobs, chunksize=4)
        resB = pool.map(random_schedule, rjobs, chunksize=4)
    results = resA + resB
    # ---- 4. trace validation of every recorded run ----
    verdict = _validate_traces(ctx, results)
    drift = 0
    rejected = 0
    for res in results:
        key = "%s:%s" % (res["role"], json.dumps(res["hist"]))
        procs = {p for p, _ in res["hist"]}
        ctx.case(key, nontrivial=len(procs) > 1 or any(op == "crash" for _, op in res["hist"]))
        ctx.traces += 1
        v = verdict.get(res["rid"], {})
        for kind, text in res["problems"]:
            ctx.violation("%s" % kind, "%s  [roles %s; schedule %s]" % (text, res["role"],
                          " ".join("%s.%s" % (p, o) for p, o in res["hist"])),
                          {"mode": "schedule", "role": res["role"], "hist": res["hist"]})
        if res["drift"]:
            drift += 1
        if not v.get("accepted"):
            rejected += 1
            if len(ctx.extra.setdefault("rejected_traces", [])) < 5:
                ctx.extra["rejected_traces"].append({"rid": res["rid"], "verdict": v, "drift": res["drift"][:2],
                                                      "next": res["trace"][v.get("matched", 0)] if v.get("matched", 0) < len(res["trace"]) else None})
            for invname in v.get("inv", []):
                ctx.violation("spec-invariant:" + invname,
                              "recorded run violates %s of Cache.tla  [roles %s; schedule %s]" % (
                                  invname, res["role"], " ".join("%s.%s" % (p, o) for p, o in res["hist"])),
                              {"mode": "schedule", "role": res["role"], "hist": res["hist"]})
    for res in results[:2] + resB[:1]:
        ctx.sample({"roles": ROLES[res["role"]], "schedule": " ".join("%s.%s" % (p, o) for p, o in res["hist"]),
                    "final_cache": res["trace"][-1]["cache"] if res["trace"] else None})
    ctx.note("tlc_behaviours_replayed", len(resA))
    ctx.note("random_schedules_recorded", len(resB))
    ctx.note("replays_out_of_step_with_spec", drift)
    ctx.note("traces_rejected_by_spec", rejected)
    if drift or rejected:
        print("SPEC-DRIFT C19: %d replays out of step, %d recorded runs rejected by Trace_Cache (see evidence)" % (drift, rejected))
    # ---- 5. scenarios ----
    for kind, where, text in _scenarios(ctx, g):
        ctx.violation(kind, "%s  [%s]" % (text, where), {"mode": "scenario", "where": where})
    ctx.assumptions += [
        "file operations are those made through os.listdir/os.path.exists/shutil.copy*/os.replace/portalocker/CacheLock (Python-level interposition)",
        "network is unavailable (make_url_request/url_to_file raise URLError)",
        "a copy is 2 chunks; installed folder holds 2 real bundled files (HED8.0.0.xml, HED8.1.0.xml)",
        "lock timeout shortened to 50 ms inside the children (same code path, shorter wait)"]


def replay(obj):
    import hed  # noqa
    work = os.path.join(tlc.VERIF, ".work", "C19replay")
    shutil.rmtree(work, ignore_errors=True)
    os.makedirs(work)

    class C:
        pass
    inst, sizes = _setup_installed(work)
    g = {"inst": inst, "sizes": sizes, "ref": _ref_digest(inst), "work": work}
    _G.update(g)
    try:
        if obj["mode"] == "schedule":
            hist = [{"p": p, "op": o, "cache": {}, "tmpf": {}, "lock": "", "res": ""} for p, o in obj["hist"]
                    if p != "pL"]
            res = replay_schedule(("R", obj["role"], hist))
            if res["problems"]:
                return False, "; ".join(t for _, t in res["problems"])
            return True, "schedule ran without a property-level problem"
        from ..core import Ctx
        ctx = Ctx("C19", "quick", 0)
        out = [x for x in _scenarios(ctx, dict(g, work=ctx.work)) if x[1] == obj["where"]]
        if out:
            return False, "; ".join(t for _, _, t in out)
        return True, "scenario passes"
    finally:
        shutil.rmtree(work, ignore_errors=True)
