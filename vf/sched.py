"""Step scheduler for real hed-python processes working on one schema-cache directory (C19).

A *child* is forked from a process that has already imported hed; it installs
shims at the file-system / lock primitives the cache code uses, and before each
of them reports the pending operation to the parent and blocks until granted
one step.  The parent therefore decides the interleaving at file-operation
granularity, can SIGKILL a child at any such point (the OS then drops its
advisory lock), and projects the real directory after every step.

Scheduling points (= actions of specs/Cache.tla):
  list        os.listdir(<cache dir>)
  lock        CacheLock.__enter__          (event cs_enter / lock_refused follows)
  exists      os.path.exists(<cache dir>/x)
  copy_open   destination of shutil.copy*/copyfile created (or truncated)
  copy_write  one chunk written (Chunks per file)
  replace     os.replace / os.rename into the cache dir
  unlock      CacheLock.__exit__           (event cs_exit follows)
  read        hed_schema_io.load_schema(path)
"""
import hashlib
import json
import os
import select
import signal
import sys
import time

CHUNKS = 2


def _under(path, root):
    try:
        p = os.path.abspath(os.fspath(path))
    except TypeError:
        return False
    return p == root or p.startswith(root + os.sep)


class _Chan:
    def __init__(self, wfd, rfd):
        self.w = wfd
        self.r = rfd

    def send(self, obj):
        os.write(self.w, (json.dumps(obj) + "\n").encode())

    def wait(self):
        b = os.read(self.r, 1)
        if not b:
            os._exit(99)


def child_main(chan, cache_dir, installed_dir, task, chunks=CHUNKS, lock_timeout=0.05, time_fn=None):
    """Runs in the forked child. Never returns."""
    import builtins
    import shutil
    import urllib.error
    import portalocker
    from hed.schema import hed_cache, hed_cache_lock, hed_schema_io
    import hed.schema as hs

    cache_dir = os.path.abspath(cache_dir)
    depth = [0]

    free = [False]          # True: no scheduling points (scenarios that run threads inside one process)

    def point(op, **kw):
        if free[0]:
            return
        kw.update(t="op", op=op)
        chan.send(kw)
        chan.wait()

    def event(name, **kw):
        if free[0]:
            return
        kw.update(t="ev", ev=name)
        chan.send(kw)

    real_listdir = os.listdir
    real_exists = os.path.exists
    real_replace = os.replace
    real_rename = os.rename

    def listdir(path="."):
        if _under(path, cache_dir) and os.path.abspath(path) == cache_dir:
            point("list")
        return sorted(real_listdir(path))

    def exists(path):
        if _under(path, cache_dir) and os.path.abspath(path) != cache_dir:
            point("exists", f=os.path.basename(path))
        return real_exists(path)

    def chunked_copy(src, dst, *a, **k):
        if os.path.isdir(dst):
            dst = os.path.join(dst, os.path.basename(src))
        if not _under(dst, cache_dir):
            with open(src, "rb") as f, open(dst, "wb") as g:
                g.write(f.read())
            return dst
        with open(src, "rb") as f:
            data = f.read()
        point("copy_open", f=os.path.basename(dst))
        n = len(data)
        size = -(-n // chunks) if n else 0
        with open(dst, "wb", buffering=0) as g:
            for i in range(chunks):
                point("copy_write", f=os.path.basename(dst), k=i + 1)
                g.write(data[i * size:(i + 1) * size])
                os.fsync(g.fileno())
        return dst

    def replace(src, dst, **k):
        if _under(dst, cache_dir):
            point("replace", f=os.path.basename(dst), src=os.path.basename(src))
            r = real_replace(src, dst, **k)
            # the instant after the rename, still inside the call: a kill here shows what the file under its final name holds
            # BEFORE the caller does anything else (the parent passes this point silently unless it asked to stop at it)
            point("replaced", f=os.path.basename(dst))
            return r
        return real_replace(src, dst, **k)

    def rename(src, dst, **k):
        if _under(dst, cache_dir):
            point("replace", f=os.path.basename(dst), src=os.path.basename(src))
        return real_rename(src, dst, **k)

    real_makedirs = os.makedirs

    def makedirs(name, mode=0o777, exist_ok=False):
        # creating the cache directory itself (first use of a cache location): a scheduling point only while it is missing
        if os.path.abspath(name) == cache_dir and not os.path.isdir(name):
            point("mkcache")
        return real_makedirs(name, mode, exist_ok)
    os.makedirs = makedirs
    os.listdir = listdir
    os.path.exists = exists
    os.replace = replace
    os.rename = rename
    shutil.copy = chunked_copy
    shutil.copy2 = chunked_copy
    shutil.copyfile = chunked_copy
    hed_cache.copyfile = chunked_copy

    # portalocker: keep real locking, only shorten the timeout so that a refused lock costs 50 ms, not 1 s
    real_acquire = portalocker.Lock.acquire

    def acquire(self, timeout=None, check_interval=None, fail_when_locked=None):
        return real_acquire(self, timeout=lock_timeout, check_interval=0.01, fail_when_locked=fail_when_locked)
    portalocker.Lock.acquire = acquire
    try:
        portalocker.utils.DEFAULT_TIMEOUT = lock_timeout
    except Exception:
        pass

    CL = hed_cache_lock.CacheLock
    real_enter, real_exit = CL.__enter__, CL.__exit__

    def enter(self):
        mine = _under(self.cache_folder, cache_dir)
        if mine:
            point("lock", write_time=bool(getattr(self, "write_time", False)))
        try:
            r = real_enter(self)
        except BaseException as ex:
            if mine:
                event("lock_refused", exc=type(ex).__name__, msg=str(ex)[:80],
                      write_time=bool(getattr(self, "write_time", False)))
            raise
        if mine:
            event("cs_enter")
        return r

    def exit_(self, et, ev, tb):
        mine = _under(self.cache_folder, cache_dir)
        if mine:
            point("unlock")
        try:
            return real_exit(self, et, ev, tb)
        finally:
            if mine:
                event("cs_exit")
    CL.__enter__ = enter
    CL.__exit__ = exit_

    real_load = hed_schema_io.load_schema

    def load_schema(hed_path=None, *a, **k):
        where = "none"
        if hed_path:
            where = "cache" if _under(hed_path, cache_dir) else (
                "installed" if _under(hed_path, os.path.abspath(installed_dir)) else "other")
        point("read", src=where, f=os.path.basename(hed_path) if hed_path else None)
        return real_load(hed_path, *a, **k)
    hed_schema_io.load_schema = load_schema

    net = [0]
    from hed.schema.schema_io import schema_util as _su0
    real_url_to_file = _su0.url_to_file

    def no_net(*a, **k):
        net[0] += 1
        event("network")
        raise urllib.error.URLError("offline (harness)")
    hed_cache.make_url_request = no_net
    hed_cache.url_to_file = no_net
    try:
        from hed.schema.schema_io import schema_util
        schema_util.make_url_request = no_net
        schema_util.url_to_file = no_net
    except Exception:
        pass
    if time_fn is not None:
        hed_cache_lock.time.time = time_fn   # only patched in the module namespace copy below
    hed_cache.INSTALLED_CACHE_LOCATION = os.path.abspath(installed_dir)
    # the configured cache location, spelled like the library's own default (with a trailing separator) in every other process
    hed_cache.HED_CACHE_DIRECTORY = cache_dir + os.sep if os.getpid() % 2 else cache_dir
    try:
        hed_schema_io._load_schema_version.cache_clear()
    except Exception:
        pass
    try:
        hed_cache.get_library_data.cache_clear()
    except Exception:
        pass

    out = {"t": "fin"}
    try:
        kind = task[0]
        if kind == "load":
            s = hs.load_schema_version(task[1])
            out["result"] = "ok"
            out["digest"] = hashlib.sha1(s.get_as_xml_string().encode()).hexdigest()
        elif kind == "populate":
            r = hed_cache.cache_local_versions(cache_dir)
            out["result"] = "ok" if r is None else "cacheerr"
            out["ret"] = r
        elif kind == "hold":       # with CacheLock(dir): pass
            try:
                with CL(cache_dir, write_time=False):
                    point("in_cs")
                out["result"] = "ok"
            except hed_cache_lock.CacheException as ex:
                out["result"] = "cacheerr"
        elif kind == "threads":
            # two holders inside ONE process: thread 1 holds the lock, thread 2 asks for it and must give up with the cache error
            import threading
            free[0] = True
            seen = {}
            inside, leave = threading.Event(), threading.Event()

            def t1():
                try:
                    with CL(cache_dir, write_time=False):
                        inside.set()
                        leave.wait(20)
                    seen["t1"] = "ok"
                except hed_cache_lock.CacheException:
                    seen["t1"] = "cacheerr"
                except Exception as ex:  # noqa
                    seen["t1"] = "exc:" + type(ex).__name__

            def t2():
                try:
                    with CL(cache_dir, write_time=False):
                        seen["t2"] = "entered-while-held" if not leave.is_set() else "entered-late"
                except hed_cache_lock.CacheException:
                    seen["t2"] = "cacheerr"
                except Exception as ex:  # noqa
                    seen["t2"] = "exc:" + type(ex).__name__
            a = threading.Thread(target=t1, daemon=True)
            a.start()
            inside.wait(10)
            b = threading.Thread(target=t2, daemon=True)
            b.start()
            b.join(8)
            if b.is_alive():
                seen["t2"] = "stuck"
            leave.set()
            a.join(10)
            out["result"] = "ok"
            out["t1"], out["t2"] = seen.get("t1", "stuck"), seen.get("t2", "stuck")
        elif kind == "refresh_fake":
            # a refresh against a REACHABLE source: a fake repository (GitHub-style listing + downloads) that offers the files of
            # task[1] with a hash that differs from anything cached, so that each of them is downloaded and moved into the cache.
            # url_to_file and _safe_move_tmp_to_folder are the library's own.
            import io as _io
            offered = list(task[1])

            class _Resp:
                def __init__(self, data):
                    self._d = data
                    self.code = 200

                def read(self):
                    return self._d

            def fake_request(url, *a, **k):
                net[0] += 1
                if url.endswith("/standard_schema/hedxml") or url.endswith("standard_schema" + hed_cache.hedxml_suffix):
                    listing = [{"type": "file", "name": f, "sha": "0" * 40, "download_url": "https://fake.invalid/dl/" + f} for f in offered]
                    return _Resp(json.dumps(listing).encode())
                if url.endswith("/library_schemas"):
                    return _Resp(b"[]")           # no libraries in this repository
                if "/dl/" in url:
                    with open(os.path.join(installed_dir, url.rsplit("/", 1)[1]), "rb") as fh:
                        return _Resp(fh.read())
                raise urllib.error.URLError("no such folder in the fake repository: " + url)
            from hed.schema.schema_io import schema_util as _su
            hed_cache.make_url_request = fake_request
            _su.make_url_request = fake_request
            hed_cache.url_to_file = real_url_to_file
            _su.url_to_file = real_url_to_file
            r = hed_cache.cache_xml_versions(cache_folder=cache_dir)
            out["result"] = "skipped" if r == -1 else "ran"
            out["ret"] = r
        elif kind == "refresh_twice":
            # ONE process refreshes, lets time pass (its clock is advanced by task[1] seconds) while ANOTHER process refreshes
            # (the parent rewrites the timestamp file at the scheduling point), and refreshes again
            free[0] = True

            def attempt():        # (the source is unreachable in the harness: an attempt that reaches for it ends with URLError)
                try:
                    return hed_cache.cache_xml_versions(cache_folder=cache_dir)
                except urllib.error.URLError:
                    return "unreachable"
            r1 = attempt()
            n1 = net[0]
            free[0] = False
            point("between")
            free[0] = True
            real_time, real_sleep = time.time, time.sleep

            class _Clock:
                time = staticmethod(lambda: real_time() + float(task[1]))
                sleep = staticmethod(real_sleep)
            hed_cache_lock.time = _Clock
            r2 = attempt()
            out["result"] = "ok"
            out["first"] = "skipped" if r1 == -1 else "ran"
            out["second"] = "skipped" if r2 == -1 else "ran"
            out["net_first"], out["net_second"] = n1, net[0] - n1
        elif kind == "refresh":
            r = hed_cache.cache_xml_versions(cache_folder=cache_dir)
            out["result"] = "skipped" if r == -1 else "ran"
            out["ret"] = r
        else:
            out["result"] = "badtask"
    except BaseException as ex:   # noqa
        out["result"] = "exc"
        out["exc"] = type(ex).__name__
        out["msg"] = str(ex)[:200]
    out["network"] = net[0]
    try:
        chan.send(out)
    finally:
        os._exit(0)


SILENT_TIMEOUT = 12.0      # a child that reports nothing for this long is stuck (lock timeouts inside children are far shorter)


class Child:
    def __init__(self, name, pid, rfd, wfd):
        self.name = name
        self.pid = pid
        self.rfd = rfd
        self.wfd = wfd
        self.buf = b""
        self.pending = None     # pending op dict, or None
        self.fin = None
        self.dead = False
        self.events = []

    def _readline(self, timeout=None):
        timeout = SILENT_TIMEOUT if timeout is None else timeout
        t_end = time.time() + timeout
        while b"\n" not in self.buf:
            left = t_end - time.time()
            if left <= 0:
                raise TimeoutError("child %s silent" % self.name)
            r, _, _ = select.select([self.rfd], [], [], left)
            if not r:
                continue
            b = os.read(self.rfd, 65536)
            if not b:
                return None
            self.buf += b
        line, self.buf = self.buf.split(b"\n", 1)
        return json.loads(line)

    def advance(self):
        """Read until the child is blocked at its next scheduling point, or finished."""
        self.pending = None
        evs = []
        while True:
            m = self._readline()
            if m is None:
                self.dead = True
                break
            if m["t"] == "ev":
                evs.append(m)
                continue
            if m["t"] == "op":
                if m.get("op") == "replaced" and not getattr(self, "stop_at_replaced", False):
                    os.write(self.wfd, b"g")          # a silent point: passed without a step of its own
                    continue
                self.pending = m
                break
            if m["t"] == "fin":
                self.fin = m
                break
        self.events += evs
        return evs

    def grant(self):
        os.write(self.wfd, b"g")

    def kill(self):
        try:
            os.kill(self.pid, signal.SIGKILL)
        except ProcessLookupError:
            pass
        self.reap()
        self.dead = True
        self.pending = None

    def reap(self):
        try:
            os.waitpid(self.pid, 0)
        except ChildProcessError:
            pass
        for fd in (self.rfd, self.wfd):
            try:
                os.close(fd)
            except OSError:
                pass


def spawn(name, cache_dir, installed_dir, task, chunks=CHUNKS, lock_timeout=0.05):
    c2p_r, c2p_w = os.pipe()
    p2c_r, p2c_w = os.pipe()
    sys.stdout.flush()
    sys.stderr.flush()
    pid = os.fork()
    if pid == 0:
        try:
            os.close(c2p_r)
            os.close(p2c_w)
            devnull = os.open(os.devnull, os.O_WRONLY)
            os.dup2(devnull, 1)
            os.dup2(devnull, 2)
            child_main(_Chan(c2p_w, p2c_r), cache_dir, installed_dir, task, chunks, lock_timeout=lock_timeout)
        finally:
            os._exit(98)
    os.close(c2p_w)
    os.close(p2c_r)
    ch = Child(name, pid, c2p_r, p2c_w)
    ch.advance()
    return ch


def project(cache_dir, files, sizes, chunks=CHUNKS):
    """Abstract view of the real directory: chunk level per final name, levels of stray files."""
    names = set(os.listdir(cache_dir)) if os.path.isdir(cache_dir) else set()
    cache = {}
    for f in files:
        cache[f] = _level(os.path.join(cache_dir, f), sizes[f], chunks) if f in names else -1
    extra = []
    for n in sorted(names - set(files) - {"cache_lock.lock", "last_update.txt"}):
        full = os.path.join(cache_dir, n)
        if os.path.isdir(full):
            continue
        base = [f for f in files if n.startswith(f) or f in n]
        sz = sizes[base[0]] if base else max(sizes.values())
        extra.append(_level(full, sz, chunks))
    return {"cache": cache, "extra": sorted(extra), "lockfile": "cache_lock.lock" in names,
            "stamp": "last_update.txt" in names}


def _level(path, full, chunks):
    try:
        n = os.path.getsize(path)
    except OSError:
        return -1
    if n >= full:
        return chunks
    size = -(-full // chunks)
    return n // size if size else chunks
