"""Run TLC (model / simulate / trace modes) and parse what it prints.

Everything TLC-related goes through here so that evidence numbers (states,
transitions, coverage) are the ones measured on *this* invocation.
"""
import json
import os
import re
import shutil
import subprocess
import time

VERIF = os.path.dirname(os.path.dirname(os.path.abspath(__file__)))
SPECS = os.path.join(VERIF, "specs")
JAR = "/opt/veriftools/tla/tla2tools.jar"
DEPS = "/opt/veriftools/tla/CommunityModules-deps.jar"


class TLCFailure(Exception):
    """TLC itself failed (parse error, crash, timeout): machinery failure, never a violation."""


class TLCResult:
    def __init__(self):
        self.stdout = ""
        self.rc = None
        self.generated = 0      # states generated  (transitions explored)
        self.distinct = 0       # distinct states
        self.depth = 0
        self.wall = 0.0
        self.violated = None    # name of violated invariant/property, if any
        self.trace = []         # counterexample: list of (action, state-text)
        self.printed = []       # values printed with PrintT, raw text
        self.json_lines = []    # decoded JSON emitted through Emit()
        self.coverage = {}      # action name -> (distinct, total) from -coverage
        self.error_text = ""

    def as_dict(self):
        return {"states": self.distinct, "transitions": self.generated, "depth": self.depth,
                "wall_s": round(self.wall, 2)}


_ENV_KEEP = ("PATH", "HOME", "LANG", "LC_ALL", "JAVA_HOME")


def run(module, cfg=None, workers=8, mode="check", simulate=None, depth=None, seed=None,
        env=None, timeout=600, coverage=False, workdir=None, deadlock=False, extra=None,
        heap="4g", dfs=False):
    """Run TLC on specs/<module>.tla with specs/<cfg> (default <module>.cfg).

    mode: "check" (BFS exhaustive) or "simulate" (simulate="num=100" or "file=...,num=..").
    env: extra environment variables visible to the spec through IOEnv.
    """
    cfg = cfg or (module + ".cfg")
    workdir = workdir or os.path.join(VERIF, ".work", "tlc")
    meta = os.path.join(workdir, "meta_%s_%d_%d" % (module, os.getpid(), int(time.time() * 1000) % 100000))
    os.makedirs(meta, exist_ok=True)
    jopts = ["-XX:+UseParallelGC", "-Xmx" + heap, "-Djava.io.tmpdir=" + meta]      # (TLC's scratch directories stay in the run's own folder)
    if dfs:
        jopts.append("-Dtlc2.tool.queue.IStateQueue=StateDeque")
    cmd = ["java"] + jopts + ["-cp", JAR + ":" + DEPS, "tlc2.TLC",
                               "-workers", str(workers), "-metadir", meta, "-noGenerateSpecTE",
                               "-config", cfg]
    if not deadlock:
        cmd.append("-deadlock")       # "-deadlock" DISABLES deadlock checking
    if mode == "simulate":
        cmd += ["-simulate", simulate or "num=100"]
        if depth:
            cmd += ["-depth", str(depth)]
    if seed is not None:
        cmd += ["-seed", str(seed)]
    if coverage:
        cmd += ["-coverage", "1"]
    if extra:
        cmd += list(extra)
    cmd.append(module)
    e = {k: os.environ[k] for k in _ENV_KEEP if k in os.environ}
    e.update(env or {})
    t0 = time.time()
    try:
        p = subprocess.run(cmd, cwd=SPECS, env=e, stdout=subprocess.PIPE, stderr=subprocess.STDOUT,
                           timeout=timeout, text=True, errors="replace")
    except subprocess.TimeoutExpired as ex:
        shutil.rmtree(meta, ignore_errors=True)
        raise TLCFailure("TLC timeout after %ss on %s/%s" % (timeout, module, cfg)) from ex
    finally:
        pass
    shutil.rmtree(meta, ignore_errors=True)
    r = TLCResult()
    r.wall = time.time() - t0
    r.rc = p.returncode
    r.stdout = p.stdout
    _parse(r)
    # rc: 0 ok; 12 safety violation; 13 liveness violation; 10/11 assumption/deadlock; others = failure
    if r.rc not in (0, 12, 13) or (r.rc == 0 and r.distinct == 0 and mode == "check"):
        r.error_text = _tail(p.stdout)
        raise TLCFailure("TLC failed rc=%s on %s/%s:\n%s" % (r.rc, module, cfg, r.error_text))
    return r


def _tail(s, n=40):
    return "\n".join(s.splitlines()[-n:])


_RE_STATS = re.compile(r"^(\d+) states generated, (\d+) distinct states found", re.M)
_RE_DEPTH = re.compile(r"The depth of the complete state graph search is (\d+)")
_RE_INV = re.compile(r"Error: Invariant (\S+) is violated")
_RE_PROP = re.compile(r"Error: (?:Action|Temporal) propert(?:y|ies) (\S+)? ?(?:is|were) violated")
_RE_STATE = re.compile(r"^State (\d+): <?([^>\n]*)>?$")
_RE_COV = re.compile(r"^<(\w+) line \d+, col \d+ to line \d+, col \d+ of module (\w+)>: (\d+):(\d+)", re.M)
EMIT = "@@EMIT@@"


def _parse(r):
    s = r.stdout
    m = None
    for m in _RE_STATS.finditer(s):
        pass
    if m:
        r.generated, r.distinct = int(m.group(1)), int(m.group(2))
    m = _RE_DEPTH.search(s)
    if m:
        r.depth = int(m.group(1))
    m = _RE_INV.search(s)
    if m:
        r.violated = m.group(1)
    elif "is violated" in s or "was violated" in s or "were violated" in s:
        m2 = re.search(r"Error: (.*violated.*)", s)
        r.violated = m2.group(1) if m2 else "property"
    for m in _RE_COV.finditer(s):
        name = m.group(1)
        d, t = int(m.group(3)), int(m.group(4))
        od, ot = r.coverage.get(name, (0, 0))
        r.coverage[name] = (od + d, ot + t)
    # counterexample states
    cur = None
    for line in s.splitlines():
        ms = _RE_STATE.match(line)
        if ms:
            cur = [ms.group(2).strip(), []]
            r.trace.append(cur)
            continue
        if cur is not None:
            if line.strip() == "" or line.startswith("Error:") or re.match(r"^\d+ states generated", line):
                cur = None
            else:
                cur[1].append(line)
    r.trace = [(a, "\n".join(b)) for a, b in r.trace]
    # emitted JSON lines:  "@@EMIT@@{...}"   (PrintT of a string prints it quoted)
    for line in s.splitlines():
        i = line.find(EMIT)
        if i < 0:
            continue
        raw = line.strip()
        try:
            if raw.startswith('"'):
                txt = json.loads(raw)
            else:
                txt = raw
            j = txt[txt.find(EMIT) + len(EMIT):]
            r.json_lines.append(json.loads(j))
        except Exception:
            r.printed.append(raw)


def sany(module):
    p = subprocess.run(["java", "-cp", JAR + ":" + DEPS, "tla2sany.SANY", module + ".tla"], cwd=SPECS,
                       stdout=subprocess.PIPE, stderr=subprocess.STDOUT, text=True)
    ok = p.returncode == 0 and "Semantic errors" not in p.stdout and "Parse Error" not in p.stdout \
        and "Fatal errors" not in p.stdout and "Could not find module" not in p.stdout
    return ok, p.stdout
