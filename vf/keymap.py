"""Replay of specs/KeyMap.tla into hed.tools.analysis.key_map.KeyMap (C17, family `keymap`).

Every history of update / resort that TLC enumerates is applied to ONE real KeyMap object; after every step the object's
state is projected (rows of col_map, map_dict read through the key hash, count_dict) and its answers are asked for (remap of a
probe table holding every key incl. never-fed ones, make_template with counts) and compared with what TLC printed for that
prefix.
"""
import json

_G = {}


def _frame(rows, kcols, tcol, salt):
    import pandas as pd
    data = {c: [r["k"][i] for r in rows] for i, c in enumerate(kcols)}
    data[tcol] = [r["t"] for r in rows]
    if salt % 3 == 1:
        data["other"] = ["o%d" % i for i in range(len(rows))]          # a column the map does not manage
    df = pd.DataFrame(data, dtype=str)
    if salt % 2:
        df.index = [7 + 3 * i for i in range(len(rows))]               # row labels that are not 0..n-1
    if salt % 5 == 2:
        df = df[list(reversed(list(df.columns)))]                      # columns in another order
    return df


def project(km, order, kcols, tcol):
    import pandas as pd
    from hed.tools.util import data_util
    cm = [{"k": [str(row[c]) for c in kcols], "t": str(row[tcol])} for _, row in km.col_map.iterrows()]
    # positions, read the way the object reads them: hash of the key values -> index
    posok = True
    for i, (_, row) in enumerate(km.col_map.iterrows()):
        h = data_util.get_row_hash(row, kcols)
        if km.map_dict.get(h) != i:
            posok = False
    if len(km.map_dict) != len(cm) or list(km.col_map.index) != list(range(len(cm))):
        posok = False
    cnt = []
    for k in order:
        h = data_util.get_row_hash(pd.Series(dict(zip(kcols, k))), kcols)
        cnt.append(int(km.count_dict.get(h, 0)))
    return cm, posok, cnt


def run_history(job):
    from hed.tools.analysis.key_map import KeyMap
    import pandas as pd
    kcols, tcol, order, salt = job["kcols"], "m", job["order"], job["salt"]
    probs = []
    shape = "".join("u%d" % len(h["rows"]) if h["a"] == "update" else "r" for h in job["hist"])

    def bad(kind, step, text):
        probs.append(("keymap:%s:%s" % (kind, shape[:2 * (step + 1)]), "after %s: %s" % (json.dumps(job["hist"][:step + 1]), text)))
    try:
        km = KeyMap(list(kcols), [tcol], name="replay")
        for j, h in enumerate(job["hist"]):
            if h["a"] == "update":
                km.update(_frame(h["rows"], kcols, tcol, salt + j))
            else:
                km.resort()
            exp = job["states"][j]
            cm, posok, cnt = project(km, order, kcols, tcol)
            if cm != exp["colmap"]:
                bad("colmap", j, "table of unique keys %s, specification %s" % (cm, exp["colmap"]))
                break
            if not posok:
                bad("positions", j, "map_dict does not give every row of col_map its own index: %s over %d rows"
                    % (sorted(km.map_dict.values()), len(cm)))
                break
            if cnt != exp["cnt"]:
                bad("counts", j, "counts %s for keys %s, specification %s" % (cnt, order, exp["cnt"]))
                break
            # answers: remap of a probe table with every key (never-fed ones too), in two row orders
            for rev in (False, True):
                idx = list(range(len(order)))[::-1] if rev else list(range(len(order)))
                probe = pd.DataFrame({c: [order[i][ci] for i in idx] for ci, c in enumerate(kcols)}, dtype=str)
                probe["keep"] = ["k%d" % i for i in idx]
                before = probe.copy()
                out, missing = km.remap(probe)
                got = [str(x) for x in out[tcol]]
                want = [exp["remap"][i] for i in idx]
                wmiss = sorted(idx.index(m - 1) for m in exp["missing"])
                if got != want or sorted(missing) != wmiss or list(out["keep"]) != list(before["keep"]):
                    bad("remap", j, "remap of keys %s gives %s missing %s, specification %s missing %s"
                        % ([order[i] for i in idx], got, sorted(missing), want, wmiss))
                    break
                if not probe.equals(before):
                    bad("remap-mutates", j, "remap changed the table it was given")
                    break
            tmpl = km.make_template(show_counts=True)
            trows = sorted(([str(r[c]) for c in kcols], int(r["key_counts"])) for _, r in tmpl.iterrows())
            wrows = sorted((k, c) for k, c in zip(order, exp["cnt"]) if c)
            counts = [int(x) for x in tmpl["key_counts"]]
            if trows != [(list(k), c) for k, c in wrows] or counts != sorted(counts, reverse=True):
                bad("template", j, "template rows %s (counts column %s), specification %s" % (trows, counts, wrows))
                break
            t2 = km.make_template(additional_cols=["extra"], show_counts=False)
            if [[str(r[c]) for c in kcols] for _, r in t2.iterrows()] != [r["k"] for r in exp["colmap"]] or set(t2["extra"]) - {"n/a"}:
                bad("template", j, "template without counts %s, specification keys %s with extra = n/a"
                    % (t2.values.tolist(), [r["k"] for r in exp["colmap"]]))
                break
            # answering changes nothing
            cm2, posok2, cnt2 = project(km, order, kcols, tcol)
            if (cm2, posok2, cnt2) != (cm, posok, cnt):
                bad("answers-change-state", j, "remap / make_template changed the map")
                break
    except Exception as ex:      # noqa
        probs.append(("keymap:raises:%s:%s" % (type(ex).__name__, shape), "history %s raised %r" % (json.dumps(job["hist"]), ex)))
    return probs


def jobs_from(lines, kcols, order, maxlen, seed, take=None):
    by = {json.dumps(r["hist"], sort_keys=True): r for r in lines}
    jobs, n = [], 0
    for key, rec in sorted(by.items()):
        h = rec["hist"]
        if len(h) != maxlen:
            continue
        n += 1
        if take is not None and (n + seed) % take:
            continue
        states = [by[json.dumps(h[:j], sort_keys=True)] for j in range(1, len(h) + 1)]
        jobs.append({"kcols": kcols, "order": order, "hist": h, "salt": n * 7 + seed,
                     "states": [{"colmap": s["colmap"], "cnt": s["cnt"], "remap": s["remap"], "missing": s["missing"]} for s in states]})
    return jobs
