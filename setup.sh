#!/bin/sh
# offline setup: create scratch dirs, syntax-check every spec (warnings only: a check whose spec does
# not parse reports a machinery failure itself), byte-compile the harness
cd "$(dirname "$0")"
mkdir -p .work evidence
for f in specs/*.tla; do
  m=$(basename "$f" .tla)
  out=$(cd specs && java -cp /opt/veriftools/tla/tla2tools.jar:/opt/veriftools/tla/CommunityModules-deps.jar tla2sany.SANY "$m.tla" 2>&1)
  if echo "$out" | grep -qE "Semantic errors|Parse Error|Fatal errors|Could not find module|\*\*\* Errors"; then
    echo "WARNING: SANY reports problems in $m"; echo "$out" | tail -5
  fi
done
/venv/bin/python -m compileall -q vf >/dev/null 2>&1 || echo "WARNING: some harness module does not compile"
echo "setup done"
exit 0
