#!/bin/sh
# offline setup: syntax-check every spec, byte-compile the harness
cd "$(dirname "$0")"
mkdir -p .work evidence
rc=0
for f in specs/*.tla; do
  m=$(basename "$f" .tla)
  out=$(cd specs && java -cp /opt/veriftools/tla/tla2tools.jar:/opt/veriftools/tla/CommunityModules-deps.jar tla2sany.SANY "$m.tla" 2>&1)
  if echo "$out" | grep -qE "Semantic errors|Parse Error|Fatal errors|Could not find module|\*\*\* Errors"; then
    echo "SANY FAILED: $m"; echo "$out" | tail -20; rc=1
  fi
done
/venv/bin/python -m compileall -q vf >/dev/null || rc=1
echo "setup rc=$rc"
exit $rc
