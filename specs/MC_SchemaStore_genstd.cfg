CONSTANTS
  MaxEdits = 2
  MODE = "standard"
  NewNames <- NewNamesDef
  UnitNames <- UnitNamesDef
  DescKinds <- DescKindsAllDef
  AttrOpts <- AttrOptsDef
  ORDER = "dfs"
  STRIP = TRUE
  REROOT = TRUE
  TSV_UC_PROPS = FALSE
SPECIFICATION Spec
VIEW View
INVARIANT RoundTrip
INVARIANT FormatsAgree
INVARIANT MultiMergeRefuses
INVARIANT EmitCase
