CONSTANTS
  Trees <- Trees1
  Chunks = 2
  LockChunks = 2
  TaskArgs <- TaskArgsSmall
  OpsIds <- Ops1
  MaxCrash = 1
  MaxCreate = 2
  MaxHist = 1
  MaxHistUnlisted = 1
  RECORD_FIRST = TRUE
  OVERWRITE = FALSE
  READ_LIVE = FALSE
SPECIFICATION Spec
VIEW View
INVARIANT NeverHalfValid
