---- MODULE Trace_Cache ----
(* Trace validation for Cache.tla: runs recorded from REAL processes (vf/sched.py) must be
   behaviours of the specification.  One TLC run validates a whole batch (tid chosen in Init). *)
EXTENDS Cache, Json, IOUtils, TLCExt
Traces == JsonDeserialize(IOEnv.TRACE_FILE)
TProcs == {"p1", "p2", "p3", "pL"}
TRoleMixed == [p \in TProcs |-> IF p = "p1" THEN "populate" ELSE "load"]
TRoleDef == [p \in TProcs |-> IF p \in {"p1", "p2"} THEN "populate" ELSE "load"]
TRoleAllLoad == [p \in TProcs |-> "load"]
TFiles == <<"w", "v">>
VARIABLES tid, l
tvars == <<vars, tid, l>>
Evs == Traces[tid].ev
Ev == Evs[l]
TraceInit == Init /\ tid \in 1..Len(Traces) /\ l = 1
IsEv(p, op) == l <= Len(Evs) /\ Ev.p = p /\ Ev.op = op /\ l' = l + 1 /\ UNCHANGED tid
Failed(r) == r \in {"fail_torn", "fail_notcached"}
\* the logged projection of the real directory / lock after the step
Levels(fn) == LET S == {f \in FileSet : fn[f] >= 0} IN [k \in 0..Chunks |-> Cardinality({f \in S : fn[f] = k})]
PostCache == cache' = [f \in FileSet |-> Ev.cache[f]]
PostTmp == Levels(tmpf') = [k \in 0..Chunks |-> Cardinality({i \in 1..Len(Ev.extra) : Ev.extra[i] = k})]
PostLock == lock' = Ev.lock
PostRes(p) == IF Ev.res = "fail" THEN Failed(result'[p]) ELSE result'[p] = Ev.res
Post(p) == PostCache /\ PostTmp /\ PostLock /\ PostRes(p)
TraceNext == \E p \in Procs :
   \/ IsEv(p, "list") /\ (List1(p) \/ List2(p)) /\ Post(p)
   \/ IsEv(p, "lock") /\ LockOp(p) /\ Post(p)
   \/ IsEv(p, "exists") /\ Exists(p) /\ Post(p)
   \/ IsEv(p, "copy_open") /\ CopyOpen(p) /\ Post(p)
   \/ IsEv(p, "copy_write") /\ CopyWrite(p) /\ Post(p)
   \/ IsEv(p, "replace") /\ Replace(p) /\ Post(p)
   \/ IsEv(p, "unlock") /\ Unlock(p) /\ Post(p)
   \/ IsEv(p, "read") /\ Read(p) /\ Post(p)
   \/ IsEv(p, "crash") /\ Crash(p) /\ PostCache /\ PostLock
TraceSpec == TraceInit /\ [][TraceNext]_tvars
\* verdicts are total: every trace prints ACCEPT or is reported as rejected at its longest matched prefix
Report == /\ (l = Len(Evs) + 1 => PrintT(<<"ACCEPT", tid>>))
          /\ PrintT(<<"AT", tid, l>>)
          /\ (~NoFailedLoad => PrintT(<<"INV", tid, l, "NoFailedLoad">>))
          /\ (~MutualExclusion => PrintT(<<"INV", tid, l, "MutualExclusion">>))
          /\ (~NoTornFinal => PrintT(<<"INV", tid, l, "NoTornFinal">>))
          /\ (~FinishedPopulationComplete => PrintT(<<"INV", tid, l, "FinishedPopulationComplete">>))
          /\ (~TimeoutGivesCacheError => PrintT(<<"INV", tid, l, "TimeoutGivesCacheError">>))
====
