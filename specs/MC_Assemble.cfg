CONSTANTS
  MaxN = 3
SPECIFICATION Spec
INVARIANT NoEmptyGroup
INVARIANT ParentsSurvive
INVARIANT NotListedTwice
INVARIANT Emit
