CONSTANTS
  MaxObjs = 2
  MaxOps = 4
  Templates <- TemplatesDef
  MAINTAIN = TRUE
SPECIFICATION Spec
INVARIANT EmitOps
INVARIANT EmitTables
