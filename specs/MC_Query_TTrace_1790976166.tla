---- MODULE MC_Query_TTrace_1790976166 ----
EXTENDS Sequences, TLCExt, Toolbox, Naturals, TLC, MC_Query

_expression ==
    LET MC_Query_TEExpression == INSTANCE MC_Query_TEExpression
    IN MC_Query_TEExpression!expression
----

_trace ==
    LET MC_Query_TETrace == INSTANCE MC_Query_TETrace
    IN MC_Query_TETrace!trace
----

_inv ==
    ~(
        TLCGet("level") = Len(_TETrace)
        /\
        toks = (<<"[">>)
        /\
        tree = ([n |-> 0, par |-> <<>>, lab |-> <<>>])
    )
----

_init ==
    /\ toks = _TETrace[1].toks
    /\ tree = _TETrace[1].tree
----

_next ==
    /\ \E i,j \in DOMAIN _TETrace:
        /\ \/ /\ j = i + 1
              /\ i = TLCGet("level")
        /\ toks  = _TETrace[i].toks
        /\ toks' = _TETrace[j].toks
        /\ tree  = _TETrace[i].tree
        /\ tree' = _TETrace[j].tree

\* Uncomment the ASSUME below to write the states of the error trace
\* to the given file in Json format. Note that you can pass any tuple
\* to `JsonSerialize`. For example, a sub-sequence of _TETrace.
    \* ASSUME
    \*     LET J == INSTANCE Json
    \*         IN J!JsonSerialize("MC_Query_TTrace_1790976166.json", _TETrace)

=============================================================================

 Note that you can extract this module `MC_Query_TEExpression`
  to a dedicated file to reuse `expression` (the module in the 
  dedicated `MC_Query_TEExpression.tla` file takes precedence 
  over the module `MC_Query_TEExpression` below).

---- MODULE MC_Query_TEExpression ----
EXTENDS Sequences, TLCExt, Toolbox, Naturals, TLC, MC_Query

expression == 
    [
        \* To hide variables of the `MC_Query` spec from the error trace,
        \* remove the variables below.  The trace will be written in the order
        \* of the fields of this record.
        toks |-> toks
        ,tree |-> tree
        
        \* Put additional constant-, state-, and action-level expressions here:
        \* ,_stateNumber |-> _TEPosition
        \* ,_toksUnchanged |-> toks = toks'
        
        \* Format the `toks` variable as Json value.
        \* ,_toksJson |->
        \*     LET J == INSTANCE Json
        \*     IN J!ToJson(toks)
        
        \* Lastly, you may build expressions over arbitrary sets of states by
        \* leveraging the _TETrace operator.  For example, this is how to
        \* count the number of times a spec variable changed up to the current
        \* state in the trace.
        \* ,_toksModCount |->
        \*     LET F[s \in DOMAIN _TETrace] ==
        \*         IF s = 1 THEN 0
        \*         ELSE IF _TETrace[s].toks # _TETrace[s-1].toks
        \*             THEN 1 + F[s-1] ELSE F[s-1]
        \*     IN F[_TEPosition - 1]
    ]

=============================================================================



Parsing and semantic processing can take forever if the trace below is long.
 In this case, it is advised to uncomment the module below to deserialize the
 trace from a generated binary file.

\*
\*---- MODULE MC_Query_TETrace ----
\*EXTENDS IOUtils, TLC, MC_Query
\*
\*trace == IODeserialize("MC_Query_TTrace_1790976166.bin", TRUE)
\*
\*=============================================================================
\*

---- MODULE MC_Query_TETrace ----
EXTENDS TLC, MC_Query

trace == 
    <<
    ([toks |-> <<>>,tree |-> [n |-> 0, par |-> <<>>, lab |-> <<>>]]),
    ([toks |-> <<"[">>,tree |-> [n |-> 0, par |-> <<>>, lab |-> <<>>]])
    >>
----


=============================================================================

---- CONFIG MC_Query_TTrace_1790976166 ----
CONSTANTS
    TermsOf <- AbsTerms
    ShortOf <- AbsShort
    Variant = "ok"
    Labels <- L3
    MaxNodes = 1
    MaxDepth = 4
    Alphabet <- AlphaCore
    MaxToks = 3
    Gen <- Atoms

INVARIANT
    _inv

CHECK_DEADLOCK
    \* CHECK_DEADLOCK off because of PROPERTY or INVARIANT above.
    FALSE

INIT
    _init

NEXT
    _next

CONSTANT
    _TETrace <- _trace

ALIAS
    _expression
=============================================================================
\* Generated on Fri Oct 02 21:22:47 UTC 2026