---------------------------- MODULE SchemaTree ----------------------------
(* Tag resolution and canonical forms (property C03).

   A schema is a forest of named nodes.  Every suffix of a node's path ("Blue", "Blue-color/Blue",
   ..., the full path) is a *form* of that node, registered case-folded.  A tag text is a sequence of
   terms (split at '/'); resolution walks left to right to the deepest prefix that is a registered
   form (HedSchema._find_tag_subfunction); what is left is the remainder (value or extension), kept as
   written.  A remainder under a node with a '#' child is a value; otherwise every remainder term
   must be new (not a schema term).

   Tree(n, par, name, tv): nodes 1..n, par[k] < k (0 = root), name[k] (folded) unique, tv[k] = has '#' child.
*)
EXTENDS Integers, Sequences, FiniteSets, TLC

\* ---------- generic sequence helpers ----------
RECURSIVE JoinS(_, _)
JoinS(seq, sep) == IF Len(seq) = 0 THEN "" ELSE IF Len(seq) = 1 THEN seq[1] ELSE seq[1] \o sep \o JoinS(Tail(seq), sep)

\* ---------- schema side ----------
RECURSIVE PathOf(_, _)
PathOf(par_name, k) == \* par_name = <<par, name>>
   IF par_name[1][k] = 0 THEN <<par_name[2][k]>> ELSE Append(PathOf(par_name, par_name[1][k]), par_name[2][k])
\* all suffix forms of node k (as term sequences)
FormsOf(pn, k) == LET p == PathOf(pn, k) IN {SubSeq(p, i, Len(p)) : i \in 1..Len(p)}
\* the node a term sequence is a form of (0 = none).  Names are unique, so a form determines its node.
NodeOfForm(pn, n, f) == LET S == {k \in 1..n : f \in FormsOf(pn, k)} IN IF S = {} THEN 0 ELSE CHOOSE k \in S : TRUE

\* ---------- declarative resolution ----------
\* K = the longest k such that every prefix of length 1..k is a form
GoodPrefix(pn, n, terms, k) == \A j \in 1..k : NodeOfForm(pn, n, SubSeq(terms, 1, j)) # 0
DeclK(pn, n, terms) == LET S == {k \in 0..Len(terms) : GoodPrefix(pn, n, terms, k)} IN CHOOSE k \in S : \A j \in S : j <= k
IsTerm(pn, n, w) == NodeOfForm(pn, n, <<w>>) # 0
DeclResolve(pn, n, tv, terms) ==
   LET K == DeclK(pn, n, terms)
       node == IF K = 0 THEN 0 ELSE NodeOfForm(pn, n, SubSeq(terms, 1, K))
       rem == SubSeq(terms, K + 1, Len(terms))
   IN IF K = 0 THEN [status |-> "novalid", node |-> 0, k |-> 0]
      ELSE IF Len(rem) > 0 /\ ~tv[node] /\ (\E i \in 1..Len(rem) : IsTerm(pn, n, rem[i]))
           THEN [status |-> "invalidparent", node |-> 0, k |-> 0]
      ELSE [status |-> "found", node |-> node, k |-> K]

\* ---------- the walk of the code ----------
RECURSIVE Walk(_, _, _, _, _)
Walk(pn, n, terms, j, cur) ==     \* j = number of terms consumed, cur = node of that prefix (0 none)
   IF j = Len(terms) THEN <<cur, j>>
   ELSE LET nxt == NodeOfForm(pn, n, SubSeq(terms, 1, j + 1)) IN
        IF nxt = 0 THEN <<cur, j>> ELSE Walk(pn, n, terms, j + 1, nxt)
AlgoResolve(pn, n, tv, terms) ==
   LET w == Walk(pn, n, terms, 0, 0)
       rem == SubSeq(terms, w[2] + 1, Len(terms))
   IN IF w[1] = 0 THEN [status |-> "novalid", node |-> 0, k |-> 0]
      ELSE IF Len(rem) > 0 /\ ~tv[w[1]] /\ (\E i \in 1..Len(rem) : IsTerm(pn, n, rem[i]))
           THEN [status |-> "invalidparent", node |-> 0, k |-> 0]
      ELSE [status |-> "found", node |-> w[1], k |-> w[2]]

\* ---------- canonical forms ----------
ShortOf(pn, node, rem) == JoinS(<<pn[2][node]>> \o rem, "/")
LongOf(pn, node, rem) == JoinS(PathOf(pn, node) \o rem, "/")

\* ---------- model: all small trees ----------
CONSTANTS MaxN, Names, Words      \* Words = Names plus a non-schema word for extensions
VARIABLES n, par, name, tv
vars == <<n, par, name, tv>>
Init == /\ n \in 1..MaxN
        /\ par \in [1..n -> 0..(MaxN - 1)] /\ \A k \in 1..n : par[k] < k
        /\ name \in [1..n -> Names] /\ \A i, j \in 1..n : i # j => name[i] # name[j]
        /\ tv \in [1..n -> BOOLEAN]
Next == UNCHANGED vars
Spec == Init /\ [][Next]_vars
PN == <<par, name>>
Spellings == UNION {[1..m -> Words] : m \in 1..3}
WalkIsDecl == \A sp \in Spellings : AlgoResolve(PN, n, tv, sp) = DeclResolve(PN, n, tv, sp)
\* every suffix spelling of every node, with or without an extension, resolves to that node
AllFormsResolve == \A k \in 1..n : \A f \in FormsOf(PN, k) :
      /\ AlgoResolve(PN, n, tv, f).node = k
      /\ LET r == AlgoResolve(PN, n, tv, Append(f, "x")) IN r.status = "found" /\ r.node = k /\ r.k = Len(f)
\* long and short forms are mutually inverse and idempotent, and name the same node
FormsInverse == \A k \in 1..n : \A f \in FormsOf(PN, k) : \A rem \in {<<>>, <<"x">>} :
      LET r == AlgoResolve(PN, n, tv, f \o rem)
          shortT == <<name[r.node]>> \o rem
          longT == PathOf(PN, r.node) \o rem
          rs == AlgoResolve(PN, n, tv, shortT)
          rl == AlgoResolve(PN, n, tv, longT)
      IN /\ rs.node = k /\ rl.node = k
         /\ PathOf(PN, rs.node) \o SubSeq(shortT, rs.k + 1, Len(shortT)) = longT        \* long(short(t)) = long(t)
         /\ <<name[rl.node]>> \o SubSeq(longT, rl.k + 1, Len(longT)) = shortT            \* short(long(t)) = short(t)
=============================================================================
