---- MODULE MC_Backup ----
EXTENDS Backup, Json, TLCExt, IOUtils, SequencesExt
\* file descriptions: dir 0 root, 1 "code" (excluded), 2 "sub-01", 3 "sub-02/eeg"
Tks == {"", "go", "stop"}
FileRecs == {r \in [dir : 0..3, tk : Tks, us : BOOLEAN, ev : BOOLEAN] : r.tk = "" => ~r.us}
TkCode(t) == CASE t = "" -> 0 [] t = "go" -> 1 [] t = "stop" -> 2
Rank(r) == r.dir * 12 + TkCode(r.tk) * 4 + (IF r.us THEN 2 ELSE 0) + (IF r.ev THEN 1 ELSE 0)
\* walk order: directory codes never decrease along the sequence; equal records are allowed (two runs of one task)
Sorted(s) == \A j \in 1..(Len(s) - 1) : Rank(s[j]) <= Rank(s[j + 1])
SeqsOf(S, n) == UNION {{s \in [1..m -> S] : Sorted(s)} : m \in 1..n}
TreesOver(S, n, B) == {[files |-> s, btasks |-> b] : s \in SeqsOf(S, n), b \in B}

\* selected-capable records only (used for the deeper runs)
EvRecs == {r \in FileRecs : r.ev /\ r.dir # 1}
SmallRecs == {r \in FileRecs : r.dir \in {0, 2, 3} /\ (r.ev \/ (r.tk = "go" /\ ~r.us /\ r.dir = 2))}

\* reduced description set for the history-heavy runs
HistRecs == {r \in FileRecs : r.dir \in {0, 2, 3} /\ (r.ev \/ (r.tk = "go" /\ ~r.us)) /\ (r.tk = "stop" => ~r.us)}
TreesH == TreesOver(HistRecs, 2, {<<>>, <<"go">>})
\* quick tier: the same without the one-level directory
TreesQ == TreesOver({r \in HistRecs : r.dir # 2}, 2, {<<>>, <<"go">>})
Trees2 == TreesOver(FileRecs, 2, {<<>>, <<"go">>})
Trees1 == TreesOver(FileRecs, 1, {<<>>, <<"go">>})
Trees3 == TreesOver(SmallRecs, 3, {<<>>, <<"go">>})
TreesGen == TreesOver(FileRecs, 3, {<<>>, <<"go">>, <<"stop">>})
TaskArgsDef == {<<>>, <<"go">>, <<"stop">>, <<"go", "stop">>}
TaskArgsSmall == {<<>>, <<"go">>}
Ops1 == {1}
Ops2 == {1, 2}

\* generation runs take every TREE_STRIDE-th tree of the family, starting at TREE_OFFSET (rotates with the seed)
Picked(S) == LET L == SetToSeq(S) st == atoi(IOEnv.TREE_STRIDE) off == atoi(IOEnv.TREE_OFFSET)
             IN {L[j] : j \in {i \in 1..Len(L) : i % st = off}}
TreesPick2 == Picked(Trees2)
TreesPick3 == Picked(TreesGen)
\* histories are generated on trees whose backup is not empty
SelNonEmpty(tr) == \E j \in 1..Len(tr.files) : tr.files[j].ev /\ tr.files[j].dir # 1
                                                  /\ (tr.btasks = <<>> \/ tr.files[j].tk \in Range(tr.btasks))
TreesPickH == Picked({tr \in TreesGen : SelNonEmpty(tr)})
\* one JSON line per finished behaviour (generation runs; hist is part of the state there)
EmitCrash == (pc = "idle" /\ creates = MaxCreate) =>
                 PrintT("@@EMIT@@" \o ToJson([tree |-> tree, hist |-> hist]))
EmitHist == (pc = "idle" /\ creates = MaxCreate /\ nops = MaxHist) =>
                 PrintT("@@EMIT@@" \o ToJson([tree |-> tree, hist |-> hist]))
====
