CONSTANTS
  Keys <- KeysFull
  GScalars <- ScalarsSmall
  MaxDepth = 1
  MaxNodes = 1
  Bases <- BasesSmall
  MaxFaults = 1
  RefNames <- RefNamesDef
  DropRule = "naNotKey"
  Mode = "faults"
SPECIFICATION Spec


INVARIANT BaseClean
INVARIANT FaultExact
INVARIANT FaultCode
INVARIANT FaultStays
