\* every labelled tree <= 3 nodes (generated-schema shapes), with the model invariants
CONSTANTS
  MaxN = 3
  Names <- Names3
  Words <- Words3
SPECIFICATION Spec
INVARIANT AllFormsResolve
INVARIANT FormsInverse
INVARIANT EmitTree
