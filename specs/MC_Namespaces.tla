---- MODULE MC_Namespaces ----
EXTENDS Namespaces, Json, IOUtils
D == JsonDeserialize(IOEnv.TRACE_FILE)       \* facts about the bundled versions, computed from the XML files
VersDef == {D.vers[i] : i \in 1..Len(D.vers)}
StdDef == [v \in VersDef |-> D.std[v]]
LibDef == [v \in VersDef |-> D.lib[v]]
ClashDef == {{D.clash[i][1], D.clash[i][2]} : i \in 1..Len(D.clash)}
PrefixesDef == {"", "a", "b", "x1"}
GoodDef == {"", "a", "b"}
Emit == PrintT("@@EMIT@@" \o ToJson([list |-> list, accept |-> Accept, why |-> Why, loaded |-> Loaded]))
====
