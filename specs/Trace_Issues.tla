---- MODULE Trace_Issues ----
(* Validates issue lists recorded from the real entry points against Issues.tla (part 2). *)
EXTENDS Issues, Json, IOUtils, TLCExt
Runs == JsonDeserialize(IOEnv.TRACE_FILE)
VARIABLES r
TInit == r = 0 /\ Init
\* IF (not \/): TLC would explore both disjuncts of an action-level disjunction as separate successors
Check(run) ==
   /\ \A k \in 1..Len(run.issues) :
         LET e == run.issues[k] IN
            IF IssueOK(e, run.texts[e.ti]) THEN TRUE ELSE PrintT(<<"REJECT", run.id, k, Why(e, run.texts[e.ti])>>)
   /\ (IF FilterSubset(run.sig, run.sev, run.errsig) THEN TRUE ELSE PrintT(<<"REJECT", run.id, 0, "errors-only-not-subset">>))
   /\ (IF SortedStable(run.sortkeys, run.sortoi) THEN TRUE ELSE PrintT(<<"REJECT", run.id, 0, "sort-order">>))
   /\ (IF SortedStableDesc(run.sortkeysrev, run.sortoirev) THEN TRUE ELSE PrintT(<<"REJECT", run.id, 0, "sort-order-reverse">>))
   /\ (IF run.codes = run.codesafter THEN TRUE ELSE PrintT(<<"REJECT", run.id, 0, "codes-changed-by-export">>))
TNext == r < Len(Runs) /\ r' = r + 1 /\ Check(Runs[r + 1]) /\ UNCHANGED vars
TSpec == TInit /\ [][TNext]_<<vars, r>>
Done == r = Len(Runs) => PrintT(<<"CHECKED", r>>)
====
