---- MODULE MC_KeyMap ----
EXTENDS KeyMap, Json
Keys1 == {<<"x">>, <<"y">>, <<"z">>}
Order1 == << <<"x">>, <<"y">>, <<"z">> >>
KeysFed1 == {<<"x">>, <<"y">>}
\* two key columns: the order of resort() is by the first column, then the second
Keys2 == {<<"x", "2">>, <<"x", "1">>, <<"a", "2">>}
Order2 == << <<"a", "2">>, <<"x", "1">>, <<"x", "2">> >>
\* two keys whose values read the same when written one after the other: they are different keys
Keys3 == {<<"x1", "1">>, <<"x", "11">>, <<"a", "2">>}
Order3 == << <<"a", "2">>, <<"x", "11">>, <<"x1", "1">> >>
KeysFed3 == {<<"x1", "1">>, <<"a", "2">>}
TgtsDef == {"P", "Q"}
\* only keys of FedKeys are fed (the others are looked up and must be reported missing)
CONSTANT FedKeys
FedOnly == \A i \in 1..Len(hist) : \A j \in 1..Len(hist[i].rows) : hist[i].rows[j].k \in FedKeys
Emit == FedOnly => PrintT("@@EMIT@@" \o ToJson([hist |-> hist, colmap |-> colmap,
                 cnt |-> [i \in 1..Len(KeyOrder) |-> cnt[KeyOrder[i]]],
                 remap |-> Remap(KeyOrder), missing |-> Missing(KeyOrder)]))
\* vacuity guards (must be violated)
NeverRepeats == \A k \in Keys : cnt[k] <= 1
NeverResorted == \A i \in 1..Len(hist) : hist[i].a = "update"
====
