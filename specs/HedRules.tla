----------------------------- MODULE HedRules -----------------------------
(* The HED string-validation rules as a function of an abstract annotation tree
   (properties C01, C04, C13).

   Tree: nodes 1..n in any order with par[k] < k; par[k] = 0 means top level; kind[k] = "g" is a
   parenthesised group, any other kind is a tag (leaf):
     p1, p2  two different plain tags        v    a value-taking tag with a legal value (and unit)
     ext     a tag carrying a permitted extension (a rule-conforming construct: a warning at most)
     bad     a tag that breaks ONE per-tag rule (unknown tag, forbidden extension, missing required
             child, bad unit, bad value, stray placeholder, forbidden character, undeclared Def,
             wrongly valued Def, altered Def-expand): reported by the basic phase
     def     a use of a declared definition (Def/Name)
     on/off  Onset (or Inset) / Offset       dur / del   Duration/x, Delay/x
     uq      a tag with the `unique` attribute that is also a top-level-group tag (Event-context)
   sflaw: damage done to the rendered text (unbalanced parenthesis, empty element, missing comma).

   Verdict(tree) is the set of HED-specification error codes validation must report.  The validator
   is two-phase: text checks, then per-tag checks, and only if those are error-free the group and
   whole-string checks (HedValidator.validate) - modelled so that no code is demanded from a phase
   that did not run.
*)
EXTENDS Integers, Sequences, FiniteSets, TLC

CONSTANTS MaxN, Kinds, SFlaws,
          Bases,    \* trees the grammar starts from (the empty tree, or rule-conforming constructs to be varied)
          MaxSteps, \* bound on the number of grammar steps from a base
          DUP      \* TRUE: the grammar may also duplicate a sub-tree (used for sampling repeated groups)
Leaf == Kinds
\* "del2" / "dur2": a Delay / Duration tag with ANOTHER value than "del" / "dur" - the same tag as far as the group rules go,
\* a different one as far as repetition goes
DelK == {"del", "del2"}
DurK == {"dur", "dur2"}
TL == {"on", "off", "uq"} \cup DelK \cup DurK    \* carry topLevelTagGroup
Time == {"on", "off"} \cup DelK \cup DurK         \* temporal keys (extra TEMPORAL_TAG_ERROR when misplaced)
Temporal == {"on", "off"}                          \* Onset / Inset / Offset

VARIABLES n, par, kind, sflaw, steps
vars == <<n, par, kind, sflaw, steps>>

IsGroup(k) == kind[k] = "g"
Kids(g) == {k \in 1..n : par[k] = g}
TagKids(g) == {k \in Kids(g) : ~IsGroup(k)}
GroupKids(g) == {k \in Kids(g) : IsGroup(k)}
TopGroup(g) == g # 0 /\ IsGroup(g) /\ par[g] = 0

TreeOK == \A k \in 1..n : par[k] < k /\ (IF par[k] = 0 THEN TRUE ELSE kind[par[k]] = "g")
\* The generative grammar: an annotation grows by one tag or one (empty) group at a time, at top level or
\* inside an existing group.  BFS from the empty annotation reaches every tree exactly once; simulation
\* samples deep ones.
Init == /\ \E b \in Bases : n = Len(b.kind) /\ par = b.par /\ kind = b.kind
        /\ sflaw \in SFlaws /\ steps = 0
AddNode(p, kd) == /\ n < MaxN /\ steps < MaxSteps /\ steps' = steps + 1
                  /\ (IF p = 0 THEN TRUE ELSE kind[p] = "g")
                  /\ n' = n + 1 /\ par' = Append(par, p) /\ kind' = Append(kind, kd)
                  /\ UNCHANGED sflaw
\* copy the sub-tree rooted at k: as a new sibling of k (a repeated tag or group), or into another group tp
\* (the same construct, elsewhere).  DupFlat adds a sibling group holding the same leaves without their nesting.
RECURSIVE Desc(_)
Desc(k) == {k} \cup UNION {Desc(j) : j \in {x \in 1..n : par[x] = k}}
Rank(S, j) == Cardinality({x \in S : x <= j})
CopyUnder(k, tp) == LET S == Desc(k) IN
                 /\ n + Cardinality(S) <= MaxN /\ steps < MaxSteps /\ steps' = steps + 1
                 /\ tp \notin S
                 /\ (IF tp = 0 THEN TRUE ELSE kind[tp] = "g")
                 /\ n' = n + Cardinality(S)
                 /\ par' = [i \in 1..(n + Cardinality(S)) |->
                              IF i <= n THEN par[i]
                              ELSE LET j == CHOOSE x \in S : Rank(S, x) = i - n IN
                                   IF j = k THEN tp ELSE n + Rank(S, par[j])]
                 /\ kind' = [i \in 1..(n + Cardinality(S)) |->
                              IF i <= n THEN kind[i] ELSE kind[CHOOSE x \in S : Rank(S, x) = i - n]]
                 /\ UNCHANGED sflaw
DupSubtree(k) == CopyUnder(k, par[k])
DupFlat(k) == LET L == {x \in Desc(k) : kind[x] # "g"} IN
              /\ kind[k] = "g" /\ Cardinality(L) >= 2 /\ Cardinality(L) < Cardinality(Desc(k)) - 1
              /\ n + Cardinality(L) + 1 <= MaxN /\ steps < MaxSteps /\ steps' = steps + 1
              /\ n' = n + Cardinality(L) + 1
              /\ par' = [i \in 1..(n + Cardinality(L) + 1) |-> IF i <= n THEN par[i] ELSE IF i = n + 1 THEN par[k] ELSE n + 1]
              /\ kind' = [i \in 1..(n + Cardinality(L) + 1) |->
                            IF i <= n THEN kind[i] ELSE IF i = n + 1 THEN "g"
                            ELSE kind[CHOOSE x \in L : Rank(L, x) = i - n - 1]]
              /\ UNCHANGED sflaw
Next == \/ \E p \in 0..n, kd \in Kinds \cup {"g"} : AddNode(p, kd)
        \/ (DUP /\ \E k \in 1..n : DupSubtree(k) \/ DupFlat(k) \/ \E tp \in 0..n : CopyUnder(k, tp))
Spec == Init /\ [][Next]_vars

\* ---------- structural equality of sub-trees up to sibling order ----------
RECURSIVE Eq(_, _)
Eq(a, b) == IF ~IsGroup(a) \/ ~IsGroup(b) THEN kind[a] = kind[b] /\ ~IsGroup(a) /\ ~IsGroup(b)
            ELSE /\ Cardinality(Kids(a)) = Cardinality(Kids(b))
                 /\ \E f \in [Kids(a) -> Kids(b)] :
                       /\ \A x, y \in Kids(a) : x # y => f[x] # f[y]
                       /\ \A x \in Kids(a) : Eq(x, f[x])

\* ---------- rule instances: <<code, node>> ----------
BasicViol == {<<"BASIC", k>> : k \in {x \in 1..n : kind[x] = "bad"}}
EmptyGroup == {<<"TAG_EMPTY", g>> : g \in {x \in 1..n : IsGroup(x) /\ Kids(x) = {}}}
\* a top-level-group tag must sit directly in a top-level group
Misplaced == {k \in 1..n : kind[k] \in TL /\ ~TopGroup(par[k])}
GroupErr == {<<"TAG_GROUP_ERROR", k>> : k \in Misplaced}
            \cup {<<"TEMPORAL_TAG_ERROR", k>> : k \in {x \in Misplaced : kind[x] \in Time}}
\* several top-level-group tags in one top-level group: only Delay + one temporal/duration tag may share
MultiTopBad(g) == LET S == {k \in TagKids(g) : kind[k] \in TL} IN
                  /\ Cardinality(S) > 1
                  /\ ~(/\ Cardinality(S) = 2
                       /\ \E a, b \in S : a # b /\ kind[a] \in DelK /\ kind[b] \in {"on", "off"} \cup DurK)
MultiTop == {<<"TAG_GROUP_ERROR", g>> : g \in {x \in 1..n : TopGroup(x) /\ MultiTopBad(x)}}
\* unique tags
Unique == IF Cardinality({k \in 1..n : kind[k] = "uq"}) > 1 THEN {<<"TAG_NOT_UNIQUE", 0>>} ELSE {}
\* repeated tag or group among siblings (any level), up to order
Repeated == {<<"TAG_EXPRESSION_REPEATED", a>> : a \in {x \in 1..n : \E y \in 1..n : y < x /\ par[y] = par[x] /\ Eq(x, y)}}
\* Onset/Inset/Offset groups: exactly one Def, at most one extra member (none for Offset), which must be a group
AnchorOf(g) == CHOOSE k \in TagKids(g) : kind[k] \in Temporal /\ \A j \in TagKids(g) : kind[j] \in Temporal => k <= j
OnsetBad(g) == LET a == AnchorOf(g)
                   defs == {k \in TagKids(g) : kind[k] = "def"}
                   others == Kids(g) \ ({a} \cup {k \in TagKids(g) : kind[k] \in DelK})
               IN \/ Cardinality(defs) # 1
                  \/ Cardinality(others \ defs) > (IF kind[a] = "off" THEN 0 ELSE 1)
                  \/ \E k \in others \ defs : ~IsGroup(k)
OnsetErr == {<<"TEMPORAL_TAG_ERROR", g>> : g \in {x \in 1..n : TopGroup(x) /\ (\E k \in TagKids(x) : kind[k] \in Temporal) /\ OnsetBad(x)}}
\* Duration/Delay groups (without Onset/Offset): nothing but the Duration/Delay tags and exactly one inner group
DurBad(g) == \/ \E k \in TagKids(g) : kind[k] \notin TL
             \/ Cardinality(GroupKids(g)) # 1
IsDurGroup(x) == /\ TopGroup(x)
                 /\ (\E k \in TagKids(x) : kind[k] \in DurK \cup DelK)
                 /\ ~(\E j \in TagKids(x) : kind[j] \in Temporal)
DurErr == {<<"TEMPORAL_TAG_ERROR", g>> : g \in {x \in 1..n : IsDurGroup(x) /\ DurBad(x)}}
FullViol == EmptyGroup \cup GroupErr \cup MultiTop \cup Unique \cup Repeated \cup OnsetErr \cup DurErr

\* ---------- the verdict, phase by phase ----------
Viol == IF sflaw # "none" THEN {<<sflaw, 0>>}
        ELSE IF BasicViol # {} THEN BasicViol
        ELSE FullViol
Codes == {v[1] : v \in Viol}
Valid == Viol = {}
Single == Cardinality(Viol) = 1
\* number of distinct offending places: one misplaced temporal tag is ONE injected violation carrying two codes
Causes == Cardinality({v[2] : v \in Viol})

\* ---------- model-level properties ----------
\* a repeated pair is reported wherever the copies sit
RepeatFound == \A a, b \in 1..n : (a < b /\ par[a] = par[b] /\ Eq(a, b) /\ sflaw = "none" /\ BasicViol = {})
                    => "TAG_EXPRESSION_REPEATED" \in Codes
\* rule-conforming constructs are accepted: spot checks of the grammar the statement lists
GrammarSound ==
   /\ ((n = 3 /\ kind = <<"g", "def", "on">> /\ par = <<0, 1, 1>> /\ sflaw = "none") => Valid)
   /\ ((n = 4 /\ kind = <<"g", "dur", "g", "p1">> /\ par = <<0, 1, 1, 3>> /\ sflaw = "none") => Valid)
   /\ ((n = 2 /\ kind = <<"p1", "p2">> /\ par = <<0, 0>> /\ sflaw = "none") => Valid)
   /\ ((n = 2 /\ kind = <<"p1", "p1">> /\ par = <<0, 0>> /\ sflaw = "none") => Codes = {"TAG_EXPRESSION_REPEATED"})
   /\ ((n = 1 /\ kind = <<"on">> /\ par = <<0>> /\ sflaw = "none") => Codes = {"TAG_GROUP_ERROR", "TEMPORAL_TAG_ERROR"})
=============================================================================
