\* the neighbourhood of rule-conforming constructs: every tree reachable from a valid base in <= 2 grammar steps
CONSTANTS
  MaxN = 10
  Kinds <- KindsTemporal
  Bases <- BasesValid
  MaxSteps = 2
  DUP = TRUE
  SFlaws <- SFlawsDef
SPECIFICATION Spec
INVARIANT EmitNear
