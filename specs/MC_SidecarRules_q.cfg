CONSTANTS
  Keys <- KeysFull
  GScalars <- ScalarsSmall
  MaxDepth = 1
  MaxNodes = 1
  Bases <- BasesSmall
  MaxFaults = 2
  RefNames <- RefNamesDef
  DropRule = ""
  Mode = "faults"
SPECIFICATION Spec
INVARIANT Total
INVARIANT TypingSound
INVARIANT BaseClean
INVARIANT FaultExact
INVARIANT FaultCode
INVARIANT FaultStays
