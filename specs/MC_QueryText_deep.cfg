CONSTANTS
  TermsOf <- AbsTerms
  ShortOf <- AbsShort
  Variant = "ok"
  Labels <- L3
  MaxNodes = 1
  MaxDepth = 4
  Alphabet <- AlphaCore
  MaxToks = 6
  Gen <- Atoms
SPECIFICATION SpecTexts
INVARIANT PDAEqualsRD
INVARIANT UnbalancedRejected
INVARIANT StrictImpliesLenient
