CONSTANTS
  MaxN = 3
  Kinds <- KindsDef
  SFlaws <- SFlawsAll
SPECIFICATION Spec
INVARIANT Emit
