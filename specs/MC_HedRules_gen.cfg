CONSTANTS
  MaxN = 3
  Kinds <- KindsDef
  Bases <- BasesEmpty
  MaxSteps = 99
  DUP = FALSE
  SFlaws <- SFlawsAll
SPECIFICATION Spec
INVARIANT Emit
