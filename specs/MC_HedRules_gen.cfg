CONSTANTS
  MaxN = 3
  Kinds <- KindsDef
  DUP = FALSE
  SFlaws <- SFlawsAll
SPECIFICATION Spec
INVARIANT Emit
