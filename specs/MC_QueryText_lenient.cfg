CONSTANTS
  LabelTerms <- AbsTerms
  Variant = "ok"
  Labels <- L3
  MaxNodes = 1
  MaxDepth = 4
  Alphabet <- AlphaCore
  MaxToks = 3
  USize = 1
SPECIFICATION SpecTexts
INVARIANT UnbalancedRejectedLenient
