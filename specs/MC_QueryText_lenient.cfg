CONSTANTS
  TermsOf <- AbsTerms
  ShortOf <- AbsShort
  Variant = "ok"
  Labels <- L3
  MaxNodes = 1
  MaxDepth = 4
  Alphabet <- AlphaCore
  MaxToks = 3
  Gen <- Atoms
SPECIFICATION SpecTexts
INVARIANT UnbalancedRejectedLenient
