CONSTANTS
  Keys <- KeysFull
  GScalars <- ScalarsFull
  MaxDepth = 3
  MaxNodes = 4
  Bases <- NoBases
  MaxFaults = 0
  RefNames <- RefNamesDef
  DropRule = ""
  Mode = "grammar"
SPECIFICATION Spec
INVARIANT Total
INVARIANT TypingSound
INVARIANT GrammarBound
INVARIANT Emit
