CONSTANTS
  Rules <- RulesGap
SPECIFICATION Spec
INVARIANT Deterministic
