---- MODULE MC_SchemaTree ----
EXTENDS SchemaTree, Json
NamesDef == {"a", "b", "c", "d"}
WordsDef == {"a", "b", "c", "d", "x"}
\* generation of schema SHAPES for generated schemas: every labelled tree (incl. value-taking nodes that also have named
\* children); the driver keeps one per shape and packs them into one library schema
Names3 == {"a", "b", "c"}
Words3 == {"a", "b", "c", "x"}
EmitTree == PrintT("@@EMIT@@" \o ToJson([n |-> n, par |-> par, name |-> name, tv |-> tv]))
====
