---- MODULE MC_SchemaTree ----
EXTENDS SchemaTree
NamesDef == {"a", "b", "c", "d"}
WordsDef == {"a", "b", "c", "d", "x"}
====
