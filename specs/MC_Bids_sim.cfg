CONSTANTS
  Shapes <- AllShapes
  MaxSC = 4
  Cols <- ColsDef
  Excluded <- ExcludedDef
  DecoyKinds <- DecoyKindsDef
  DecoyRule <- RotDecoy
  ENFORCE_BIDS = TRUE
  DEEPER_WINS = TRUE
SPECIFICATION Spec
INVARIANT Emit
