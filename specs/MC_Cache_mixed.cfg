\* repaired design: exhaustive, schedule hidden
CONSTANTS
  Procs <- ProcsDef
  Role <- RoleMixed
  Files <- FilesDef
  Want = "v"
  Chunks = 2
  LOCK = TRUE
  ATOMIC = TRUE
  FALLBACK = TRUE
  MaxCrash = 2
SPECIFICATION Spec
VIEW View
INVARIANT TypeOK
INVARIANT NoFailedLoad
INVARIANT MutualExclusion
INVARIANT TimeoutGivesCacheError
INVARIANT NoTornFinal
INVARIANT FinishedPopulationComplete
