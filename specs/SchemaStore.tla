----------------------------- MODULE SchemaStore -----------------------------
(* Saving and re-loading HED schemas (property C05).

   ABSTRACT SCHEMA.  s = [hdr, tags, ucs, units, others]
     hdr   = [library : Seq(STRING) (<<>> = standard schema, two or more = merged from several
              libraries), withStandard : STRING ("" = no partner), unmerged : BOOLEAN (how it was loaded)]
     tags  = set of [name, parent ("" = top level), attrs : set of <<attribute, value>> pairs
              (a multi-valued attribute is several pairs, a boolean one is <<a, "true">>; the
              library marker is the pair <<"inLibrary", lib>>, a re-attached sub-tree root carries
              <<"rooted", partnerNode>>), desc : description kind, val : TRUE for a '#' child]
     ucs   = set of [name, attrs, desc]             (unit classes)
     units = set of [name, uclass, attrs, desc]
     others = set of [name, sect, attrs, desc]      (value classes, unit modifiers, attribute and property definitions)
   Short names are unique (HED rule), so they identify entries; a '#' child of P is named P \o "/#".

   EDITS.  AddNode, AddRooted, RemoveLeaf, SetAttr, SetDesc, AddValueChild, AddUnitClass, AddUnit,
   AddValueClass, Merge (a second library is merged in; such a schema must refuse to be saved).

   WRITER  Written(sc, merged, fmt): the format-independent decision table of
   Schema2Base.process_schema/_should_skip/_attribute_disallowed/_output_tags/_output_units:
   which entries are written (library vs partner entries), inLibrary stripping, level adjustment
   of rooted sub-trees, the "partner unit class that only hosts library units" case; every written
   tag row carries the three encodings of its place in the tree that the three formats use
   (XML: enclosing written node; MediaWiki: number of stars, meaning depends on the ORDER of
   rows; TSV: short name of the parent).

   LOADER  Loaded(file): base2schema.SchemaLoader._load/_add_to_dict_base/find_rooted_entry plus
   the per-format reconstruction of the tree: the partner is re-loaded for an unmerged partnered
   file, inLibrary is re-added, rooted sub-trees are re-attached, partner unit classes named
   without properties are re-used.

   REQUIRED:  RoundTrip, FormatsAgree, MultiMergeRefuses.

   Switches (the required design is ORDER="dfs", STRIP, REROOT, ~TSV_UC_PROPS):
     ORDER = "appended"  in-memory order of a partner group that is not sorted: partner nodes first,
                         library sub-trees rooted inside the group appended at its end (what
                         HedSchemaTagSection._finalize_section leaves for groups without
                         extensionAllowed).  Then the MediaWiki star encoding is ambiguous.
     TSV_UC_PROPS        the TSV writer ignores "name only" for a partner unit class hosting library units
     STRIP = FALSE       writer forgets to strip inLibrary when saving unmerged        (sensitivity)
     REROOT = FALSE      loader forgets to re-attach rooted sub-trees                  (sensitivity)
*)
EXTENDS Integers, Sequences, FiniteSets, SequencesExt, TLC

CONSTANTS MaxEdits,      \* bound on the number of edits
          MODE,          \* "partnered" (library + partner standard schema) | "standard" (stand-alone standard schema)
          NewNames,      \* names available for added nodes
          UnitNames,     \* names available for added units
          DescKinds,     \* description kinds SetDesc may choose
          AttrOpts,      \* set of <<attribute, value set>> choices for SetAttr ({} = remove the attribute)
          ORDER, STRIP, REROOT, TSV_UC_PROPS

VARIABLES s, edits
vars == <<s, edits>>

Lib == "testlib"
Other == "score"
TRUEV == "true"
BAD == "!"            \* parent marker: the loader reports a fatal error for this row

TagE(n, p, a, d, v) == [name |-> n, parent |-> p, attrs |-> a, desc |-> d, val |-> v]

\* ---- the partner standard schema (a slice of HED 8.3.0; checked against the XML by the driver) ----
BaseTags == {
  TagE("Event", "", {<<"suggestedTag", "Task-property">>}, "base", FALSE),
  TagE("Sensory-event", "Event", {<<"suggestedTag", "Task-event-role">>, <<"suggestedTag", "Sensory-presentation">>}, "base", FALSE),
  TagE("Measurement-event", "Event", {<<"suggestedTag", "Data-property">>}, "base", FALSE),
  TagE("Item", "", {<<"extensionAllowed", TRUEV>>}, "base", FALSE),
  TagE("Object", "Item", {<<"suggestedTag", "Sensory-presentation">>}, "base", FALSE) }
\* two partner unit classes: one inside the partner's list and its LAST one (the writer walks them in order)
BaseUCs == { [name |-> "timeUnits", attrs |-> {<<"defaultUnits", "s">>}, desc |-> "none"],
             [name |-> "weightUnits", attrs |-> {<<"defaultUnits", "g">>}, desc |-> "none"] }
BaseUnits == {
  [name |-> "gram", uclass |-> "weightUnits", attrs |-> {<<"SIUnit", TRUEV>>, <<"conversionFactor", "1.0">>}, desc |-> "none"],
  [name |-> "g", uclass |-> "weightUnits", attrs |-> {<<"SIUnit", TRUEV>>, <<"unitSymbol", TRUEV>>, <<"conversionFactor", "1.0">>}, desc |-> "none"],
  [name |-> "second", uclass |-> "timeUnits", attrs |-> {<<"SIUnit", TRUEV>>, <<"conversionFactor", "1.0">>}, desc |-> "none"],
  [name |-> "s", uclass |-> "timeUnits", attrs |-> {<<"SIUnit", TRUEV>>, <<"unitSymbol", TRUEV>>, <<"conversionFactor", "1.0">>}, desc |-> "none"] }
BaseOthers == {
  [name |-> "numericClass", sect |-> "valueClass", desc |-> "base",
   attrs |-> {<<"allowedCharacter", c>> : c \in {"digits", "E", "e", "plus", "hyphen", "period"}}],
  [name |-> "textClass", sect |-> "valueClass", desc |-> "base", attrs |-> {<<"allowedCharacter", "text">>}] }

\* sibling order used whenever siblings have to be put in a row (ordinal order of the names)
NameOrder == <<"Alpha", "Beta", "Delta", "Event", "Gamma", "Item", "Kappa", "Measurement-event", "Object",
               "Other-node", "Sensory-event", "Zeta">>
RankF == [n \in Range(NameOrder) |-> CHOOSE i \in 1..Len(NameOrder) : NameOrder[i] = n]
Rank(n) == RankF[n]
ASSUME NewNames \subseteq Range(NameOrder)

IL(lib) == <<"inLibrary", lib>>
InLib(e) == \E p \in e.attrs : p[1] = "inLibrary"
HasA(e, a) == \E p \in e.attrs : p[1] = a
ValOf(e, a) == (CHOOSE p \in e.attrs : p[1] = a)[2]
Names(S) == {e.name : e \in S}
ByName(S, n) == CHOOSE e \in S : e.name = n
Kids(T, p) == {e \in T : e.parent = p}

RECURSIVE Depth(_, _)
Depth(T, e) == IF e.parent = "" THEN 0 ELSE 1 + Depth(T, ByName(T, e.parent))
RECURSIVE PathTo(_, _)        \* names from the top-level node down to n
PathTo(T, n) == LET e == ByName(T, n) IN IF e.parent = "" THEN <<n>> ELSE Append(PathTo(T, e.parent), n)

\* ---- order of the tag entries in memory (HedSchemaTagSection._finalize_section) ----
Key(e) == IF e.val THEN 0 ELSE Rank(e.name)
Sorted(S) == SetToSortSeq(S, LAMBDA a, b : Key(a) < Key(b))
RECURSIVE Dfs(_, _), DfsAll(_, _)
Dfs(T, e) == <<e>> \o DfsAll(T, Sorted(Kids(T, e.name)))
DfsAll(T, q) == IF q = <<>> THEN <<>> ELSE Dfs(T, Head(q)) \o DfsAll(T, Tail(q))

GroupSeq(T, r) ==
  IF ORDER = "dfs" \/ HasA(r, "extensionAllowed") \/ InLib(r)
  THEN Dfs(T, r)                        \* sorted group (or required design): every sub-tree is contiguous
  ELSE LET B == {e \in T : ~InLib(e)}   \* partner entries keep the partner's order ...
           members == Range(Dfs(T, r))
           hooks == {e \in members : InLib(e) /\ ~InLib(ByName(T, e.parent))}
       IN Dfs(B, r) \o DfsAll(T, Sorted(hooks))   \* ... library sub-trees come after them
RECURSIVE Groups(_, _)
Groups(T, q) == IF q = <<>> THEN <<>> ELSE GroupSeq(T, Head(q)) \o Groups(T, Tail(q))
MemOrder(T) == Groups(T, Sorted({r \in Kids(T, "") : InLib(r)}) \o Sorted({r \in Kids(T, "") : ~InLib(r)}))

\* =========================== WRITER ===========================
Partnered(sc) == sc.hdr.withStandard # ""
CanSave(sc) == Len(sc.hdr.library) <= 1               \* HedSchema.can_save
EffMerged(sc, m) == ~Partnered(sc) \/ m               \* save_merged is forced for schemas without a partner
SaveBase(sc, m) == ~Partnered(sc) \/ m
SaveLib == TRUE
StripIL(sc, m) == STRIP /\ ~(Partnered(sc) /\ m)
Skip(sc, m, e) == (~SaveBase(sc, m) /\ ~InLib(e)) \/ (~SaveLib /\ InLib(e))          \* _should_skip
WAttrs(sc, m, e) == IF StripIL(sc, m) THEN {p \in e.attrs : p[1] # "inLibrary"} ELSE e.attrs

RECURSIVE WTags(_, _, _, _, _, _)
WTags(sc, m, q, i, adj, written) ==                   \* _output_tags: one pass over all_entries (q = MemOrder)
  IF i > Len(q) THEN <<>>
  ELSE LET e == q[i] IN
    IF Skip(sc, m, e) THEN WTags(sc, m, q, i + 1, adj, written)
    ELSE LET T == sc.tags
             lvl == Depth(T, e)
             adj1 == IF e.parent = "" THEN 0 ELSE adj
             adj2 == IF lvl > 0 /\ InLib(e) /\ ~InLib(ByName(T, e.parent)) /\ ~EffMerged(sc, m)
                        /\ e.parent \notin written
                     THEN lvl ELSE adj1
             row == [name |-> e.name, val |-> e.val,
                     stars |-> lvl - adj2,                                          \* MediaWiki
                     xmlParent |-> IF e.parent \in written THEN e.parent ELSE "",   \* XML nesting
                     tsvParent |-> e.parent,                                        \* TSV subClassOf ("" = HedTag)
                     attrs |-> WAttrs(sc, m, e), desc |-> e.desc]
         IN <<row>> \o WTags(sc, m, q, i + 1, adj2, written \cup {e.name})

UnitsOf(sc, u) == {x \in sc.units : x.uclass = u.name}
HostsLibUnit(sc, m, u) == Skip(sc, m, u) /\ \E x \in UnitsOf(sc, u) : InLib(x)
UCRow(sc, m, f, u) ==
  LET P == ~HostsLibUnit(sc, m, u) \/ (f = "tsv" /\ TSV_UC_PROPS)
  IN [name |-> u.name, props |-> P, attrs |-> IF P THEN WAttrs(sc, m, u) ELSE {}, desc |-> IF P THEN u.desc ELSE "none"]
WUCs(sc, m, f) == {UCRow(sc, m, f, u) : u \in {u \in sc.ucs : ~Skip(sc, m, u) \/ HostsLibUnit(sc, m, u)}}
WUnits(sc, m) == {[name |-> x.name, uclass |-> x.uclass, attrs |-> WAttrs(sc, m, x), desc |-> x.desc] :
                     x \in {x \in sc.units : ~Skip(sc, m, x)}}

WOthers(sc, m) == {[name |-> x.name, sect |-> x.sect, attrs |-> WAttrs(sc, m, x), desc |-> x.desc] :     \* _output_section
                      x \in {x \in sc.others : ~Skip(sc, m, x)}}
MkFile(sc, m, f, rows) ==
  [fmt |-> f,
   hdr |-> [library |-> sc.hdr.library, withStandard |-> sc.hdr.withStandard, unmerged |-> ~EffMerged(sc, m)],
   tags |-> rows, ucs |-> WUCs(sc, m, f), units |-> WUnits(sc, m), others |-> WOthers(sc, m)]
\* what the XML file lists for the tags, said without reference to any order: an entry is nested in its parent iff
\* the parent is written too
XmlSet(sc, m) == LET kept == {e \in sc.tags : ~Skip(sc, m, e)}
                     keptNames == Names(kept)
                 IN {[name |-> e.name, val |-> e.val, parent |-> IF e.parent \in keptNames THEN e.parent ELSE "",
                      attrs |-> WAttrs(sc, m, e), desc |-> e.desc] : e \in kept}
Written(sc, m, f) == MkFile(sc, m, f, WTags(sc, m, MemOrder(sc.tags), 1, 0, {}))
MergedOpts(sc) == IF Partnered(sc) THEN {TRUE, FALSE} ELSE {TRUE}
Formats == {"xml", "mediawiki", "tsv"}
\* all files a schema can be saved to (the tag rows do not depend on the format)
Files(sc) == LET ord == MemOrder(sc.tags)
                 rows == [m \in MergedOpts(sc) |-> WTags(sc, m, ord, 1, 0, {})]
             IN [x \in MergedOpts(sc) \X Formats |-> MkFile(sc, x[1], x[2], rows[x[1]])]

\* =========================== LOADER ===========================
LoadsPartner(F) == F.hdr.withStandard # "" /\ F.hdr.unmerged          \* _load: full load of the standard schema
LibStr(F) == IF Len(F.hdr.library) = 1 THEN F.hdr.library[1] ELSE "several"
AddsIL(F) == F.hdr.library # <<>> /\ (F.hdr.withStandard = "" \/ F.hdr.unmerged)    \* _add_to_dict_base
ILOf(F, attrs) == IF AddsIL(F) /\ ~(\E p \in attrs : p[1] = "inLibrary") THEN {IL(LibStr(F))} ELSE {}

\* find_rooted_entry for a row that has no parent in the file
RootParent(F, r) ==
  IF ~HasA(r, "rooted") THEN ""
  ELSE IF F.hdr.withStandard = "" THEN BAD
  ELSE IF ~LoadsPartner(F) THEN BAD                        \* rooted node at top level of a merged file
  ELSE IF ValOf(r, "rooted") \notin Names(BaseTags) THEN BAD
  ELSE IF REROOT THEN ValOf(r, "rooted") ELSE ""
\* ... and for a row that has one
InnerParent(F, r, p) == IF HasA(r, "rooted") /\ LoadsPartner(F) THEN BAD ELSE p

XmlPar(F, r) == IF r.xmlParent = "" THEN RootParent(F, r) ELSE InnerParent(F, r, r.xmlParent)
TsvPar(F, r) == IF r.tsvParent = "" THEN RootParent(F, r)
                ELSE IF \E q \in Range(F.tags) : q.name = r.tsvParent THEN InnerParent(F, r, r.tsvParent)
                ELSE IF HasA(r, "rooted") THEN RootParent(F, r)
                ELSE BAD                                    \* parent cannot be resolved
RECURSIVE WikiSt(_, _)     \* SchemaLoaderWiki._read_schema: parent stack and level adjustment after row i
WikiSt(F, i) ==
  IF i = 0 THEN [stack |-> <<>>, adj |-> 0, pars |-> <<>>]
  ELSE LET st == WikiSt(F, i - 1)
           r == F.tags[i]
       IN IF r.stars = 0
          THEN LET rp == RootParent(F, r)
                   path == IF rp = "" \/ rp = BAD THEN <<>> ELSE PathTo(BaseTags, rp)
               IN [stack |-> Append(path, r.name), adj |-> Len(path), pars |-> Append(st.pars, rp)]
          ELSE LET L == r.stars + st.adj
               IN IF L > Len(st.stack)
                  THEN [stack |-> st.stack, adj |-> st.adj, pars |-> Append(st.pars, BAD)]    \* "cannot skip a level"
                  ELSE [stack |-> Append(SubSeq(st.stack, 1, L), r.name), adj |-> st.adj,
                        pars |-> Append(st.pars, InnerParent(F, r, st.stack[L]))]

Loaded(F) ==
  LET n == Len(F.tags)
      pars == IF F.fmt = "xml" THEN [i \in 1..n |-> XmlPar(F, F.tags[i])]
              ELSE IF F.fmt = "tsv" THEN [i \in 1..n |-> TsvPar(F, F.tags[i])]
              ELSE WikiSt(F, n).pars
      t0 == IF LoadsPartner(F) THEN BaseTags ELSE {}
      uc0 == IF LoadsPartner(F) THEN BaseUCs ELSE {}
      un0 == IF LoadsPartner(F) THEN BaseUnits ELSE {}
      o0 == IF LoadsPartner(F) THEN BaseOthers ELSE {}
      oNew == {[name |-> x.name, sect |-> x.sect, attrs |-> x.attrs \cup ILOf(F, x.attrs), desc |-> x.desc] : x \in F.others}
      tNew == {TagE(F.tags[i].name, pars[i], F.tags[i].attrs \cup ILOf(F, F.tags[i].attrs), F.tags[i].desc, F.tags[i].val) :
                  i \in 1..n}
      UCE(r) == [name |-> r.name, attrs |-> r.attrs \cup ILOf(F, r.attrs), desc |-> r.desc]
      \* HedSchemaUnitClassSection._check_if_duplicate: an existing class is re-used by a row that says nothing but its name
      Reuse(r) == r.name \in Names(uc0) /\ UCE(r).attrs = {IL(LibStr(F))}
      ucNew == {UCE(r) : r \in {r \in F.ucs : ~Reuse(r)}}
      unNew == {[name |-> x.name, uclass |-> x.uclass, attrs |-> x.attrs \cup ILOf(F, x.attrs), desc |-> x.desc] : x \in F.units}
      \* "Library tag in unmerged schema has InLibrary attribute"
      ilError == LoadsPartner(F) /\ (\/ \E i \in 1..n : HasA(F.tags[i], "inLibrary")
                                     \/ \E r \in F.ucs : HasA(r, "inLibrary")
                                     \/ \E x \in F.units : HasA(x, "inLibrary")
                                     \/ \E x \in F.others : HasA(x, "inLibrary"))
  IN [ok |-> (\A i \in 1..n : pars[i] # BAD) /\ ~ilError,
      dup |-> (Names(tNew) \cap Names(t0) # {}) \/ Cardinality(Names(tNew)) # n
              \/ (Names(ucNew) \cap Names(uc0) # {}) \/ (Names(unNew) \cap Names(un0) # {})
              \/ (Names(oNew) \cap Names(o0) # {}),
      sch |-> [hdr |-> F.hdr, tags |-> t0 \cup tNew, ucs |-> uc0 \cup ucNew, units |-> un0 \cup unNew,
               others |-> o0 \cup oNew]]

\* =========================== EDITS ===========================
Own(e) == ~Partnered(s) \/ InLib(e)
NewIL == IF s.hdr.library # <<>> THEN {IL(Lib)} ELSE {}
Editable == CanSave(s) /\ Len(edits) < MaxEdits
Log(op) == edits' = Append(edits, op)
Referenced(n) == \E e \in s.tags : \E p \in e.attrs : p[1] \in {"suggestedTag", "relatedTag", "rooted"} /\ p[2] = n

AddNode(n, p) == /\ Editable /\ n \notin Names(s.tags)
                 /\ p = "" \/ \E e \in s.tags : e.name = p /\ Own(e) /\ ~e.val
                 /\ (p \o "/#") \notin Names(s.tags)            \* a placeholder must stay an only child (schema rule)
                 /\ s' = [s EXCEPT !.tags = @ \cup {TagE(n, p, NewIL, "none", FALSE)}]
                 /\ Log(<<"AddNode", n, p>>)
AddRooted(n, t) == /\ Editable /\ Partnered(s) /\ n \notin Names(s.tags)
                   /\ \E e \in s.tags : e.name = t /\ ~InLib(e) /\ ~e.val
                   /\ (t \o "/#") \notin Names(s.tags)
                   /\ s' = [s EXCEPT !.tags = @ \cup {TagE(n, t, NewIL \cup {<<"rooted", t>>}, "none", FALSE)}]
                   /\ Log(<<"AddRooted", n, t>>)
RemoveLeaf(e) == /\ Editable /\ Own(e) /\ Kids(s.tags, e.name) = {} /\ ~Referenced(e.name)
                 /\ s' = [s EXCEPT !.tags = @ \ {e}]
                 /\ Log(<<"RemoveLeaf", e.name>>)
SetAttr(e, o) == LET na == {p \in e.attrs : p[1] # o[1]} \cup {<<o[1], v>> : v \in o[2]} IN
                 /\ Editable /\ Own(e) /\ ~e.val /\ na # e.attrs
                 /\ o[1] \in {"suggestedTag", "relatedTag"} => o[2] \subseteq Names(s.tags) \ {e.name}
                 /\ s' = [s EXCEPT !.tags = (@ \ {e}) \cup {[e EXCEPT !.attrs = na]}]
                 /\ Log(<<"SetAttr", e.name, o[1], o[2]>>)
SetDescTag(e, k) == /\ Editable /\ Own(e) /\ k # e.desc
                    /\ s' = [s EXCEPT !.tags = (@ \ {e}) \cup {[e EXCEPT !.desc = k]}]
                    /\ Log(<<"SetDesc", "tag", e.name, k>>)
SetDescUC(u, k) == /\ Editable /\ Own(u) /\ k # u.desc
                   /\ s' = [s EXCEPT !.ucs = (@ \ {u}) \cup {[u EXCEPT !.desc = k]}]
                   /\ Log(<<"SetDesc", "unitClass", u.name, k>>)
SetDescUnit(x, k) == /\ Editable /\ Own(x) /\ k # x.desc
                     /\ s' = [s EXCEPT !.units = (@ \ {x}) \cup {[x EXCEPT !.desc = k]}]
                     /\ Log(<<"SetDesc", "unit", x.name, k>>)
SetDescOther(x, k) == /\ Editable /\ Own(x) /\ k # x.desc
                      /\ s' = [s EXCEPT !.others = (@ \ {x}) \cup {[x EXCEPT !.desc = k]}]
                      /\ Log(<<"SetDesc", x.sect, x.name, k>>)
ValueOpts == {<<{}, "textClass">>} \cup {<<{u}, "numericClass">> : u \in Names(s.ucs)}
             \cup (IF "libClass" \in Names(s.others) THEN {<<{}, "libClass">>} ELSE {})
             \cup (IF Cardinality(s.ucs) > 1 THEN {<<Names(s.ucs), "numericClass">>} ELSE {})
AddValueChild(e, o) == /\ Editable /\ Own(e) /\ ~e.val /\ Kids(s.tags, e.name) = {}
                       /\ s' = [s EXCEPT !.tags = @ \cup {TagE(e.name \o "/#", e.name,
                                   NewIL \cup {<<"takesValue", TRUEV>>, <<"valueClass", o[2]>>} \cup {<<"unitClass", u>> : u \in o[1]},
                                   "none", TRUE)}]
                       /\ Log(<<"AddValueChild", e.name, o[1], o[2]>>)
AddUnitClass == /\ Editable /\ "libUnits" \notin Names(s.ucs)
                /\ s' = [s EXCEPT !.ucs = @ \cup {[name |-> "libUnits", attrs |-> NewIL \cup {<<"defaultUnits", "libunit">>}, desc |-> "none"]},
                                  !.units = @ \cup {[name |-> "libunit", uclass |-> "libUnits",
                                                     attrs |-> NewIL \cup {<<"SIUnit", TRUEV>>, <<"conversionFactor", "1.0">>}, desc |-> "none"]}]
                /\ Log(<<"AddUnitClass", "libUnits">>)
\* a unit class that has no units (yet): an entry like any other - it is written and read back
AddEmptyUnitClass == /\ Editable /\ "emptyUnits" \notin Names(s.ucs)
                     /\ s' = [s EXCEPT !.ucs = @ \cup {[name |-> "emptyUnits", attrs |-> NewIL, desc |-> "none"]}]
                     /\ Log(<<"AddEmptyUnitClass", "emptyUnits">>)
AddValueClass == /\ Editable /\ "libClass" \notin Names(s.others)
                 /\ s' = [s EXCEPT !.others = @ \cup {[name |-> "libClass", sect |-> "valueClass", desc |-> "none",
                                        attrs |-> NewIL \cup {<<"allowedCharacter", "letters">>, <<"allowedCharacter", "digits">>}]}]
                 /\ Log(<<"AddValueClass", "libClass">>)
UnitOpts == {{}, {<<"conversionFactor", "0.01">>}, {<<"SIUnit", TRUEV>>, <<"unitSymbol", TRUEV>>}}
\* a unit name may hold characters beyond the name class when the unit itself allows them (as the bundled m^2 / $ do)
UnitChars(n) == IF n = "jif/fy" THEN {<<"allowedCharacter", "slash">>} ELSE {}
AddUnit(u, n, o) == /\ Editable /\ n \notin Names(s.units)
                    /\ s' = [s EXCEPT !.units = @ \cup {[name |-> n, uclass |-> u.name, attrs |-> NewIL \cup o \cup UnitChars(n), desc |-> "none"]}]
                    /\ Log(<<"AddUnit", u.name, n, o>>)
Merge == /\ Editable /\ Partnered(s)
         /\ s' = [s EXCEPT !.hdr.library = Append(@, Other),
                           !.tags = @ \cup {TagE("Other-node", "", {IL(Other)}, "plain", FALSE)}]
         /\ Log(<<"Merge", Other>>)

InitLibTags == { TagE("Alpha", "", {IL(Lib)}, "plain", FALSE),
                 TagE("Beta", "Alpha", {IL(Lib), <<"relatedTag", "Sensory-event">>}, "none", FALSE),
                 TagE("Gamma", "Event", {IL(Lib), <<"rooted", "Event">>}, "plain", FALSE) }
\* the stand-alone standard schema of MODE "standard" is the partner slice by itself (suggestions pointing outside the slice dropped)
StdTags == {[e EXCEPT !.attrs = {p \in @ : p[1] # "suggestedTag"}] : e \in BaseTags}
Init == /\ edits = <<>>
        /\ s = IF MODE = "partnered"
               THEN [hdr |-> [library |-> <<Lib>>, withStandard |-> "8.3.0", unmerged |-> TRUE],
                     tags |-> BaseTags \cup InitLibTags, ucs |-> BaseUCs, units |-> BaseUnits, others |-> BaseOthers]
               ELSE [hdr |-> [library |-> <<>>, withStandard |-> "", unmerged |-> FALSE],
                     tags |-> StdTags, ucs |-> BaseUCs, units |-> BaseUnits, others |-> BaseOthers]

DoAddNode == \E n \in NewNames : \E p \in {""} \cup Names(s.tags) : AddNode(n, p)
DoAddRooted == \E n \in NewNames : \E t \in Names(s.tags) : AddRooted(n, t)
DoRemoveLeaf == \E e \in s.tags : RemoveLeaf(e)
DoSetAttr == \E e \in s.tags : \E o \in AttrOpts : SetAttr(e, o)
DoSetDesc == \/ \E e \in s.tags : \E k \in DescKinds : SetDescTag(e, k)
             \/ \E u \in s.ucs : \E k \in DescKinds : SetDescUC(u, k)
             \/ \E x \in s.units : \E k \in DescKinds : SetDescUnit(x, k)
             \/ \E x \in s.others : \E k \in DescKinds : SetDescOther(x, k)
DoAddValueChild == \E e \in s.tags : \E o \in ValueOpts : AddValueChild(e, o)
DoAddUnit == \E u \in s.ucs : \E n \in UnitNames, o \in UnitOpts : AddUnit(u, n, o)
Next == DoAddNode \/ DoAddRooted \/ DoRemoveLeaf \/ DoSetAttr \/ DoSetDesc \/ DoAddValueChild
        \/ DoAddUnit \/ AddUnitClass \/ AddEmptyUnitClass \/ AddValueClass \/ Merge
Spec == Init /\ [][Next]_vars
View == <<s, Len(edits)>>

\* =========================== PROPERTIES ===========================
SameSch(x, y) == /\ x.hdr.library = y.hdr.library /\ x.hdr.withStandard = y.hdr.withStandard    \* HedSchema.__eq__ ignores `unmerged`
                 /\ x.tags = y.tags /\ x.ucs = y.ucs /\ x.units = y.units /\ x.others = y.others
Reload(sc, m, f) == Loaded(Written(sc, m, f))
Reloads(sc) == LET FS == Files(sc) IN [x \in DOMAIN FS |-> Loaded(FS[x])]
RoundTripL(sc, m, L) == L.ok /\ ~L.dup /\ SameSch(L.sch, sc) /\ L.sch.hdr.unmerged = ~EffMerged(sc, m)
RoundTripOK(sc, m, f) == RoundTripL(sc, m, Reload(sc, m, f))

WellFormed == /\ \A e \in s.tags : e.parent = "" \/ e.parent \in Names(s.tags)
              /\ Cardinality(Names(s.tags)) = Cardinality(s.tags)
              /\ \A e \in s.tags : Partnered(s) /\ InLib(e) /\ e.parent # "" /\ ~InLib(ByName(s.tags, e.parent)) => HasA(e, "rooted")
              /\ \A x \in s.units : x.uclass \in Names(s.ucs)
              /\ \A e \in s.tags : e.val => Kids(s.tags, e.parent) = {e}
              /\ \A e \in s.tags : \A p \in e.attrs : p[1] = "valueClass" => p[2] \in Names(s.others)
RoundTrip == CanSave(s) => LET R == Reloads(s) IN \A x \in DOMAIN R : RoundTripL(s, x[1], R[x])
FormatsAgree == CanSave(s) => LET R == Reloads(s) IN \A x \in DOMAIN R : R[x] = R[<<x[1], "xml">>]
\* the writer's pass over the entries (with its set of written nodes) lists exactly what the order-free definition says
XmlDeclarative == CanSave(s) => LET FS == Files(s) IN \A m \in MergedOpts(s) :
                     {[name |-> r.name, val |-> r.val, parent |-> r.xmlParent, attrs |-> r.attrs, desc |-> r.desc] :
                         r \in Range(FS[<<m, "xml">>].tags)} = XmlSet(s, m)
\* a save either produces a file or is refused; a schema merged from several libraries is refused
Save(sc, m, f) == IF CanSave(sc) THEN [refused |-> FALSE, file |-> Written(sc, m, f)] ELSE [refused |-> TRUE, file |-> <<>>]
MultiMergeRefuses == Len(s.hdr.library) > 1 => \A m \in BOOLEAN : \A f \in Formats : Save(s, m, f).refused
\* the saved unmerged file never mentions the partner's entries, the merged one mentions all of them
WriterSelects == CanSave(s) /\ Partnered(s) =>
                    LET FS == Files(s) IN
                    /\ {r.name : r \in Range(FS[<<FALSE, "xml">>].tags)} = Names({e \in s.tags : InLib(e)})
                    /\ {r.name : r \in Range(FS[<<TRUE, "xml">>].tags)} = Names(s.tags)
                    /\ \A r \in Range(FS[<<FALSE, "xml">>].tags) : ~HasA(r, "inLibrary")
=============================================================================
