------------------------------ MODULE Assemble ------------------------------
(* Assembly of an events-file row from its sidecar (property C06).

   One HOST column (categorical with one key, or a value column) carries a template: a tree of tag
   tokens t1, t2, groups g and references rA, rB to other columns ({A}, {B} in curly braces; A may
   be the events file's own HED column).  Column A is categorical, value or the HED column; column B a
   value column; column C an unreferenced categorical column.  For a row (cells of host, A, B, C):
     - a column whose cell is n/a / empty / an unknown category contributes nothing;
     - a referenced column is spliced in place of its reference and is NOT listed separately;
     - a reference whose column contributes nothing disappears, and so does every group that only
       held it (the result stays delimiter-well-formed);
     - unreferenced columns (C, and B when the template does not mention it) are listed at top level.
   Expected(row) = the set of template nodes that survive + the top-level extras.
*)
EXTENDS Integers, Sequences, FiniteSets, TLC
CONSTANTS MaxN
TKinds == {"t1", "t2", "g", "rA", "rB"}
AKinds == {"cat", "val", "hed"}
HostKinds == {"cat", "val"}
VARIABLES n, par, kind, akind, hkind,
          h2      \* a second host column (categorical) whose entry is "(<ref>, t3)": "none" (no such column), "A", "B" or "plain" (no reference)
vars == <<n, par, kind, akind, hkind, h2>>
IsG(k) == kind[k] = "g"
Init == n = 0 /\ par = <<>> /\ kind = <<>> /\ akind \in AKinds /\ hkind \in HostKinds /\ h2 \in {"none", "A", "B", "plain"}
Count(kd) == Cardinality({k \in 1..n : kind[k] = kd})
Add(p, kd) == /\ n < MaxN
              /\ (IF p = 0 THEN TRUE ELSE kind[p] = "g")
              /\ (kd = "rA" => Count(kd) <= 1)                    \* column A may be referenced twice in one template,
              /\ (kd = "rB" => Count(kd) = 0)                     \* column B at most once
              /\ n' = n + 1 /\ par' = Append(par, p) /\ kind' = Append(kind, kd)
              /\ UNCHANGED <<akind, hkind, h2>>
Next == \E p \in 0..n, kd \in TKinds : Add(p, kd)
Spec == Init /\ [][Next]_vars

\* ---------- what a row assembles to ----------
ACells == IF akind = "cat" THEN {"ok", "na", "unk"} ELSE IF akind = "val" THEN {"ok", "na"} ELSE {"ok", "na", "empty"}
BCells == {"ok", "na"}
CCells == {"ok", "na"}
HCells == {"ok", "na"}
H2Cells == IF h2 = "none" THEN {"na"} ELSE {"ok", "na"}
Rows == [h : HCells, a : ACells, b : BCells, c : CCells, g : H2Cells]
Gives(cell) == cell = "ok"
RECURSIVE Alive(_, _)
\* node k survives in row r
Alive(k, r) == IF kind[k] = "rA" THEN Gives(r.a)
               ELSE IF kind[k] = "rB" THEN Gives(r.b)
               ELSE IF IsG(k) THEN \E j \in 1..n : par[j] = k /\ Alive(j, r)
               ELSE TRUE
\* (an ancestor group survives whenever one of its descendants does)
Survivors(r) == IF Gives(r.h) THEN {k \in 1..n : Alive(k, r)} ELSE {}
\* a column is referenced when ANY template of the sidecar mentions it
RefA == Count("rA") > 0 \/ h2 = "A"
RefB == Count("rB") > 0 \/ h2 = "B"
\* contribution of the second host: "(X, t3)" with X spliced, "(t3)" when X contributes nothing
H2Part(r) == IF ~Gives(r.g) THEN "none"
             ELSE IF h2 = "A" /\ Gives(r.a) THEN "withA"
             ELSE IF h2 = "B" /\ Gives(r.b) THEN "withB" ELSE "bare"
Extras(r) == (IF ~RefB /\ Gives(r.b) THEN {"B"} ELSE {})
             \cup (IF Gives(r.c) THEN {"C"} ELSE {})
             \cup (IF ~RefA /\ Gives(r.a) THEN {"A"} ELSE {})
Expected == [r \in Rows |-> [alive |-> Survivors(r), extras |-> Extras(r)]]

\* ---------- model properties ----------
\* the result is delimiter-well-formed: no surviving group without a surviving member
NoEmptyGroup == \A r \in Rows : \A g \in Survivors(r) : IsG(g) => \E j \in Survivors(r) : par[j] = g
\* a surviving node's parent survives (the printed result is a tree)
ParentsSurvive == \A r \in Rows : \A k \in Survivors(r) : par[k] = 0 \/ par[k] \in Survivors(r)
\* a referenced column is never listed separately
NotListedTwice == \A r \in Rows : (RefA => "A" \notin Extras(r)) /\ (RefB => "B" \notin Extras(r))
\* rows differing only in a cell the template does not use assemble the same template part
=============================================================================
