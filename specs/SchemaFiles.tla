----------------------------- MODULE SchemaFiles -----------------------------
(* The file-system side of saving schemas (property C05): what a location holds after a HISTORY of saves,
   and what loading that location then returns.  SchemaStore.tla decides one save into a fresh place; this
   module decides the sequence  save ; save ; ... ; load  on places that are used again.

   A location is a base name.  XML and MediaWiki saves write the single file <base>.<ext>
   (HedSchema.save_as_xml / save_as_mediawiki: open(..., "w")).  A TSV save writes one table file per
   suffix, <base>/<base>_<Suffix>.tsv for a folder-style base and <dir>/<name>_<Suffix>.tsv for a base
   ending in .tsv (df_util.save_dataframes); the loader (df_util.load_dataframes) starts from blank tables
   and replaces each one whose file can be read - a table file that is NOT there is read as a blank table.
   So the writer has to write every table, blank or not, or a re-used location keeps tables of an
   earlier save.

   Variants are what gets saved: a schema in one save mode (a partnered library saved merged or unmerged,
   a standard schema).  rows[v] is the set of tables that have rows for that variant (an unmerged library
   has no unit / unit class / ... rows: those belong to the partner).

   REQUIRED:  LoadSeesLastSave, OtherPlacesUntouched.
   Switch SKIP_EMPTY = TRUE: the TSV writer does not write blank tables (sensitivity; must violate).
*)
EXTENDS Integers, Sequences, FiniteSets, TLC

CONSTANTS Variants,    \* names of the saved variants
          Rows,        \* [Variants -> SUBSET Tables]: the tables that have rows
          Locs, Fmts, MaxSaves, SKIP_EMPTY

Tables == {"Structure", "Tag", "Unit", "UnitClass", "UnitModifier", "ValueClass",
           "AnnotationProperty", "DataProperty", "ObjectProperty", "AttributeProperty"}
Single == {"xml", "mediawiki"}
Slots == Tables \cup Single           \* the files a location can hold
ABSENT == "absent"
BLANK == "blank"                      \* a table file holding the header line only

VARIABLES disk,   \* [Locs -> [Slots -> ABSENT | BLANK | variant whose rows the file holds]]
          last,   \* [Locs -> [Fmts -> variant saved last, or ABSENT]]
          hist    \* the saves so far: <<loc, fmt, variant>>
vars == <<disk, last, hist>>

Init == /\ disk = [l \in Locs |-> [x \in Slots |-> ABSENT]]
        /\ last = [l \in Locs |-> [f \in Fmts |-> ABSENT]]
        /\ hist = <<>>

\* Schema2DF.process_schema gives ALL ten tables; df_util.save_dataframes writes each of them
TsvFile(l, v, t) == IF t \in Rows[v] THEN v
                    ELSE IF SKIP_EMPTY /\ t # "Structure" THEN disk[l][t]        \* not written: what was there stays
                    ELSE BLANK
Save(l, f, v) ==
   /\ Len(hist) < MaxSaves
   /\ disk' = [disk EXCEPT ![l] = [x \in Slots |-> IF f = "tsv" /\ x \in Tables THEN TsvFile(l, v, x)
                                                   ELSE IF f = x THEN v ELSE disk[l][x]]]
   /\ last' = [last EXCEPT ![l][f] = v]
   /\ hist' = Append(hist, <<l, f, v>>)
Next == \E l \in Locs, f \in Fmts, v \in Variants : Save(l, f, v)
Spec == Init /\ [][Next]_vars

\* what a load returns: per table, whose rows it holds (BLANK: none)
LoadTsv(l) == [t \in Tables |-> IF disk[l][t] = ABSENT THEN BLANK ELSE disk[l][t]]
Expect(v) == [t \in Tables |-> IF t \in Rows[v] THEN v ELSE BLANK]
Loadable(l, f) == IF f = "tsv" THEN disk[l]["Structure"] # ABSENT ELSE disk[l][f] # ABSENT

LoadSeesLastSave == \A l \in Locs, f \in Fmts : last[l][f] # ABSENT =>
                        /\ Loadable(l, f)
                        /\ IF f = "tsv" THEN LoadTsv(l) = Expect(last[l][f]) ELSE disk[l][f] = last[l][f]
\* a save changes nothing but the files of its own location and format
OtherPlacesUntouched == [][\A l \in Locs : \A x \in Slots :
                              disk'[l][x] # disk[l][x] => /\ hist' # hist /\ hist'[Len(hist')][1] = l
                                                          /\ (x \in Single => hist'[Len(hist')][2] = x)
                                                          /\ (x \in Tables => hist'[Len(hist')][2] = "tsv")]_vars
TypeOK == /\ \A l \in Locs, x \in Slots : disk[l][x] \in Variants \cup {ABSENT, BLANK}
          /\ Len(hist) <= MaxSaves
=============================================================================
