CONSTANTS
  Rules <- RulesDef
SPECIFICATION FSpec
INVARIANT Covered
INVARIANT DomainsClean
INVARIANT RangesDeclared
INVARIANT AllowedCharsKnown
