\* design run, optional (C02_DESIGN_N=8): every text up to length 8, 28.6M states
CONSTANTS
  N = 8
  Bug = "none"
SPECIFICATION Spec
INVARIANT Tiling
INVARIANT TokenClasses
INVARIANT AlgoMatchesDecl
INVARIANT RejectIffUnbalanced
INVARIANT UnbalancedEmpty
INVARIANT TreeMatchesDecl
INVARIANT FlatMatchesDecl
INVARIANT TagSlices
INVARIANT GroupSpans
INVARIANT RoundTrip
INVARIANT PrintStable
CHECK_DEADLOCK TRUE
