\* sensitivity: reader without excluded directories -> ExcludedIgnored must be violated
CONSTANTS
  Shapes <- Tiny
  MaxSC = 2
  Cols <- ColsDef
  Excluded <- NoExcluded
  DecoyKinds <- DecoyKindsDef
  DecoyRule <- TwoDecoy
  ENFORCE_BIDS = TRUE
  DEEPER_WINS = TRUE
SPECIFICATION Spec
INVARIANT ExcludedIgnored
