---- MODULE MC_Temporal ----
EXTENDS Temporal, Json
KeysDef == {"a", "b/1", "b/2"}
\* history emission for the replay harness (every reachable state = one history)
Emit == PrintT("@@EMIT@@" \o ToJson([hist |-> hist, errs |-> errs, open |-> open]))
====
