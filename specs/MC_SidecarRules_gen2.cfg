CONSTANTS
  Keys <- KeysFull
  GScalars <- ScalarsSmall
  MaxDepth = 1
  MaxNodes = 1
  Bases <- BasesFull
  MaxFaults = 2
  RefNames <- RefNamesDef
  DropRule = ""
  Mode = "faults"
SPECIFICATION Spec
VIEW DocView
INVARIANT Emit
