\* case generation (thorough): texts up to length 8, one JSON line each
CONSTANTS
  N = 8
  Bug = "none"
SPECIFICATION GenSpec
INVARIANT Emit
