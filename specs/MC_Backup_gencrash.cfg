\* crash-prefix generation: every crash point of a creation, fresh-process reopen, one more creation attempt
CONSTANTS
  Trees <- TreesPick3
  Chunks = 2
  LockChunks = 2
  TaskArgs <- TaskArgsSmall
  OpsIds <- Ops1
  MaxCrash = 1
  MaxCreate = 2
  MaxHist = 0
  MaxHistUnlisted = 0
  RECORD_FIRST = FALSE
  OVERWRITE = FALSE
  READ_LIVE = FALSE
SPECIFICATION Spec
INVARIANT EmitCrash
INVARIANT NeverHalfValid
INVARIANT NoOverwrite
