CONSTANTS
  TermsOf <- AbsTerms
  ShortOf <- AbsShort
  Variant = "ok"
  Labels <- L5
  MaxNodes = 4
  MaxDepth = 4
  Alphabet <- AlphaCore
  MaxToks = 1
  Gen <- GenQ
SPECIFICATION SpecTrees
INVARIANT EmitTree
