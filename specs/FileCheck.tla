------------------------------ MODULE FileCheck ------------------------------
(* File-level validation of an events / spreadsheet table (property C07).

   A table has a HED column (free annotation text) and a categorical column mapped by the sidecar, and
   optionally an onset column.  Cells are abstract:
     HED column:  a, b (two valid tags)  bad (a cell that fails a per-tag rule)  na
                  off (an Offset marker)  dly (a valid Delay group)  on (an Onset marker of the same definition)
                  doff (an Offset marker shifted by Delay: it takes effect DelayTicks after its row's onset)
     cat column:  a, b, bad (categories whose sidecar entry is tag a / tag b / a failing tag)  na
                  unk (a key the sidecar does not list)
   Issues(t) is the multiset of <<code, file row, column>> the file validator must report; file rows are
   1-based with the header counted.  Per-cell errors are labelled with row and column; a row whose cells
   are error-free gets the errors of its assembled annotation (row label, no column): a tag repeated
   across the two columns, an unmatched Offset.  Rows with a failing cell report (at least) the cell errors.
*)
EXTENDS Integers, Sequences, FiniteSets, TLC
CONSTANTS MaxRows
HCells == {"a", "b", "bad", "na", "off", "dly", "on", "doff", "ona", "offa", "onoff"}
   \* on: Onset of the definition; doff: its Offset shifted by Delay; ona / offa: the marker AND tag a in one cell - with category a
   \* the assembled row repeats the tag (a row-level error in a row whose cells are each fine) and the marker still takes effect
\* onoff: an Onset and an Offset of the SAME definition in one cell - the second marker is refused (the name was already used at
   \* this time) and, being refused, does not take effect: the scope is open afterwards
OnCells == {"on", "ona", "onoff"}
OffCells == {"off", "doff", "offa"}
CCells == {"a", "b", "bad", "na", "unk"}
VARIABLES rows,      \* Seq([onset, h, c])   onset: 0 = n/a, otherwise a distinct positive time
          hasOnset   \* the file has an onset column at all
vars == <<rows, hasOnset>>
Init == rows = <<>> /\ hasOnset \in BOOLEAN
AddRow(o, h, c) == /\ Len(rows) < MaxRows
                   /\ (o = 0 \/ \A i \in 1..Len(rows) : rows[i].onset # o)          \* distinct onsets
                   /\ (~hasOnset => o = Len(rows) + 1)
                   /\ rows' = Append(rows, [onset |-> o, h |-> h, c |-> c])
                   /\ UNCHANGED hasOnset
Next == \E o \in 0..MaxRows, h \in HCells, c \in CCells : AddRow(o, h, c)
Spec == Init /\ [][Next]_vars

\* ---------- the verdict ----------
FileRow(i) == i + 1                                      \* header counted
CellErr(t, i) == (IF t[i].h = "bad" THEN {<<"TAG_INVALID", FileRow(i), "HED">>} ELSE {})
                 \cup (IF t[i].c = "bad" THEN {<<"TAG_INVALID", FileRow(i), "cat">>} ELSE {})
Clean(t, i) == CellErr(t, i) = {}
\* a row has a time iff the file has an onset column and the row's onset is numeric
Timed(t, i) == hasOnset /\ t[i].onset # 0
\* effective time of the marker of row i, in ticks: onsets are multiples of 10, a delayed marker lands 15 ticks later
EffTime(t, i) == t[i].onset * 10 + (IF t[i].h = "doff" THEN 15 ELSE 0)
\* rows whose temporal marker takes part in the time line: timed and free of cell errors
InLine(t, i) == Timed(t, i) /\ Clean(t, i)
OnsetTimes(t) == {EffTime(t, i) : i \in {j \in 1..Len(t) : InLine(t, j) /\ t[j].h \in OnCells}}
OffsetTimes(t) == {EffTime(t, i) : i \in {j \in 1..Len(t) : InLine(t, j) /\ t[j].h \in OffCells}}
\* the scope is open just before time x: some Onset earlier with no Offset in between
Open(t, x) == \E s \in OnsetTimes(t) : s < x /\ ~\E u \in OffsetTimes(t) : s < u /\ u < x
RowErr(t, i) == IF ~Clean(t, i) THEN {}
                ELSE (IF (t[i].h \in {"a", "b"} /\ t[i].c = t[i].h) \/ (t[i].h \in {"ona", "offa"} /\ t[i].c = "a") THEN {<<"TAG_EXPRESSION_REPEATED", FileRow(i), "">>} ELSE {})
                     \* an Offset is unmatched exactly when no Onset is open at its effective time
                     \cup (IF t[i].h \in OffCells /\ Timed(t, i) /\ ~Open(t, EffTime(t, i))
                           THEN {<<"TEMPORAL_TAG_ERROR", FileRow(i), "">>} ELSE {})
                     \cup (IF t[i].h = "onoff" /\ Timed(t, i) THEN {<<"TEMPORAL_TAG_ERROR", FileRow(i), "">>} ELSE {})
                     \* temporal tags need a time
                     \cup (IF t[i].h \in OffCells \cup OnCells \cup {"dly"} /\ ~Timed(t, i) THEN {<<"TEMPORAL_TAG_ERROR", FileRow(i), "">>} ELSE {})
Structure(t, i) == IF t[i].c = "unk" THEN {<<"SIDECAR_KEY_MISSING", FileRow(i), "cat">>} ELSE {}
Errors(t) == UNION {CellErr(t, i) \cup RowErr(t, i) : i \in 1..Len(t)}
Warnings(t) == UNION {Structure(t, i) : i \in 1..Len(t)}
\* out-of-order warning: numeric onsets not increasing (tables holding an n/a onset are left open)
Numeric(t) == \A i \in 1..Len(t) : t[i].onset # 0
Unordered(t) == \E i, j \in 1..Len(t) : i < j /\ t[i].onset > t[j].onset

\* ---------- model properties ----------
Perm(t, s) == [i \in 1..Len(t) |-> t[s[i]]]
Relabel(S, s, n) == {<<x[1], FileRow(CHOOSE i \in 1..n : s[i] = x[2] - 1), x[3]>> : x \in S}
\* C07 shuffle law: the issues of a permuted table are those of the original with labels following the rows
ShuffleLaw == \A s \in Permutations(1..Len(rows)) :
                 Errors(Perm(rows, s)) = Relabel(Errors(rows), s, Len(rows))
                 /\ Warnings(Perm(rows, s)) = Relabel(Warnings(rows), s, Len(rows))
\* every label is a real file row and names the column of the offending cell
LabelsTrue == \A x \in Errors(rows) \cup Warnings(rows) :
                 /\ x[2] \in 2..(Len(rows) + 1)
                 /\ (x[3] = "HED" => rows[x[2] - 1].h = "bad")
                 /\ (x[3] = "cat" => rows[x[2] - 1].c \in {"bad", "unk"})
=============================================================================
