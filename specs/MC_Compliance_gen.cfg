CONSTANTS
  Rules <- RulesDef
SPECIFICATION GSpec
INVARIANT Emit
