CONSTANTS
  MaxIssues = 4
  REDECORATE = FALSE
  WARNINGS = TRUE
SPECIFICATION Spec
INVARIANT SuffixOnce
INVARIANT FilterOnlyErrors
INVARIANT PhaseGate
