CONSTANTS
  MaxIssues = 4
  REDECORATE = TRUE
  WARNINGS = TRUE
SPECIFICATION Spec
INVARIANT SuffixOnce
INVARIANT FilterOnlyErrors
INVARIANT PhaseGate
