CONSTANTS
  L = 3
  Keys <- KeysDef
SPECIFICATION Spec
INVARIANT Emit
