CONSTANTS
  MaxN = 1
  Names = {}
  Words = {}
SPECIFICATION TSpec
INVARIANT Done
