CONSTANTS
  L = 5
  Keys <- KeysDef
SPECIFICATION Spec
INVARIANT TypeOK
INVARIANT UnmatchedIff
INVARIANT OpenIsDecl
INVARIANT OnsetNeverUnmatched
INVARIANT DupOncePerExtraUse
PROPERTY InsetKeepsOpen
