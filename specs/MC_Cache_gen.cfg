\* schedule generation (simulate): hist in the state, one JSON line per finished behaviour
CONSTANTS
  Procs <- ProcsDef
  Role <- RoleMixed
  Files <- FilesDef
  Want = "v"
  Chunks = 2
  LOCK = TRUE
  ATOMIC = TRUE
  FALLBACK = TRUE
  MaxCrash = 2
SPECIFICATION Spec
INVARIANT EmitDone
INVARIANT NoFailedLoad
INVARIANT MutualExclusion
