---- MODULE MC_HedRewrite ----
EXTENDS HedRewrite
KindsDef == {"p1", "p2", "v", "bad", "def", "on", "off", "dur", "del", "uq"}
SFlawsDef == {"none"}
BasesEmpty == {[par |-> <<>>, kind |-> <<>>]}
====
