CONSTANTS
  TermsOf <- TraceTerms
  ShortOf <- TraceShort
  Variant = "ok"
  Labels <- L3
  MaxNodes = 1
  MaxDepth = 4
  Alphabet <- AlphaCore
  MaxToks = 1
  Gen <- Atoms
SPECIFICATION TraceSpec
INVARIANT Report
