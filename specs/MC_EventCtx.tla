---- MODULE MC_EventCtx ----
EXTENDS EventCtx, Json
KeysDef == {"a", "b"}
GapsDef == {1000, 2000}
DursDef == {0, 1000, 1500, 3000}       \* (0: a process of no extent - started and ended at its own time point)
Expected == [j \in 1..NT |-> [started |-> Started(j), context |-> Context(j), active |-> Active(j), time |-> times[j]]]
Emit == PrintT("@@EMIT@@" \o ToJson([times |-> times, acts |-> acts, procs |-> procs, expected |-> Expected, endidx |-> [p \in 1..Len(procs) |-> EndIdx(p)]]))
====
