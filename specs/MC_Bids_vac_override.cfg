\* vacuity guard: must be violated
CONSTANTS
  Shapes <- Tiny
  MaxSC = 2
  Cols <- ColsDef
  Excluded <- ExcludedDef
  DecoyKinds <- DecoyKindsDef
  DecoyRule <- NoDecoy
  ENFORCE_BIDS = TRUE
  DEEPER_WINS = TRUE
SPECIFICATION Spec
INVARIANT NeverOverrides
