\* design run, thorough tier: every text up to length 8
CONSTANTS
  N = 8
  Bug = "none"
SPECIFICATION Spec
INVARIANT Tiling
INVARIANT TokenClasses
INVARIANT AlgoMatchesDecl
INVARIANT RejectIffUnbalanced
INVARIANT UnbalancedEmpty
INVARIANT TreeMatchesDecl
INVARIANT FlatMatchesDecl
INVARIANT TagSlices
INVARIANT GroupSpans
INVARIANT RoundTrip
INVARIANT PrintStable
CHECK_DEADLOCK TRUE
