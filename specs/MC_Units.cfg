CONSTANTS
  MU <- MUDef
  MM <- MMDef
  Queries <- QueriesDef
SPECIFICATION Spec
INVARIANT LookupFunctional
INVARIANT SymbolsExact
