------------------------------- MODULE Defs -------------------------------
(* Definitions: acceptance, expansion / shrinking as an object state machine, and
   Def-expand content comparison (property C09).

   Part 1 (object machine).  An annotation object holds occurrences of definition uses.
   Each occurrence is either in Def form (a tag) or in Def-expand form (a group holding the
   tag and the definition's content).  The real object additionally caches, per tag, what it
   expands to (`cached`) and whether it is currently expanded (`flag`), and tree surgery wraps
   or unwraps the tag (`nest` = how many expansion groups currently surround it).
   MAINTAIN selects whether expand/shrink keep `flag` up to date (the repaired code) or leave it
   as first computed (the code as found: a second expand wraps again => cyclic tree).

   Part 2 (acceptance).  Shapes of definition strings and the rule that admits them.
   Part 3 (Def-expand validation).  Variants of a Def-expand group's content and the rule
   "equal to the expansion up to sibling order".
*)
EXTENDS Integers, Sequences, FiniteSets, TLC

CONSTANTS MaxObjs,    \* number of object slots (1 original + copies)
          MaxOps,     \* length bound for operation sequences
          Templates,  \* set of initial occurrence-form sequences, e.g. {<<"D">>, <<"E">>, <<"D","E">>}
          MAINTAIN

VARIABLES objs,   \* [1..MaxObjs -> Seq(occurrence) or <<>> with live flag]
          live,   \* set of live object ids
          ops     \* history of operations (observation)
vars == <<objs, live, ops>>

Occ(form) == [form |-> form, origin |-> form, cached |-> FALSE, flag |-> FALSE,
              nest |-> IF form = "E" THEN 1 ELSE 0]

Init == /\ \E t \in Templates : objs = [i \in 1..MaxObjs |-> IF i = 1 THEN [k \in 1..Len(t) |-> Occ(t[k])] ELSE <<>>]
        /\ live = {1} /\ ops = <<>>

\* first access to `expandable`: compute and remember; the expanded flag is set from the CURRENT form
Touch(o) == IF o.cached THEN o ELSE [o EXCEPT !.cached = TRUE, !.flag = (o.form = "E")]

ExpandOcc(o) == LET t == Touch(o) IN
                IF t.flag THEN t
                ELSE [t EXCEPT !.form = "E", !.nest = t.nest + 1, !.flag = IF MAINTAIN THEN TRUE ELSE t.flag]
ShrinkOcc(o) == IF o.form = "E"
                THEN [o EXCEPT !.form = "D", !.nest = o.nest - 1, !.flag = IF MAINTAIN THEN FALSE ELSE o.flag]
                ELSE o

FormsOf(ob) == [k \in 1..Len(ob) |-> ob[k].form]
\* observation: the operation and the forms of every live object after it (LAST conjunct of each action)
Log(op) == ops' = Append(ops, [op |-> op, forms |-> [j \in live' |-> FormsOf(objs'[j])]])
Expand(i) == /\ i \in live /\ Len(ops) < MaxOps
             /\ objs' = [objs EXCEPT ![i] = [k \in 1..Len(objs[i]) |-> ExpandOcc(objs[i][k])]]
             /\ UNCHANGED live /\ Log(<<"expand", i>>)
Shrink(i) == /\ i \in live /\ Len(ops) < MaxOps
             /\ objs' = [objs EXCEPT ![i] = [k \in 1..Len(objs[i]) |-> ShrinkOcc(objs[i][k])]]
             /\ UNCHANGED live /\ Log(<<"shrink", i>>)
Copy(i, n) == /\ i \in live /\ n \notin live /\ n = Cardinality(live) + 1 /\ n <= MaxObjs /\ Len(ops) < MaxOps
              /\ objs' = [objs EXCEPT ![n] = objs[i]]
              /\ live' = live \cup {n} /\ Log(<<"copy", i, n>>)
\* validate / print read the object and must not change it
Validate(i) == /\ i \in live /\ Len(ops) < MaxOps /\ UNCHANGED <<objs, live>> /\ Log(<<"validate", i>>)

Next == \E i \in 1..MaxObjs : Expand(i) \/ Shrink(i) \/ Validate(i) \/ \E n \in 1..MaxObjs : Copy(i, n)
Spec == Init /\ [][Next]_vars

\* ---- properties of the object machine ----
Forms(i) == [k \in 1..Len(objs[i]) |-> objs[i][k].form]
\* the tree stays a tree: a tag in Def form is not wrapped, one in Def-expand form is wrapped exactly once
WellNested == \A i \in live : \A k \in 1..Len(objs[i]) :
                 objs[i][k].nest = (IF objs[i][k].form = "E" THEN 1 ELSE 0)
\* expanding leaves every occurrence expanded, shrinking leaves every occurrence shrunk
ExpandAll == [][\A i \in 1..MaxObjs : Expand(i) => \A k \in 1..Len(objs'[i]) : objs'[i][k].form = "E"]_vars
ShrinkAll == [][\A i \in 1..MaxObjs : Shrink(i) => \A k \in 1..Len(objs'[i]) : objs'[i][k].form = "D"]_vars
\* operations on one object never change another one (copies share nothing)
NoAlias == [][\A i \in 1..MaxObjs : (Expand(i) \/ Shrink(i) \/ Validate(i)) =>
                 \A j \in live \ {i} : objs'[j] = objs[j]]_vars
View == <<objs, live, Len(ops)>>

----------------------------------------------------------------------------
\* Part 2: acceptance of a definition string into a dictionary
NameKinds == {"plain", "slash", "hash"}
NestedKinds == {"none", "Def", "Def-expand", "Definition"}
Shapes == [top : BOOLEAN, nGroups : 0..2, extraTag : BOOLEAN, nameKind : NameKinds, takesValue : BOOLEAN,
           nPH : 0..2, phOnValueTag : BOOLEAN, nested : NestedKinds, dup : BOOLEAN]
\* shapes that can be written down at all
Consistent(s) == /\ (s.nGroups = 0 => s.nPH = 0 /\ s.nested = "none")
                 /\ (s.nPH = 0 => s.phOnValueTag)           \* irrelevant field normalised
                 /\ (s.nPH = 2 => s.phOnValueTag)
Accept(s) == /\ s.top /\ s.nGroups <= 1 /\ ~s.extraTag /\ s.nameKind = "plain" /\ s.nested = "none"
             /\ (s.takesValue <=> s.nPH = 1) /\ (s.takesValue => s.phOnValueTag) /\ ~s.dup
\* a definition that is not a top-level group is simply not a definition for the dictionary: no entry, no report
Silent(s) == ~s.top

----------------------------------------------------------------------------
\* Part 3: Def-expand group whose content is a variant of the expansion (a, b, (c, d))
Muts == {"none", "wrongTag", "extraTag", "missingTag", "wrongValue", "innerWrong"}
Outer == {"a", "b", "G"}
Variants == [outer : {p \in [1..3 -> Outer] : \A x \in Outer : \E i \in 1..3 : p[i] = x},
             inner : {<<"c", "d">>, <<"d", "c">>}, mut : Muts, defFirst : BOOLEAN, hasValue : BOOLEAN,
             \* the sibling b of the value-taking tag a: another tag, or the SAME tag with a fixed value that sorts
             \* before / after the substituted one (the place of a among its siblings then depends on the value)
             sib : {"other", "sameBefore", "sameAfter"}]
VConsistent(v) == /\ v.mut = "wrongValue" => v.hasValue
                  /\ v.sib # "other" => v.hasValue
\* content equals the expansion up to sibling order <=> nothing but order was changed
AcceptExpand(v) == v.mut = "none"

----------------------------------------------------------------------------
\* Part 4: a dictionary is built by adding declarations one after the other - from annotation strings, or from the entries of
\* other dictionaries when dictionaries are merged (DefinitionDict([d1, d2]), add_definitions, HedValidator(def_dicts=[...])).
\* Names are compared case-insensitively (here: names are already folded).  "A duplicate name is reported and ignored":
\* the FIRST declaration of a name wins, whatever way the later one arrives.
DNames == {"na", "nb"}
DContents == {"c1", "c2"}
Decl == [name : DNames, content : DContents]
Sources == UNION {[1..k -> Decl] : k \in 0..2}             \* a source: up to two declarations, in order
RECURSIVE AddAll(_, _)
AddAll(d, src) == IF src = <<>> THEN d
                  ELSE LET x == Head(src) IN
                       AddAll(IF \E e \in d.entries : e.name = x.name
                              THEN [d EXCEPT !.dups = @ + 1]
                              ELSE [d EXCEPT !.entries = @ \cup {x}], Tail(src))
EmptyDict == [entries |-> {}, dups |-> 0]
\* a source gathered by itself is a dictionary (its own duplicates already dropped), merging adds its ENTRIES in order
Own(src) == AddAll(EmptyDict, src)
RECURSIVE FirstOf(_, _)
FirstOf(src, nm) == IF Head(src).name = nm THEN Head(src) ELSE FirstOf(Tail(src), nm)
EntriesInOrder(src) == LET d == Own(src) IN
                       [k \in 1..Cardinality(d.entries) |->
                          CHOOSE e \in d.entries : Cardinality({f \in d.entries :
                               (CHOOSE i \in 1..Len(src) : src[i] = FirstOf(src, f.name)) <
                               (CHOOSE i \in 1..Len(src) : src[i] = FirstOf(src, e.name))}) = k - 1]
Merged(s1, s2) == AddAll(Own(s1), EntriesInOrder(s2))
MergeCases == {[s1 |-> a, s2 |-> b, entries |-> Merged(a, b).entries, newdups |-> Merged(a, b).dups - Own(a).dups] :
                  a \in Sources, b \in Sources}
\* the first declaration wins
FirstWins == \A a, b \in Sources : \A e \in Own(a).entries : e \in Merged(a, b).entries
=============================================================================
