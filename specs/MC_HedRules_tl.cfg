\* one or two grammar steps from the Delay / Duration constructs, with second tags of the same name and another value
CONSTANTS
  MaxN = 8
  Kinds <- KindsTL
  Bases <- BasesTL
  MaxSteps = 2
  DUP = FALSE
  SFlaws <- SFlawsDef
SPECIFICATION Spec
INVARIANT EmitNear
