\* the pairwise guard of the generator is exactly the BIDS rule (both sides vary: ENFORCE_BIDS = FALSE)
CONSTANTS
  Shapes <- OneShape
  MaxSC = 2
  Cols <- ColsDef
  Excluded <- ExcludedDef
  DecoyKinds <- DecoyKindsDef
  DecoyRule <- NoDecoy
  ENFORCE_BIDS = FALSE
  DEEPER_WINS = TRUE
SPECIFICATION Spec
INVARIANT GuardExact
