------------------------------ MODULE Issues ------------------------------
(* Issue reporting of hed-python (property C12).

   Part 1 - the context / decoration machine of hed.errors.error_reporter.ErrorHandler as it is
   driven by HedValidator.validate: a context stack, issues produced undecorated by the rule
   functions, decoration (add_context_and_filter) copying the stack into the issue and appending the
   location suffix when the string is in context and the issue names a tag, warning filtering.
   REDECORATE = TRUE is the call path as found (the accumulated list is decorated again after the
   second phase); FALSE decorates only the new issues.

   Part 2 - well-formedness of ONE recorded issue and of recorded issue LISTS (errors-only subset,
   sort order, export), evaluated by TLC on runs recorded from the real entry points
   (Trace_Issues.tla).
*)
EXTENDS Integers, Sequences, FiniteSets, TLC

CONSTANTS MaxIssues, REDECORATE, WARNINGS   \* WARNINGS: handler created with check_for_warnings

VARIABLES stack,    \* Seq(context type)
          issues,   \* Seq([sev, tag, suffix, ctx, phase])   the list being returned
          pc        \* where HedValidator.validate is
vars == <<stack, issues, pc>>

Sev == {"error", "warning"}
Init == stack = <<>> /\ issues = <<>> /\ pc = "start"

New(sev, tag, ph) == [sev |-> sev, tag |-> tag, suffix |-> 0, ctx |-> {}, phase |-> ph]
Deco(i) == [i EXCEPT !.ctx = {stack[k] : k \in 1..Len(stack)},
                     !.suffix = IF i.tag /\ (\E k \in 1..Len(stack) : stack[k] = "string") THEN i.suffix + 1 ELSE i.suffix]
Keep(s) == IF WARNINGS THEN s ELSE SelectSeq(s, LAMBDA i : i.sev = "error")

\* the caller may or may not have pushed the string as context
PushString == pc = "start" /\ stack' = Append(stack, "string") /\ pc' = "basic" /\ UNCHANGED issues
NoContext == pc = "start" /\ pc' = "basic" /\ UNCHANGED <<stack, issues>>
\* a rule of the basic phase reports
Basic(sev, tag) == /\ pc = "basic" /\ Len(issues) < MaxIssues
                   /\ issues' = Append(issues, New(sev, tag, 1)) /\ UNCHANGED <<stack, pc>>
Decorate1 == /\ pc = "basic"
             /\ issues' = [k \in 1..Len(Keep(issues)) |-> Deco(Keep(issues)[k])]
             /\ pc' = IF \E k \in 1..Len(issues) : issues[k].sev = "error" THEN "done" ELSE "full"
             /\ UNCHANGED stack
Full(sev, tag) == /\ pc = "full" /\ Len(issues) < MaxIssues
                  /\ issues' = Append(issues, New(sev, tag, 2)) /\ UNCHANGED <<stack, pc>>
Decorate2 == /\ pc = "full"
             /\ issues' = LET kept == Keep(issues) IN
                          [k \in 1..Len(kept) |-> IF REDECORATE \/ kept[k].phase = 2 THEN Deco(kept[k]) ELSE kept[k]]
             /\ pc' = "done" /\ UNCHANGED stack
Next == PushString \/ NoContext \/ Decorate1 \/ Decorate2
        \/ \E s \in Sev, t \in BOOLEAN : Basic(s, t) \/ Full(s, t)
Spec == Init /\ [][Next]_vars

\* the location suffix appears in the message once (and only for issues that name a tag of a string in context)
SuffixOnce == pc = "done" => \A k \in 1..Len(issues) :
                 issues[k].suffix = (IF issues[k].tag /\ "string" \in issues[k].ctx THEN 1 ELSE 0)
\* with warnings off only errors are returned
FilterOnlyErrors == (pc = "done" /\ ~WARNINGS) => \A k \in 1..Len(issues) : issues[k].sev = "error"
\* full-string checks only run when the basic phase is error-free
PhaseGate == \A k \in 1..Len(issues) : issues[k].phase = 2 =>
                 ~\E j \in 1..Len(issues) : issues[j].phase = 1 /\ issues[j].sev = "error"

----------------------------------------------------------------------------
\* Part 2: predicates over recorded issues.  Strings are TLC strings (BMP); spans are python [a, b).
Suffix == "Problem spans string indexes"
\* number of occurrences of pat in s (no recursion: messages are hundreds of characters long)
CountAt(s, pat, from) == Cardinality({i \in from..(Len(s) - Len(pat) + 1) : SubSeq(s, i, i + Len(pat) - 1) = pat})
Occurs(s, pat) == \E i \in 1..(Len(s) - Len(pat) + 1) : SubSeq(s, i, i + Len(pat) - 1) = pat

HasFields(e) == e.hascode /\ e.hasmsg /\ e.hassev
OffsetsInText(e, text) == e.ci >= 0 /\ e.ci <= e.cie /\ e.cie <= Len(text)
\* inside the span of (an occurrence of) the tag it names
InTagSpan(e) == \E k \in 1..Len(e.tspans) : e.tspans[k][1] <= e.ci /\ e.cie <= e.tspans[k][2]
\* the offsets select exactly the fragment quoted in the message
\* ... "quoted": delimited in the message by quote characters or blanks (or the message boundary)
Bound == {"'", "\"", " "}
QuotedOccurs(s, pat) == \E i \in 1..(Len(s) - Len(pat) + 1) :
                           /\ SubSeq(s, i, i + Len(pat) - 1) = pat
                           /\ (i = 1 \/ SubSeq(s, i - 1, i - 1) \in Bound)
                           /\ (i + Len(pat) > Len(s) \/ SubSeq(s, i + Len(pat), i + Len(pat)) \in Bound)
FragmentQuoted(e, text) == e.ci = e.cie \/ QuotedOccurs(e.msg, SubSeq(text, e.ci + 1, e.cie))
\* ... and not MORE than it: where the message puts a proper part of the selected text between quote characters (and not the
\* selected text itself), the offsets cover more than the fragment quoted.  e.quotes = the quote-delimited fragments of the message
\* (split off by the harness).
QuotesSmaller(e, text) == LET frag == SubSeq(text, e.ci + 1, e.cie) IN
                          /\ e.ci < e.cie
                          /\ \A k \in 1..Len(e.quotes) : e.quotes[k] # frag
                          /\ \E k \in 1..Len(e.quotes) : Len(e.quotes[k]) > 0 /\ Len(e.quotes[k]) < Len(frag) /\ Occurs(frag, e.quotes[k])
SuffixCount(e) == CountAt(e.msg, Suffix, 1)
IssueOK(e, text) == /\ HasFields(e)
                    /\ (e.hasoff => OffsetsInText(e, text) /\ InTagSpan(e) /\ FragmentQuoted(e, text) /\ ~QuotesSmaller(e, text)
                                    /\ SuffixCount(e) = 1)
                    /\ (~e.hasoff => SuffixCount(e) = 0)
\* which clause fails (for total verdicts)
Why(e, text) == IF ~HasFields(e) THEN "fields"
                ELSE IF ~e.hasoff THEN (IF SuffixCount(e) # 0 THEN "suffix-without-offsets" ELSE "ok")
                ELSE IF ~OffsetsInText(e, text) THEN "offsets-outside-text"
                ELSE IF ~InTagSpan(e) THEN "offsets-outside-tag"
                ELSE IF ~FragmentQuoted(e, text) THEN "fragment-not-quoted"
                ELSE IF QuotesSmaller(e, text) THEN "offsets-cover-more-than-quoted"
                ELSE IF SuffixCount(e) # 1 THEN "suffix-count" ELSE "ok"

\* list level: signatures are strings, bags compared by counting
Count(seq, x) == Cardinality({k \in 1..Len(seq) : seq[k] = x})
SameBag(a, b) == /\ Len(a) = Len(b)
                 /\ \A k \in 1..Len(a) : Count(a, a[k]) = Count(b, a[k])
\* errors-only run == error-severity subset of the run with warnings
FilterSubset(full, fullsev, errs) == SameBag(SelectSeq([k \in 1..Len(full) |-> <<full[k], fullsev[k]>>], LAMBDA p : p[2] = 1),
                                             [k \in 1..Len(errs) |-> <<errs[k], 1>>])
\* sorted list: keys (file, sidecar column, sidecar key, row, column) given as rank tuples; oi = original position
RECURSIVE LexLE(_, _, _)
LexLE(a, b, i) == IF i > Len(a) THEN TRUE
                  ELSE IF a[i] < b[i] THEN TRUE ELSE IF a[i] > b[i] THEN FALSE ELSE LexLE(a, b, i + 1)
KeyLE(a, b) == LexLE(a, b, 1)
SortedStable(keys, oi) == /\ \A k \in 1..(Len(keys) - 1) : KeyLE(keys[k], keys[k + 1])
                          /\ \A k \in 1..(Len(keys) - 1) : keys[k] = keys[k + 1] => oi[k] < oi[k + 1]
                          /\ {oi[k] : k \in 1..Len(oi)} = 1..Len(oi)
\* descending order (reverse=True): keys never increase; issues with equal keys STILL keep their original relative order
SortedStableDesc(keys, oi) == /\ \A k \in 1..(Len(keys) - 1) : KeyLE(keys[k + 1], keys[k])
                              /\ \A k \in 1..(Len(keys) - 1) : keys[k] = keys[k + 1] => oi[k] < oi[k + 1]
                              /\ {oi[k] : k \in 1..Len(oi)} = 1..Len(oi)
=============================================================================
