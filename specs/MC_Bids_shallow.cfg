\* sensitivity: shallower sidecar wins -> MergedIsTopDown must be violated
CONSTANTS
  Shapes <- Tiny
  MaxSC = 2
  Cols <- ColsDef
  Excluded <- ExcludedDef
  DecoyKinds <- DecoyKindsDef
  DecoyRule <- NoDecoy
  ENFORCE_BIDS = TRUE
  DEEPER_WINS = FALSE
SPECIFICATION Spec
INVARIANT MergedIsTopDown
