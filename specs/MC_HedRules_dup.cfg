CONSTANTS
  MaxN = 9
  Kinds <- KindsDup
  DUP = TRUE
  SFlaws <- SFlawsDef
SPECIFICATION Spec
INVARIANT EmitDup
