CONSTANTS
  MaxN = 9
  Kinds <- KindsDup
  Bases <- BasesEmpty
  MaxSteps = 99
  DUP = TRUE
  SFlaws <- SFlawsDef
SPECIFICATION Spec
INVARIANT EmitDup
