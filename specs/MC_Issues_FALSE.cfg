CONSTANTS
  MaxIssues = 4
  REDECORATE = FALSE
  WARNINGS = FALSE
SPECIFICATION Spec
INVARIANT SuffixOnce
INVARIANT FilterOnlyErrors
INVARIANT PhaseGate
