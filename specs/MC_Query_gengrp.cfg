CONSTANTS
  LabelTerms <- AbsTerms
  Variant = "ok"
  Labels <- L5
  MaxNodes = 4
  MaxDepth = 4
  Alphabet <- AlphaCore
  MaxToks = 1
  USize = 1
SPECIFICATION SpecTrees
INVARIANT EmitGroup
