---- MODULE MC_RemodelSmall ----
(* A small model of Remodel.tla for the coverage (vacuity) run and the sensitivity runs: TLC's coverage mode is
   very slow on the large constant sets of MC_Remodel, so these runs get a module of their own. *)
EXTENDS Remodel
W(o) == o @@ [fault |-> NoFault]
RO == W([op |-> "reorder_columns", column_order |-> <<"b", "a">>, ignore_missing |-> TRUE, keep_others |-> TRUE])
RR == W([op |-> "remove_rows", column_name |-> "a", remove_values |-> <<"y">>])
FC == W([op |-> "factor_column", column_name |-> "b"])
MG == W([op |-> "merge_consecutive", column_name |-> "a", event_code |-> "x", set_durations |-> TRUE, ignore_missing |-> TRUE,
         match_columns |-> <<"b">>])
SP == W([op |-> "split_rows", anchor_column |-> "a", remove_parent_row |-> FALSE,
         new_events |-> << [name |-> "e", onset_source |-> <<"1">>, duration |-> <<"duration">>, copy_columns |-> <<"b">>] >>])
RC == W([op |-> "remove_columns", column_names |-> <<"c", "z">>, ignore_missing |-> FALSE])
BadRC == [RC EXCEPT !.fault = [f |-> "missing", p |-> "ignore_missing"]]
BadFC == W([op |-> "factor_column", column_name |-> "a", factor_names |-> <<"m">>])
SmallOpLists == {<<RO, RR>>, <<FC>>, <<MG, RO>>, <<SP, RO>>, <<RC>>, <<RR, BadRC>>, <<BadFC, RO>>, <<>>}
Row(cs, vs) == [c \in Range(cs) |-> vs[IndexOf(cs, c)]]
L1 == <<"onset", "duration", "a", "b">>
L2 == <<"b", "a", "c">>
T1 == [cols |-> L1, rows |-> <<Row(L1, <<"1", "1", "x", "x">>), Row(L1, <<"2", "n/a", "x", "x">>), Row(L1, <<"4", "2", "y", "n/a">>)>>]
T2 == [cols |-> L2, rows |-> <<Row(L2, <<"x", "x", "1">>), Row(L2, <<"n/a", "y", "x">>)>>]
T3 == [cols |-> <<"a">>, rows |-> <<>>]
SmallTuples == {<<T2, T3, T1>>}
====
