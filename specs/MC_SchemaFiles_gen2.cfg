\* generation: two locations (folder style, .tsv-prefix style) x {tsv, xml} x {library merged, library unmerged}, <= 3 saves
CONSTANTS
  Variants <- Variants2
  Rows <- Rows2
  Locs <- LocsTwo
  Fmts <- FmtsTwo
  MaxSaves = 3
  SKIP_EMPTY = FALSE
SPECIFICATION Spec
INVARIANT LoadSeesLastSave
INVARIANT EmitHist
