---- MODULE HedText ----
(* C02 -- parsing is total and the parse tree mirrors the source text.

   A text is a sequence of one-character strings over the class alphabet
       t  (any tag character)   " " (blank, U+0020)   ","  "("  ")"   "/"
   Part 1 is the DECLARATIVE definition (what the property says): tags are the
   maximal runs of non-delimiter characters trimmed of blanks, groups run from
   "(" to the matching ")", nesting is parenthesis nesting, printing joins the
   children with "," and re-parsing the print gives the same shape.
   Part 2 is the ALGORITHM, transcribed from hed/models/hed_string.py:
   split_hed_string (one action per consumed character, the five registers of the
   loop) followed by split_into_groups (one action per token, the group stack, the
   two ValueError exits).  TLC proves both parts equal for every text up to length N.
   Bug # "none" selects deliberately broken variants (sensitivity runs).
   Spans are Python spans: 0-based start, exclusive end.                          *)
EXTENDS Integers, Sequences, TLC, SequencesExt, FiniteSets
CONSTANTS N, Bug
Alpha == {"t", " ", ",", "(", ")", "/"}
Delims == {",", "(", ")"}
Blank == " "
None == -1
MinOf(S) == CHOOSE x \in S : \A y \in S : x <= y
MaxOf(S) == CHOOSE x \in S : \A y \in S : x >= y

(* ======================= 1. declarative definition ======================= *)
\* maximal runs of non-delimiter characters, 1-based inclusive <<first, last>>
RECURSIVE Runs(_, _, _)
Runs(s, i, start) ==
   IF i > Len(s) THEN (IF start = 0 THEN <<>> ELSE << <<start, Len(s)>> >>)
   ELSE IF s[i] \in Delims THEN (IF start = 0 THEN Runs(s, i+1, 0) ELSE << <<start, i-1>> >> \o Runs(s, i+1, 0))
   ELSE Runs(s, i+1, IF start = 0 THEN i ELSE start)
RECURSIVE TrimL(_, _, _)
TrimL(s, a, b) == IF a > b THEN a ELSE IF s[a] = Blank THEN TrimL(s, a+1, b) ELSE a
RECURSIVE TrimR(_, _, _)
TrimR(s, a, b) == IF b < a THEN b ELSE IF s[b] = Blank THEN TrimR(s, a, b-1) ELSE b
\* one tag per run that is not all blanks; Python span <<a, b>> of the trimmed run
DeclTags(s) == LET rs == Runs(s, 1, 0)
                   ts == [k \in 1..Len(rs) |-> LET a == TrimL(s, rs[k][1], rs[k][2]) IN <<a - 1, TrimR(s, a, rs[k][2])>>]
               IN SelectSeq(ts, LAMBDA r : r[1] < r[2])
\* balanced: the depth never goes negative and ends at 0
RECURSIVE Depth(_, _, _)
Depth(s, i, d) == IF d < 0 THEN -1 ELSE IF i > Len(s) THEN d
                  ELSE Depth(s, i+1, IF s[i] = "(" THEN d+1 ELSE IF s[i] = ")" THEN d-1 ELSE d)
Balanced(s) == Depth(s, 1, 0) = 0
\* depth after the first i characters
Pre(s) == [i \in 0..Len(s) |-> Cardinality({j \in 1..i : s[j] = "("}) - Cardinality({j \in 1..i : s[j] = ")"})]
OpenSet(s) == {p \in 1..Len(s) : s[p] = "("}
\* the matching ")" of the "(" at 1-based position p (s balanced): first return to the depth before p
MatchOf(s, pre, p) == MinOf({j \in (p+1)..Len(s) : pre[j] = pre[p-1]})
\* flat view: tags <<a, b, parent>> in source order, groups <<a, b, parent>> in order of their "(";
\* parent = index of the innermost enclosing group, 0 = the annotation itself.   (only for balanced s)
DeclFlat(s) ==
   LET pre == Pre(s)
       os == OpenSet(s)
       m == [p \in os |-> MatchOf(s, pre, p)]
       oseq == SortSeq(SetToSeq(os), LAMBDA x, y : x < y)
       \* x: 1-based position of the first character of the item
       par(x) == LET E == {p \in os : p < x /\ m[p] > x} IN IF E = {} THEN 0 ELSE Cardinality({q \in os : q <= MaxOf(E)})
       tg == DeclTags(s)
   IN [tags |-> [k \in 1..Len(tg) |-> <<tg[k][1], tg[k][2], par(tg[k][1] + 1)>>],
       groups |-> [k \in 1..Len(oseq) |-> <<oseq[k] - 1, m[oseq[k]], par(oseq[k])>>]]
\* nested view: a node is [k: "t"|"g", a, b, kids]; the tree is the sequence of top-level nodes
RECURSIVE KidsOf(_, _)
KidsOf(F, g) ==
   LET its == {<<"t", q>> : q \in {r \in 1..Len(F.tags) : F.tags[r][3] = g}}
              \cup {<<"g", q>> : q \in {r \in 1..Len(F.groups) : F.groups[r][3] = g}}
       startOf(it) == IF it[1] = "t" THEN F.tags[it[2]][1] ELSE F.groups[it[2]][1]
       srt == SortSeq(SetToSeq(its), LAMBDA x, y : startOf(x) < startOf(y))
   IN [j \in 1..Len(srt) |->
         IF srt[j][1] = "t" THEN [k |-> "t", a |-> F.tags[srt[j][2]][1], b |-> F.tags[srt[j][2]][2], kids |-> <<>>]
         ELSE [k |-> "g", a |-> F.groups[srt[j][2]][1], b |-> F.groups[srt[j][2]][2], kids |-> KidsOf(F, srt[j][2])]]
DeclTree(s) == IF Balanced(s) THEN KidsOf(DeclFlat(s), 0) ELSE <<>>
\* printing: children joined by ",", a group in parentheses, a tag as its source slice
Sep == IF Bug = "printsep" THEN <<>> ELSE <<",">>
RECURSIVE PrintKids(_, _)
PrintKids(s, ks) ==
   IF ks = <<>> THEN <<>>
   ELSE (IF ks[1].k = "t" THEN SubSeq(s, ks[1].a + 1, ks[1].b) ELSE <<"(">> \o PrintKids(s, ks[1].kids) \o <<")">>)
        \o (IF Len(ks) = 1 THEN <<>> ELSE Sep \o PrintKids(s, Tail(ks)))
\* the same as a template: delimiters as characters, a tag as its span <<a, b>>  (rendered by the replay driver)
RECURSIVE PrintTpl(_)
PrintTpl(ks) ==
   IF ks = <<>> THEN <<>>
   ELSE (IF ks[1].k = "t" THEN << <<ks[1].a, ks[1].b>> >> ELSE <<"(">> \o PrintTpl(ks[1].kids) \o <<")">>)
        \o (IF Len(ks) = 1 THEN <<>> ELSE <<",">> \o PrintTpl(Tail(ks)))
\* the shape of a tree: tag texts and nesting, no positions
RECURSIVE ShapeKids(_, _)
ShapeKids(s, ks) == [j \in 1..Len(ks) |-> IF ks[j].k = "t" THEN <<"t", SubSeq(s, ks[j].a + 1, ks[j].b)>>
                                                   ELSE <<"g", ShapeKids(s, ks[j].kids)>>]
\* flat view of a nested tree (pre-order: groups numbered when opened)
RECURSIVE FlatKids(_, _, _)
FlatKids(ks, parent, acc) ==
   IF ks = <<>> THEN acc
   ELSE IF ks[1].k = "t"
        THEN FlatKids(Tail(ks), parent, [acc EXCEPT !.tags = Append(@, <<ks[1].a, ks[1].b, parent>>)])
        ELSE LET me == Len(acc.groups) + 1
                 a1 == [acc EXCEPT !.groups = Append(@, <<ks[1].a, ks[1].b, parent>>)]
             IN FlatKids(Tail(ks), parent, FlatKids(ks[1].kids, me, a1))
Flatten(ks) == FlatKids(ks, 0, [tags |-> <<>>, groups |-> <<>>])

(* ======================= 2. the algorithm ======================= *)
VARIABLES src,       \* the text
          phase,     \* "scan" (split_hed_string), "group" (split_into_groups), "done"
          i, spacing, found, tagStart, lastEnd,   \* registers of split_hed_string (i = Python index of the next char)
          out,       \* result_positions: <<isTag, a, b>>
          tk,        \* index of the next token consumed by split_into_groups
          stack,     \* current_tag_group: frames [start, kids]; stack[1] is the top level
          tree,      \* children of the finished annotation
          rejected   \* ValueError raised by split_into_groups (caught by __init__ -> empty contents)
vars == <<src, phase, i, spacing, found, tagStart, lastEnd, out, tk, stack, tree, rejected>>
InitRegs == /\ phase = "scan" /\ i = 0 /\ spacing = 0 /\ found = TRUE /\ tagStart = None /\ lastEnd = 0
            /\ out = <<>> /\ tk = 0 /\ stack = <<>> /\ tree = <<>> /\ rejected = FALSE
Init == (\E n \in 0..N : src \in [1..n -> Alpha]) /\ InitRegs
Tok(isTag, a, b) == <<isTag, a, b>>
GrpVars == <<tk, stack, tree, rejected>>
ScanGuard == phase = "scan" /\ i < Len(src)
Cur == src[i+1]
ScanBlank == /\ ScanGuard /\ Cur = Blank
             /\ spacing' = spacing + 1 /\ i' = i + 1
             /\ UNCHANGED <<src, phase, found, tagStart, lastEnd, out, GrpVars>>
ScanDelimAfterDelim == /\ ScanGuard /\ Cur \in Delims /\ found
                       /\ out' = (IF lastEnd # i THEN Append(out, Tok(FALSE, lastEnd, i)) ELSE out)
                       /\ lastEnd' = i /\ i' = i + 1
                       /\ UNCHANGED <<src, phase, spacing, found, tagStart, GrpVars>>
ScanDelimAfterTag == /\ ScanGuard /\ Cur \in Delims /\ ~found
                     /\ LET e == IF Bug = "notrim" THEN i ELSE i - spacing
                        IN lastEnd' = e /\ out' = Append(out, Tok(TRUE, tagStart, e))
                     /\ found' = TRUE /\ spacing' = 0 /\ tagStart' = None /\ i' = i + 1
                     /\ UNCHANGED <<src, phase, GrpVars>>
ScanTagChar == /\ ScanGuard /\ Cur \notin Delims /\ Cur # Blank
               /\ out' = (IF found /\ lastEnd # None /\ lastEnd # i THEN Append(out, Tok(FALSE, lastEnd, i)) ELSE out)
               /\ lastEnd' = (IF found /\ lastEnd # None THEN None ELSE lastEnd)
               /\ found' = FALSE /\ spacing' = 0
               /\ tagStart' = (IF tagStart = None THEN i ELSE tagStart) /\ i' = i + 1
               /\ UNCHANGED <<src, phase, GrpVars>>
ScanFinish == /\ phase = "scan" /\ i = Len(src)
              /\ LET L == Len(src)
                     o1 == IF lastEnd # None /\ L # lastEnd THEN Append(out, Tok(FALSE, lastEnd, L)) ELSE out
                     o2 == IF tagStart # None THEN Append(o1, Tok(TRUE, tagStart, L - spacing)) ELSE o1
                     o3 == IF tagStart # None /\ spacing > 0 THEN Append(o2, Tok(FALSE, L - spacing, L)) ELSE o2
                 IN out' = o3
              /\ phase' = "group" /\ tk' = 1 /\ stack' = << [start |-> None, kids |-> <<>>] >>
              /\ UNCHANGED <<src, i, spacing, found, tagStart, lastEnd, tree, rejected>>
\* --- split_into_groups: one token per step
ScanVars == <<src, i, spacing, found, tagStart, lastEnd, out>>
GrpGuard == phase = "group" /\ tk <= Len(out)
T == out[tk]
\* delimiter_index: first non-blank character of the delimiter token (0 if there is none)
DelimIndex(s, a, b) == LET nb == {j \in 0..(b - a - 1) : s[a + 1 + j] # Blank} IN IF nb = {} THEN 0 ELSE MinOf(nb)
DIdx == DelimIndex(src, T[2], T[3])
DChar == src[T[2] + DIdx + 1]
Top == stack[Len(stack)]
PushKid(st, node) == [st EXCEPT ![Len(st)].kids = Append(@, node)]
GrpTag == /\ GrpGuard /\ T[1]
          /\ stack' = PushKid(stack, [k |-> "t", a |-> T[2], b |-> T[3], kids |-> <<>>])
          /\ tk' = tk + 1 /\ UNCHANGED <<ScanVars, phase, tree, rejected>>
GrpOpen == /\ GrpGuard /\ ~T[1] /\ DChar = "("
           /\ stack' = Append(stack, [start |-> T[2] + DIdx, kids |-> <<>>])
           /\ tk' = tk + 1 /\ UNCHANGED <<ScanVars, phase, tree, rejected>>
GrpClose == /\ GrpGuard /\ ~T[1] /\ DChar = ")" /\ Len(stack) > 1
            /\ LET e == IF Bug = "endpos" THEN T[2] + DIdx ELSE T[2] + DIdx + 1
                   g == [k |-> "g", a |-> Top.start, b |-> e, kids |-> Top.kids]
               IN stack' = PushKid(SubSeq(stack, 1, Len(stack) - 1), g)
            /\ tk' = tk + 1 /\ UNCHANGED <<ScanVars, phase, tree, rejected>>
GrpCloseReject == /\ GrpGuard /\ ~T[1] /\ DChar = ")" /\ Len(stack) = 1
                  /\ IF Bug = "noclosecheck"
                     THEN tk' = tk + 1 /\ UNCHANGED <<ScanVars, phase, stack, tree, rejected>>
                     ELSE rejected' = TRUE /\ tree' = <<>> /\ phase' = "done" /\ UNCHANGED <<ScanVars, tk, stack>>
GrpOther == /\ GrpGuard /\ ~T[1] /\ DChar \notin {"(", ")"} /\ Bug # "stuck"
            /\ tk' = tk + 1 /\ UNCHANGED <<ScanVars, phase, stack, tree, rejected>>
GrpFinishOk == /\ phase = "group" /\ tk > Len(out) /\ Len(stack) = 1
               /\ tree' = stack[1].kids /\ phase' = "done" /\ UNCHANGED <<ScanVars, tk, stack, rejected>>
GrpFinishReject == /\ phase = "group" /\ tk > Len(out) /\ Len(stack) # 1
                   /\ rejected' = TRUE /\ tree' = <<>> /\ phase' = "done" /\ UNCHANGED <<ScanVars, tk, stack>>
\* stuttering once finished, so that TLC's deadlock check means: the algorithm never gets stuck before "done"
Terminated == phase = "done" /\ UNCHANGED vars
Next == \/ ScanBlank \/ ScanDelimAfterDelim \/ ScanDelimAfterTag \/ ScanTagChar \/ ScanFinish
        \/ GrpTag \/ GrpOpen \/ GrpClose \/ GrpCloseReject \/ GrpOther \/ GrpFinishOk \/ GrpFinishReject
        \/ Terminated
Spec == Init /\ [][Next]_vars

(* ======================= 3. properties ======================= *)
\* the token list is complete and never changes afterwards: checking it in the first state after the scan suffices
Scanned == phase = "group" /\ tk = 1
Done == phase = "done"
TagToks == SelectSeq(out, LAMBDA t : t[1])
AlgoTags == [j \in 1..Len(TagToks) |-> <<TagToks[j][2], TagToks[j][3]>>]
\* tokens are non-empty, consecutive and cover the text
Tiles == \A j \in 1..Len(out) : /\ out[j][2] < out[j][3]
                                /\ out[j][2] = (IF j = 1 THEN 0 ELSE out[j-1][3])
Covers == out = <<>> \/ out[Len(out)][3] = Len(src)
Tiling == Scanned => Tiles /\ (Len(src) > 0 => Covers)
\* a delimiter token holds only blanks and at most one delimiter; a tag token no delimiter and no outer blank
TokenClasses == Scanned => \A j \in 1..Len(out) :
   LET a == out[j][2]  b == out[j][3] IN
   IF out[j][1] THEN /\ \A p \in (a+1)..b : src[p] \notin Delims
                     /\ src[a+1] # Blank /\ src[b] # Blank
   ELSE /\ \A p \in (a+1)..b : src[p] \in Delims \cup {Blank}
        /\ Cardinality({p \in (a+1)..b : src[p] \in Delims}) <= 1
\* the tokenizer finds exactly the declared tags (balanced or not)
AlgoMatchesDecl == Scanned => AlgoTags = DeclTags(src)
\* the group stack builds exactly the declared tree, and rejects exactly the unbalanced texts
RejectIffUnbalanced == Done => (rejected <=> ~Balanced(src))
UnbalancedEmpty == Done /\ ~Balanced(src) => tree = <<>>
TreeMatchesDecl == Done => tree = DeclTree(src)
FlatMatchesDecl == Done /\ Balanced(src) => Flatten(tree) = DeclFlat(src)
\* each tag text is the slice at its span: no delimiter inside, no blank at either end, and not empty
TagSlices == Done => \A j \in 1..Len(Flatten(tree).tags) :
   LET t == Flatten(tree).tags[j] IN t[1] < t[2] /\ src[t[1]+1] # Blank /\ src[t[2]] # Blank
                                     /\ \A p \in (t[1]+1)..t[2] : src[p] \notin Delims
\* a group span runs from "(" to its ")"
GroupSpans == Done => \A j \in 1..Len(Flatten(tree).groups) :
   LET g == Flatten(tree).groups[j] IN src[g[1]+1] = "(" /\ src[g[2]] = ")" /\ Balanced(SubSeq(src, g[1]+1, g[2]))
\* printing and re-parsing gives an equal tree; printing is stable
RoundTrip == Done /\ Balanced(src) =>
   LET p == PrintKids(src, tree) IN Balanced(p) /\ ShapeKids(p, DeclTree(p)) = ShapeKids(src, tree)
PrintStable == Done /\ Balanced(src) =>
   LET p == PrintKids(src, tree) IN PrintKids(p, DeclTree(p)) = p
\* (the step-wise algorithm never gets stuck before "done": TLC's deadlock check, see Terminated)
====
