---- MODULE Trace_Temporal ----
(* Validates recorded runs of the real file validator against Temporal.tla.
   A case = the time points of one events file (markers per time point), the verdict the real
   code gave each marker, and the validator's open-scope set after each time point.
   The order in which the markers of ONE time point are processed is not fixed by the property,
   so the trace spec lets TLC choose it (any permutation). *)
EXTENDS Temporal, Json, IOUtils, TLCExt
Cases == JsonDeserialize(IOEnv.TRACE_FILE)
TKeys == {"a", "b/1", "b/2"}
VARIABLES cid, t
tvars == <<vars, cid, t>>
TPs == Cases[cid].tps
\* process markers ms (sequence) in order perm, from (o,u); returns [o, u, v] with v = verdict per ORIGINAL index
RECURSIVE Fold(_, _, _, _, _, _)
Fold(ms, perm, i, o, u, v) ==
   IF i > Len(ms) THEN [o |-> o, v |-> v]
   ELSE LET m == ms[perm[i]] IN
        Fold(ms, perm, i + 1, OpenAfter(o, u, m.k, m.key), UsedAfter(u, m.key),
             [v EXCEPT ![perm[i]] = Verdict(o, u, m.k, m.key)])
Outcomes(ms, o) == {Fold(ms, p, 1, o, {}, [j \in 1..Len(ms) |-> "?"]) : p \in Permutations(1..Len(ms))}
TraceInit == Init /\ cid \in 1..Len(Cases) /\ t = 1
Step == /\ t <= Len(TPs)
        /\ \E out \in Outcomes(TPs[t], open) :
              /\ \A j \in 1..Len(TPs[t]) : (IF out.v[j] = "ok" THEN "ok" ELSE "error") = Cases[cid].obs[t][j]
              /\ (Cases[cid].hasopen => out.o = {Cases[cid].open[t][j] : j \in 1..Len(Cases[cid].open[t])})
              /\ open' = out.o
        /\ t' = t + 1 /\ UNCHANGED <<used, hist, errs, cid>>
TraceSpec == TraceInit /\ [][Step]_tvars
Report == /\ (t = Len(TPs) + 1 => PrintT(<<"ACCEPT", cid>>))
          /\ (t <= Len(TPs) /\ ~ENABLED Step => PrintT(<<"STUCK", cid, t>>))
====
