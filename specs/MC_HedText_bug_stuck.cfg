\* sensitivity run: broken variant stuck must deadlock (comma tokens are not consumed)
CONSTANTS
  N = 4
  Bug = "stuck"
SPECIFICATION Spec
INVARIANT Tiling
INVARIANT TokenClasses
INVARIANT AlgoMatchesDecl
INVARIANT RejectIffUnbalanced
INVARIANT UnbalancedEmpty
INVARIANT TreeMatchesDecl
INVARIANT FlatMatchesDecl
INVARIANT TagSlices
INVARIANT GroupSpans
INVARIANT RoundTrip
INVARIANT PrintStable
CHECK_DEADLOCK TRUE
