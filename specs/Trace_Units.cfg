CONSTANTS
  MU = {}
  MM = {}
  Queries = {}
SPECIFICATION TSpec
INVARIANT Done
