CONSTANTS
  Names <- NamesDef
  K = 2
  Vals <- ValsDef
  MaxLen = 3
  None = NoneV
  NoneV = NoneV
SPECIFICATION Spec
INVARIANT TypeOK
INVARIANT Shape
INVARIANT PlainShape
INVARIANT Sound
INVARIANT Complete
INVARIANT Deterministic
PROPERTY ErrClosesAmb
PROPERTY ErrsGrow
CHECK_DEADLOCK FALSE
