------------------------------- MODULE Compliance -------------------------------
(* Schema compliance checking (property C14): which verdict a compliance check owes for ONE fault
   seeded at ONE position of an otherwise compliant schema.

   A POSITION is described by a feature vector
       fv = [sec, ph, kids, sibs, lib, dep, gen]
     sec  : section of the entry  (tag | unit | unitClass | unitModifier | valueClass | attribute)
     ph   : the entry is a '#' placeholder node            (tags only)
     kids : the entry has children (tags) / units (unit classes)
     sibs : the entry has siblings below the same parent   (tags only)
     lib  : the entry itself carries inLibrary
     dep  : the entry itself carries deprecatedFrom
     gen  : generation of the schema's attribute system: "old" (8.0 - 8.2: xxxProperty markers) or
            "v83" (8.3: xxxDomain / xxxRange markers)

   A RULE TABLE maps (fault kind, feature vector) to the code of the HED specification (Appendix B.2,
   schema validation errors) and a severity.  Codes: an attribute that is not defined or is used
   outside its declared element class is SCHEMA_ATTRIBUTE_INVALID; an attribute VALUE that breaks the
   rule of its attribute (non-existent unit class / value class / tag, class attribute on a non-
   placeholder, conversion factor, default units, allowedCharacter, inLibrary, hedId) is
   SCHEMA_ATTRIBUTE_VALUE_INVALID; a bad deprecatedFrom is SCHEMA_DEPRECATION_ERROR; a repeated
   name is SCHEMA_DUPLICATE_NODE.  Severity: what is detected while the schema is assembled (unknown
   attribute, duplicate) is an error; value rules are reported at warning level.  With warnings off
   only the error-severity verdicts remain.

   The table is data (CONSTANT Rules), so that TLC can check it: Deterministic (exactly one row for
   every pair that can occur, none otherwise) and, over the facts of the bundled schemas handed in as
   JSON, Covered.  The second half of the module evaluates ONE seeded case against the facts of the
   schema it was seeded into (attribute declarations, class and unit tables, versions, id ranges):
   TLC decides whether the seeded value is a fault at all, which row applies, and whether the
   issues the real checker returned agree.
*)
EXTENDS Integers, Sequences, FiniteSets, TLC

ERR == 1
WARN == 10
AINV == "SCHEMA_ATTRIBUTE_INVALID"
AVAL == "SCHEMA_ATTRIBUTE_VALUE_INVALID"
DEPR == "SCHEMA_DEPRECATION_ERROR"
DUPN == "SCHEMA_DUPLICATE_NODE"
SpecCodes == {AINV, AVAL, DEPR, DUPN}

Sections == {"tag", "unit", "unitClass", "unitModifier", "valueClass", "attribute"}
Gens == {"old", "v83"}
Faults == {"dupNode", "undeclaredAttr", "badUnitClass", "badValueClass", "badSuggestedTag", "badRelatedTag",
           "classAttrNonPlaceholder", "badDeprecatedFrom", "nonPositiveFactor", "badDefaultUnits",
           "badAllowedCharacter", "foreignInLibrary", "hedIdRange", "hedIdChanged"}
ClassAttrs == {"unitClass", "valueClass", "takesValue"}

FVs == [sec : Sections, ph : BOOLEAN, kids : BOOLEAN, sibs : BOOLEAN, lib : BOOLEAN, dep : BOOLEAN, gen : Gens]
\* feature vectors that can occur at all
WF(fv) == /\ (fv.ph \/ fv.sibs) => fv.sec = "tag"
          /\ fv.kids => fv.sec \in {"tag", "unitClass"}
          /\ fv.ph => ~fv.kids

\* ------------------------------------------------------------------ the rule table
CONSTANT Rules       \* set of rows [fault, secs, phs, gens, code, sev]
Row(f, secs, phs, gens, code, sev) == [fault |-> f, secs |-> secs, phs |-> phs, gens |-> gens, code |-> code, sev |-> sev]
RulesDef == {
   \* bookkeeping done while the schema is assembled: errors
   Row("dupNode", Sections, {FALSE}, Gens, DUPN, ERR),
   Row("undeclaredAttr", Sections, BOOLEAN, Gens, AINV, ERR),
   \* existence of the named item: fixed validator table (old) / declared range of the attribute (v83)
   Row("badUnitClass", {"tag"}, {TRUE}, {"old"}, AVAL, WARN),
   Row("badUnitClass", {"tag"}, {TRUE}, {"v83"}, AVAL, WARN),
   Row("badValueClass", {"tag"}, {TRUE}, {"old"}, AVAL, WARN),
   Row("badValueClass", {"tag"}, {TRUE}, {"v83"}, AVAL, WARN),
   Row("badSuggestedTag", {"tag"}, BOOLEAN, {"old"}, AVAL, WARN),
   Row("badSuggestedTag", {"tag"}, BOOLEAN, {"v83"}, AVAL, WARN),
   Row("badRelatedTag", {"tag"}, BOOLEAN, {"old"}, AVAL, WARN),
   Row("badRelatedTag", {"tag"}, BOOLEAN, {"v83"}, AVAL, WARN),
   Row("classAttrNonPlaceholder", {"tag"}, {FALSE}, Gens, AVAL, WARN),
   Row("badDeprecatedFrom", Sections, BOOLEAN, Gens, DEPR, WARN),
   Row("nonPositiveFactor", {"unit", "unitModifier"}, {FALSE}, Gens, AVAL, WARN),
   Row("badDefaultUnits", {"unitClass"}, {FALSE}, {"old"}, AVAL, WARN),
   Row("badDefaultUnits", {"unitClass"}, {FALSE}, {"v83"}, AVAL, WARN),
   Row("badAllowedCharacter", {"valueClass"}, {FALSE}, Gens, AVAL, WARN),
   Row("badAllowedCharacter", {"unit", "unitModifier"}, {FALSE}, {"v83"}, AVAL, WARN),
   Row("foreignInLibrary", Sections, BOOLEAN, Gens, AVAL, WARN),
   \* hedId exists from 8.3 on
   Row("hedIdRange", Sections, BOOLEAN, {"v83"}, AVAL, WARN),
   Row("hedIdChanged", Sections, BOOLEAN, {"v83"}, AVAL, WARN) }

Match(f, fv) == {r \in Rules : r.fault = f /\ fv.sec \in r.secs /\ fv.ph \in r.phs /\ fv.gen \in r.gens}
OnVerdict(f, fv) == {<<r.code, r.sev>> : r \in Match(f, fv)}          \* check_for_warnings = TRUE
OffVerdict(f, fv) == {v \in OnVerdict(f, fv) : v[2] = ERR}            \* check_for_warnings = FALSE

\* where the statement's fault kinds can be seeded (stated independently of the table)
Applicable(f, fv) ==
   CASE f = "dupNode" -> ~fv.ph                                      \* '#' is not a name
     [] f \in {"badUnitClass", "badValueClass"} -> fv.sec = "tag" /\ fv.ph
     [] f \in {"badSuggestedTag", "badRelatedTag"} -> fv.sec = "tag"
     [] f = "classAttrNonPlaceholder" -> fv.sec = "tag" /\ ~fv.ph
     [] f = "nonPositiveFactor" -> fv.sec \in {"unit", "unitModifier"}
     [] f = "badDefaultUnits" -> fv.sec = "unitClass"
     [] f = "badAllowedCharacter" -> fv.sec = "valueClass" \/ (fv.gen = "v83" /\ fv.sec \in {"unit", "unitModifier"})
     [] f \in {"hedIdRange", "hedIdChanged"} -> fv.gen = "v83"
     [] OTHER -> TRUE                                                \* undeclaredAttr, badDeprecatedFrom, foreignInLibrary

\* ------------------------------------------------------------------ model mode
VARIABLE c          \* [f, fv, s]   s = 0: abstract pair;  s > 0: pair occurring in bundled schema number s
Init == c \in [f : Faults, fv : {x \in FVs : WF(x)}, s : {0}]
Next == UNCHANGED c
Spec == Init /\ [][Next]_c
Deterministic == Cardinality(Match(c.f, c.fv)) = (IF Applicable(c.f, c.fv) THEN 1 ELSE 0)
SpecCodesOnly == \A r \in Match(c.f, c.fv) : r.code \in SpecCodes /\ r.sev \in {ERR, WARN}
WarningsOffOnlyErrors == /\ \A v \in OffVerdict(c.f, c.fv) : v[2] = ERR
                         /\ \A v \in OnVerdict(c.f, c.fv) : v[2] = ERR => v \in OffVerdict(c.f, c.fv)
\* every row of the table is used by some well-formed pair (no dead row)
RowsUsed == \A r \in Rules : \E fv \in FVs : WF(fv) /\ Applicable(r.fault, fv) /\ r \in Match(r.fault, fv)

\* ------------------------------------------------------------------ one schema's facts
(* S = [gen, decl, props, libs, known, current, ranges, unitsOf, unitClasses, valueClasses, tags]
     decl      : function  attribute name -> set of its property names (from the schema XML)
     props     : set of property names defined by the schema
     libs      : set of library names of the schema (empty for a standard schema)
     known     : function  library key ("std" or a library name) -> set of released versions <<a, b, c>>
     current   : function  library key -> version of that library in this schema
     ranges    : function  library key -> <<lowest id, highest id>>
     unitsOf   : function  unit class -> set of its unit names
     unitClasses, valueClasses, tags : sets of names
   Norm(J) builds S from the JSON form (sequences instead of sets). *)
Range(s) == {s[i] : i \in 1..Len(s)}
Norm(J) == [gen |-> J.gen, decl |-> [a \in DOMAIN J.decl |-> Range(J.decl[a])], props |-> Range(J.props), libs |-> Range(J.libs),
            known |-> [l \in DOMAIN J.known |-> Range(J.known[l])], current |-> J.current, ranges |-> J.ranges,
            unitsOf |-> [u \in DOMAIN J.unitsOf |-> Range(J.unitsOf[u])], unitClasses |-> Range(J.unitClasses),
            valueClasses |-> Range(J.valueClasses), tags |-> Range(J.tags)]
OldSectionProps == {"unitClassProperty", "unitProperty", "unitModifierProperty", "valueClassProperty"}
DomKey(gen, sec) ==
   IF gen = "v83" THEN (CASE sec = "tag" -> "tagDomain" [] sec = "unit" -> "unitDomain" [] sec = "unitClass" -> "unitClassDomain"
                          [] sec = "unitModifier" -> "unitModifierDomain" [] OTHER -> "valueClassDomain")
   ELSE (CASE sec = "unit" -> "unitProperty" [] sec = "unitClass" -> "unitClassProperty"
           [] sec = "unitModifier" -> "unitModifierProperty" [] OTHER -> "valueClassProperty")
ElemKey(gen) == IF gen = "v83" THEN "elementDomain" ELSE "elementProperty"
\* is attribute a declared for entries of section sec ?
InDomain(S, sec, a) ==
   LET P == IF a \in DOMAIN S.decl THEN S.decl[a] ELSE {} IN
   IF sec = "attribute" THEN a \in S.props \/ ElemKey(S.gen) \in P
   ELSE IF a \notin DOMAIN S.decl THEN FALSE
   ELSE IF ElemKey(S.gen) \in P THEN TRUE
   ELSE IF S.gen = "old" /\ sec = "tag" THEN P \cap OldSectionProps = {}
   ELSE DomKey(S.gen, sec) \in P

Less(v, w) == v[1] < w[1] \/ (v[1] = w[1] /\ (v[2] < w[2] \/ (v[2] = w[2] /\ v[3] < w[3])))
\* names an allowedCharacter value may take besides a single character (HED specification, 8.3 list included)
AllowedCharNames == {"letters", "blank", "digits", "alphanumeric",
                     "ascii", "nonascii", "printable", "lowercase", "uppercase", "tab", "newline", "text", "name",
                     "exclamation", "double-quote", "number-sign", "dollar", "percent-sign", "ampersand", "single-quote",
                     "left-paren", "right-paren", "asterisk", "plus", "comma", "hyphen", "period", "slash", "colon",
                     "semicolon", "less-than", "equals", "greater-than", "question-mark", "at-sign", "backslash",
                     "caret", "underscore", "vertical-bar", "tilde"}

(* One seeded case  e = [fault, fv, attr, val, ver, num, numeric, prev, cls, lib, on, off, raised]
     attr : the attribute written;  val : its (new) value;  ver : val as a version triple (deprecatedFrom)
     num  : val as an integer (factor mantissa sign-preserving / hedId number);  numeric : val is a number
     prev : hedId number of the same entry in the previous released version (0: none)
     cls  : unit class of the position (badDefaultUnits);  lib : library key owning the entry
     on / off : NEW issues attributed to the position with check_for_warnings TRUE / FALSE, each [code, sev, attr]
     raised : exception text if the checker raised while looking at this entry *)
IsFault(S, e) ==
   CASE e.fault = "dupNode" -> TRUE
     [] e.fault = "undeclaredAttr" -> ~InDomain(S, e.fv.sec, e.attr)
     [] e.fault = "badUnitClass" -> e.val \notin S.unitClasses
     [] e.fault = "badValueClass" -> e.val \notin S.valueClasses
     [] e.fault \in {"badSuggestedTag", "badRelatedTag"} -> e.val \notin S.tags
     [] e.fault = "classAttrNonPlaceholder" -> ~e.fv.ph
     [] e.fault = "badDeprecatedFrom" ->
            ~(e.lib \in DOMAIN S.known /\ e.ver \in S.known[e.lib] /\ Less(e.ver, S.current[e.lib]))
     [] e.fault = "nonPositiveFactor" -> ~e.numeric \/ e.num <= 0
     [] e.fault = "badDefaultUnits" -> e.val \notin S.unitsOf[e.cls]
     [] e.fault = "badAllowedCharacter" -> e.val \notin AllowedCharNames /\ Len(e.val) # 1
     [] e.fault = "foreignInLibrary" -> e.val \notin S.libs
     [] e.fault = "hedIdRange" -> ~e.numeric \/ (e.lib \in DOMAIN S.ranges /\ (e.num < S.ranges[e.lib][1] \/ e.num > S.ranges[e.lib][2]))
     [] e.fault = "hedIdChanged" -> e.prev # 0 /\ e.prev # e.num
     [] OTHER -> FALSE
\* the written attribute must itself be declared for the section, otherwise the case holds two faults
Seedable(S, e) == e.fault \in {"dupNode", "undeclaredAttr"} \/ InDomain(S, e.fv.sec, e.attr)
Verdict(S, e) == IF IsFault(S, e) THEN Match(e.fault, e.fv) ELSE {}
\* issues a checker may add at the position without contradicting the table
Extras(e) ==
   (IF e.fault = "classAttrNonPlaceholder" /\ (e.fv.sibs \/ e.fv.kids) THEN {<<AINV, WARN>>} ELSE {})
   \cup (IF e.fault = "undeclaredAttr" THEN {<<AVAL, WARN>>, <<AINV, WARN>>} ELSE {})       \* the misplaced attribute's own value rule
   \cup (IF e.fault = "badDeprecatedFrom" /\ e.fv.kids THEN {<<DEPR, WARN>>} ELSE {})        \* children that are not deprecated
   \cup (IF e.fault = "foreignInLibrary" /\ e.fv.dep THEN {<<DEPR, WARN>>} ELSE {})          \* versions of an unknown library
Obs(seq) == {<<seq[i].code, seq[i].sev>> : i \in 1..Len(seq)}
\* "ok", a clause of the property statement that fails, or "drift-..." for detail beyond the statement
Why(S, e) ==
   LET on == Obs(e.on)
       off == Obs(e.off)
       V == Verdict(S, e)
       want == {<<r.code, r.sev>> : r \in V} IN
   IF e.fault = "released" THEN
        (IF \E o \in on \cup off : o[2] = ERR THEN "released-schema-has-error"
         ELSE IF off # {} THEN "warning-returned-with-warnings-off" ELSE "ok")
   ELSE IF e.raised # "" THEN "raises"
   ELSE IF ~WF(e.fv) THEN "machinery-feature-vector"
   ELSE IF ~Seedable(S, e) THEN "machinery-not-seedable"
   ELSE IF IsFault(S, e) /\ Cardinality(V) # 1 THEN "machinery-no-rule"
   ELSE IF \E r \in V : \A o \in on : o[1] # r.code THEN (IF on = {} THEN "fault-not-reported" ELSE "fault-reported-with-other-code")
   ELSE IF \E o \in off : o[2] # ERR THEN "warning-returned-with-warnings-off"
   ELSE IF \E r \in V : r.sev = ERR /\ (\A o \in off : o[1] # r.code) THEN "error-dropped-with-warnings-off"
   ELSE IF want \ on # {} THEN "drift-severity"
   ELSE IF V = {} /\ on \ Extras(e) # {} THEN "drift-control-flagged"
   ELSE IF on \ (want \cup Extras(e)) # {} THEN "drift-extra-issue"
   ELSE IF off # {o \in on : o[2] = ERR} THEN "drift-off-differs-from-errors-of-on"
   ELSE "ok"
=============================================================================
