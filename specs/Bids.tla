------------------------------- MODULE Bids -------------------------------
(* Sidecar inheritance in a BIDS-style dataset tree (property C16), as hed-python's
   hed.tools.bids.BidsDataset / BidsFileGroup is required to apply it.

   A tree holds files  [dir, ents, suffix, ext, cols]
      dir    sequence of directory names below the dataset root (<<>> = root, depth <= 3)
      ents   filename entities, a function  entity name -> value   (sub-01_task-a_...  = sub:01, task:a)
      suffix "events", ...          ext ".tsv" (data file) / ".json" (sidecar)
      cols   top-level column keys a sidecar defines ({} for data files)
   and a set of excluded directory names (derivatives, code, ...).

   One tree = one state.  A tree is grown from a SHAPE (subjects x sessions x tasks x runs, which fixes the
   events files) by adding sidecars one at a time; a sidecar may sit at any level of the path of some events file
   and carry any subset of that file's entities and any non-empty set of column keys, as long as the BIDS rule
   "at most one applicable sidecar per directory" stays true.  Decoy files live in excluded directories or carry
   another suffix.
*)
EXTENDS Integers, Sequences, FiniteSets, TLC

CONSTANTS Shapes,        \* set of [nsub, nses, ntask, nrun]   (nses = 0: no session level)
          MaxSC,         \* max number of (non-decoy) sidecars in a tree
          Cols,          \* column keys a sidecar may define
          Excluded,      \* excluded directory names the dataset reader is configured with
          DecoyKinds,    \* decoys that may be present: excluded directory names and/or "othersuffix"
          DecoyRule(_, _),  \* (shape, decoy set) -> BOOLEAN : which decoy sets go with which shape
          ENFORCE_BIDS,  \* TRUE: generator keeps "at most one applicable sidecar per directory"   (FALSE: sensitivity)
          DEEPER_WINS    \* TRUE: deeper sidecar overrides shallower per column key                 (FALSE: sensitivity)

VARIABLES shape, scs, decoy
vars == <<shape, scs, decoy>>

SubVal == <<"01", "02", "03">>
SesVal == <<"1", "2", "3">>
TaskVal == <<"a", "b", "c">>
RunVal == <<"1", "2", "3">>
EntOrder == <<"sub", "ses", "task", "run">>       \* canonical order of entities in a file name

Restrict(f, S) == [n \in S |-> f[n]]
Prefix(seq, k) == SubSeq(seq, 1, k)
IsPrefix(p, q) == Len(p) <= Len(q) /\ Prefix(q, Len(p)) = p

----------------------------------------------------------------------------
\* files of a tree
\* half of the shapes keep their data files in a datatype directory below the subject / session (sub-01/ses-1/eeg/...), as real
\* datasets do: the files are then up to three levels deep and sidecars may sit in every directory on the way
HasDataDir(sh) == (sh.nsub + sh.nses + sh.ntask + sh.nrun) % 2 = 1
EvFileIn(s, e, t, r, dd) ==
  LET full == [n \in {"sub", "ses", "task", "run"} |->
                 IF n = "sub" THEN SubVal[s] ELSE IF n = "ses" THEN SesVal[IF e = 0 THEN 1 ELSE e]
                 ELSE IF n = "task" THEN TaskVal[t] ELSE RunVal[r]] IN
  [dir |-> (IF e = 0 THEN <<"sub-" \o SubVal[s]>> ELSE <<"sub-" \o SubVal[s], "ses-" \o SesVal[e]>>) \o (IF dd THEN <<"eeg">> ELSE <<>>),
   ents |-> IF e = 0 THEN Restrict(full, {"sub", "task", "run"}) ELSE full,
   suffix |-> "events", ext |-> ".tsv", cols |-> {}]

EvFile(s, e, t, r) == EvFileIn(s, e, t, r, FALSE)
EventsOf(sh) == {EvFileIn(s, e, t, r, HasDataDir(sh)) : s \in 1..sh.nsub, e \in (IF sh.nses = 0 THEN {0} ELSE 1..sh.nses),
                                        t \in 1..sh.ntask, r \in 1..sh.nrun}

\* every sidecar the generator may add: any level of the path of some events file, any subset of its entities
SidecarsFor(ev) == {[dir |-> Prefix(ev.dir, k), ents |-> Restrict(ev.ents, S), suffix |-> "events", ext |-> ".json", cols |-> C] :
                       k \in 0..Len(ev.dir), S \in SUBSET (DOMAIN ev.ents), C \in (SUBSET Cols) \ {{}}}
Universe(sh) == UNION {SidecarsFor(ev) : ev \in EventsOf(sh)}

\* shape-indexed tables; constant-level, so TLC evaluates them once
EventsTab == [sh \in Shapes |-> EventsOf(sh)]
UniverseTab == [sh \in Shapes |-> Universe(sh)]

\* decoys: an excluded directory holds a sidecar and (one level down) an events file that WOULD take part
\* if the directory were not excluded; "othersuffix" puts a same-named beh sidecar/data file next to real ones
DecoyFiles(d) ==
  UNION {{[dir |-> <<x>>, ents |-> Restrict(EvFile(1, 0, 1, 1).ents, {"task"}), suffix |-> "events", ext |-> ".json", cols |-> Cols],
          [dir |-> <<x, "sub-01">>, ents |-> EvFile(1, 0, 1, 1).ents, suffix |-> "events", ext |-> ".tsv", cols |-> {}]}
            : x \in d \ {"othersuffix"}}
  \cup (IF "othersuffix" \in d
        THEN {[dir |-> <<>>, ents |-> Restrict(EvFile(1, 0, 1, 1).ents, {"task"}), suffix |-> "beh", ext |-> ".json", cols |-> Cols],
              [dir |-> <<"sub-01">>, ents |-> EvFile(1, 0, 1, 1).ents, suffix |-> "beh", ext |-> ".tsv", cols |-> {}]}
        ELSE {})

AllFiles == EventsTab[shape] \cup scs \cup DecoyFiles(decoy)

----------------------------------------------------------------------------
\* what the property says, over an arbitrary file set F
IsSidecar(f) == f.ext = ".json"
IsData(f) == f.ext = ".tsv"
InExcluded(f) == \E i \in 1..Len(f.dir) : f.dir[i] \in Excluded
\* files below an excluded directory take no part
Present(F) == {f \in F : ~InExcluded(f)}
\* G: the sidecars that take part (any suffix);  the group the dataset validates: suffix "events"
Inheritable(F) == {f \in Present(F) : IsSidecar(f)}
Targets(F) == {f \in Present(F) : f.suffix = "events" /\ IsData(f)}
Sidecars(F) == {f \in Present(F) : f.suffix = "events" /\ IsSidecar(f)}

\* sidecar s applies to file f (f: a data file, or a sidecar file when ITS inherited content is asked for)
Applicable(s, f) == /\ s.suffix = f.suffix
                    /\ IsPrefix(s.dir, f.dir)
                    /\ \A n \in DOMAIN s.ents : n \in DOMAIN f.ents /\ f.ents[n] = s.ents[n]

AtLevel(G, f, k) == {s \in G : Len(s.dir) = k /\ Applicable(s, f)}
AtMostOnePerDir(F) == LET G == Inheritable(F) IN
                      \A f \in Present(F) : \A k \in 0..Len(f.dir) : Cardinality(AtLevel(G, f, k)) <= 1

\* root -> leaf chain of the applicable sidecars (well defined under AtMostOnePerDir)
RECURSIVE ChainFrom(_, _, _)
ChainFrom(G, f, k) == IF k > Len(f.dir) THEN <<>>
                      ELSE LET L == AtLevel(G, f, k) IN
                           (IF L = {} THEN <<>> ELSE <<CHOOSE s \in L : TRUE>>) \o ChainFrom(G, f, k + 1)
Chain(G, f) == ChainFrom(G, f, 0)

\* file name and path relative to the dataset root
RECURSIVE NameFrom(_, _)
NameFrom(f, i) == IF i > Len(EntOrder) THEN f.suffix \o f.ext
                  ELSE (IF EntOrder[i] \in DOMAIN f.ents THEN EntOrder[i] \o "-" \o f.ents[EntOrder[i]] \o "_" ELSE "")
                       \o NameFrom(f, i + 1)
Name(f) == NameFrom(f, 1)
RECURSIVE DirFrom(_, _)
DirFrom(d, i) == IF i > Len(d) THEN "" ELSE d[i] \o "/" \o DirFrom(d, i + 1)
Path(f) == DirFrom(f.dir, 1) \o Name(f)

\* merged sidecar as a map  column key -> the sidecar file whose entry is in force
EmptyMap == [c \in {} |-> ""]
Override(m, s) == [c \in (DOMAIN m) \cup s.cols |->
                     IF DEEPER_WINS THEN (IF c \in s.cols THEN s ELSE m[c])
                     ELSE (IF c \in DOMAIN m THEN m[c] ELSE s)]
RECURSIVE Fold(_)
Fold(ch) == IF ch = <<>> THEN EmptyMap ELSE Override(Fold(Prefix(ch, Len(ch) - 1)), ch[Len(ch)])
Merged(G, f) == Fold(Chain(G, f))

\* declarative reading: the entry in force for column c is that of the DEEPEST applicable sidecar defining c
Defining(G, f, c) == {s \in G : Applicable(s, f) /\ c \in s.cols}
MergedDecl(G, f) == [c \in {c \in Cols : Defining(G, f, c) # {}} |->
                       CHOOSE s \in Defining(G, f, c) : \A t \in Defining(G, f, c) : Len(t.dir) <= Len(s.dir)]

\* what hed-python does on the pinned tree (kept as a named alternative, used by a sensitivity run only):
\* the data file gets the merged content OF ITS DEEPEST SIDECAR FILE, i.e. the chain computed for that sidecar file
MergedViaDeepest(G, f) == LET ch == Chain(G, f) IN IF ch = <<>> THEN EmptyMap ELSE Merged(G, ch[Len(ch)])

----------------------------------------------------------------------------
\* generator
\* two sidecars of one directory that both apply to some events file break the BIDS rule
\* (pairwise form of AtMostOnePerDir, cheap enough for the generator; GuardExact states the equivalence)
Conflict(s, t) == /\ s.dir = t.dir
                  /\ \E ev \in EventsTab[shape] : Applicable(s, ev) /\ Applicable(t, ev)
NoConflict(S) == \A s, t \in S : s # t => ~Conflict(s, t)

Init == /\ shape \in Shapes
        /\ scs = {}
        /\ decoy \in SUBSET DecoyKinds
        /\ DecoyRule(shape, decoy)

AddSidecar == /\ Cardinality(scs) < MaxSC
              /\ \E s \in UniverseTab[shape] \ scs :
                   /\ ENFORCE_BIDS => \A t \in scs : ~Conflict(s, t)
                   /\ scs' = scs \cup {s}
                   /\ UNCHANGED <<shape, decoy>>
Next == AddSidecar
Spec == Init /\ [][Next]_vars

----------------------------------------------------------------------------
\* invariants
TypeOK == /\ shape \in Shapes /\ decoy \subseteq DecoyKinds
          /\ \A s \in scs : IsSidecar(s) /\ s.cols # {} /\ s.cols \subseteq Cols /\ Len(s.dir) <= 3
          /\ \A f \in AllFiles : Len(f.dir) <= 3

\* BIDS rule kept by the generator => the chain (hence the merge) is a function of the tree: determinism
Deterministic == AtMostOnePerDir(AllFiles)

\* the generator's pairwise guard is exactly the BIDS rule (checked with ENFORCE_BIDS = FALSE as well)
GuardExact == NoConflict(scs) <=> AtMostOnePerDir(AllFiles)

\* the chain holds exactly the applicable sidecars that take part, strictly root -> leaf
ChainExact == LET F == AllFiles  G == Inheritable(F) IN
              \A f \in Targets(F) \cup Sidecars(F) :
                 LET ch == Chain(G, f) IN
                 /\ {ch[i] : i \in 1..Len(ch)} = {s \in Sidecars(F) : Applicable(s, f)}
                 /\ \A i \in 1..(Len(ch) - 1) : Len(ch[i].dir) < Len(ch[i + 1].dir)

\* fold of per-column override == "deepest applicable sidecar defining the column"
MergedIsTopDown == LET F == AllFiles  G == Inheritable(F) IN
                   \A f \in Targets(F) \cup Sidecars(F) : Merged(G, f) = MergedDecl(G, f)

\* a sidecar file always carries its own columns in its merged content
OwnColumns == LET F == AllFiles  G == Inheritable(F) IN
              \A s \in Sidecars(F) : \A c \in s.cols : Merged(G, s)[c] = s

\* decoys take no part: same targets, same sidecars, same chains (hence merges) with and without them
ExcludedIgnored == decoy # {} =>
                   LET F == AllFiles  F0 == F \ DecoyFiles(decoy)  G == Inheritable(F)  G0 == Inheritable(F0) IN
                   /\ Targets(F) = Targets(F0)
                   /\ Sidecars(F) = Sidecars(F0)
                   /\ \A f \in Targets(F0) \cup Sidecars(F0) : Chain(G, f) = Chain(G0, f)

\* NOT an invariant (sensitivity run): taking the deepest sidecar file's own merged content is not enough
DeepestSuffices == LET F == AllFiles  G == Inheritable(F) IN
                   \A f \in Targets(F) : MergedViaDeepest(G, f) = Merged(G, f)

\* vacuity guards used by sensitivity configs: something is overridden / a 3-level chain exists
NeverOverrides == LET F == AllFiles  G == Inheritable(F) IN
                  \A f \in Targets(F) : LET ch == Chain(G, f) IN
                     \A i, j \in 1..Len(ch) : i < j => ch[i].cols \cap ch[j].cols = {}
NeverThreeLevels == LET F == AllFiles  G == Inheritable(F) IN \A f \in Targets(F) : Len(Chain(G, f)) < 3
=============================================================================
