CONSTANTS
  T = 3
  A = 3
  Keys <- KeysDef
  Gaps <- GapsDef
  Durs <- DursDef
SPECIFICATION Spec
INVARIANT Emit
