------------------------------ MODULE Remodel ------------------------------
(* Remodeling of tabular (events) files by hed-python (property C17).

   PART 1  the eight non-summary operations as FUNCTIONS of (parameters, table),
           transcribed from their documented meaning (class docstrings, `:raises`
           sections and the `description` texts of the PARAMS JSON schemas in
           hed/tools/remodeling/operations/*_op.py).
   PART 2  the remodeler's validation as a predicate on parameter shapes:
           the JSON specification of every operation as a TLA+ table (PSpec),
           structural faults, and the per-operation rules.
   PART 3  the dispatcher as a state machine with PERSISTENT operation objects:
           one `Run(f)` per processed file, 1-3 tables in any order/repetition.
           Every operation step returns the result AND the operation object as
           it is afterwards, so "parameters never change" is a checkable
           invariant (and a deliberately leaky variant, `Leaky`, violates it).

   A table is  [cols : Seq(Name), rows : Seq([Name -> Cell])];  a cell is TEXT
   (what the .tsv file holds): "n/a", ordinary strings, numeric-looking strings.
   Arithmetic (split_rows, merge_consecutive with set_durations) goes through
   Num/Str on numeric-looking cells.

   Outcome of an operation (list) on a table:
     k = "ok"   the result table  cols/rows
     k = "err"  a DOCUMENTED error  e \in {"KeyError","ValueError","TypeError"}
     k = "any"  the table/parameters are outside what the documentation defines
                (a column the operation names is absent and no flag covers it,
                 a value is not of the expected kind, name clashes): nothing is
                 prescribed for the result - purity still is.
     d = TRUE   the result relies on a reading of the documentation that is more
                detailed than the text (used by the binding to separate
                statement-level disagreement from spec drift).
     u = TRUE   rows with equal onset were put "in onset order": their mutual order is
                not prescribed, the result is the table up to that order.
*)
EXTENDS Integers, Sequences, FiniteSets, TLC

CONSTANTS OpLists,       \* set of operation lists: sequences of operation records (see MC_Remodel)
          TableTuples,   \* set of sequences (length 1..3) of tables = the files of one dispatcher run
          MaxRuns,       \* number of Run steps per behaviour
          Leaky          \* sensitivity switch: reorder_columns keeps the extended column list (as a defective design)

NA == "n/a"
Range(s) == {s[i] : i \in DOMAIN s}
Has(r, f) == f \in DOMAIN r
Max(S) == CHOOSE x \in S : \A y \in S : y <= x

(* ---- numeric-looking text ---- *)
MaxNum == 60
NumStr == [n \in 0..MaxNum |-> ToString(n)]
IsNum(s) == \E n \in 0..MaxNum : NumStr[n] = s
Num(s) == CHOOSE n \in 0..MaxNum : NumStr[n] = s
NaN == -1                                   \* "not a number" (pandas: coerce)
NumOrNaN(s) == IF IsNum(s) THEN Num(s) ELSE NaN
NumOrZero(s) == IF IsNum(s) THEN Num(s) ELSE 0
Str(n) == IF n = NaN THEN NA ELSE ToString(n)

(* ---- sequences ---- *)
\* the subsequence of s at the (ascending) positions I
AtIdx(s, I) == [k \in 1..Cardinality(I) |-> s[CHOOSE i \in I : Cardinality({j \in I : j < i}) = k - 1]]
Dedup(s) == AtIdx(s, {i \in DOMAIN s : \A j \in 1..(i - 1) : s[j] # s[i]})
IndexOf(s, x) == CHOOSE i \in DOMAIN s : s[i] = x
Distinct(s) == Cardinality(Range(s)) = Len(s)
RECURSIVE SumSeq(_)
SumSeq(s) == IF s = <<>> THEN 0 ELSE s[1] + SumSeq(Tail(s))
RECURSIVE Flatten(_)
Flatten(ss) == IF ss = <<>> THEN <<>> ELSE ss[1] \o Flatten(Tail(ss))

\* equal as bags of rows
SameBag(a, b) == /\ Len(a) = Len(b)
                 /\ \A x \in Range(a) \cup Range(b) :
                       Cardinality({i \in DOMAIN a : a[i] = x}) = Cardinality({i \in DOMAIN b : b[i] = x})

(* ---- outcomes ---- *)
Ok(c, r) == [k |-> "ok", cols |-> c, rows |-> r, e |-> "", d |-> FALSE, u |-> FALSE]
OkT(t)   == Ok(t.cols, t.rows)
Err(e)   == [k |-> "err", cols |-> <<>>, rows |-> <<>>, e |-> e, d |-> FALSE, u |-> FALSE]
Undef    == [k |-> "any", cols |-> <<>>, rows |-> <<>>, e |-> "", d |-> TRUE, u |-> FALSE]
Detail(r, b) == [r EXCEPT !.d = @ \/ b]

Cols(t) == Range(t.cols)
Column(t, c) == [i \in DOMAIN t.rows |-> t.rows[i][c]]
\* keep the columns cs (a sequence of present column names), in that order
Project(t, cs) == Ok(cs, [i \in DOMAIN t.rows |-> [c \in Range(cs) |-> t.rows[i][c]]])

(* ======================= PART 1: the operations ======================= *)

(* remove_rows: "Remove rows ... based on the values in a specified [column]";
   remove_values = "List of key values for rows to remove". *)
RemoveRows(p, t) ==
  IF p.column_name \notin Cols(t) THEN Detail(OkT(t), TRUE)
  ELSE Detail(Ok(t.cols, AtIdx(t.rows, {i \in DOMAIN t.rows : t.rows[i][p.column_name] \notin Range(p.remove_values)})),
              \* a numeric-looking value: whether "1" means the text or the number depends on how the column is read
              \E v \in Range(p.remove_values) : IsNum(v))

(* remove_columns: ":raises KeyError: If ignore_missing is False and a column not in the data is to be removed." *)
RemoveColumns(p, t) ==
  IF ~p.ignore_missing /\ ~(Range(p.column_names) \subseteq Cols(t)) THEN Err("KeyError")
  ELSE Project(t, AtIdx(t.cols, {i \in DOMAIN t.cols : t.cols[i] \notin Range(p.column_names)}))

(* rename_columns: column_mapping = sequence of <<old, new>> (the JSON object in key order);
   ":raises KeyError: When ignore_missing is False and column_mapping has columns not in the data." *)
RenameColumns(p, t) ==
  LET M == Range(p.column_mapping)
      Olds == {m[1] : m \in M}
      New(c) == IF c \in Olds THEN (CHOOSE m \in M : m[1] = c)[2] ELSE c
      ncols == [i \in DOMAIN t.cols |-> New(t.cols[i])]
      Old(c) == CHOOSE o \in Cols(t) : New(o) = c
  IN IF ~p.ignore_missing /\ ~(Olds \subseteq Cols(t)) THEN Err("KeyError")
     ELSE IF ~Distinct(ncols) THEN Undef        \* two columns with one name: not a table any more
     ELSE Ok(ncols, [i \in DOMAIN t.rows |-> [c \in Range(ncols) |-> t.rows[i][Old(c)]]])

(* reorder_columns: column_order first ("in the order you wish them to be"), keep_others:
   "If true columns not in column_order are placed at end, otherwise ignored";
   ":raises ValueError: When ignore_missing is false and column_order has columns not in the data." *)
ReorderColumns(p, t) ==
  LET present == AtIdx(p.column_order, {i \in DOMAIN p.column_order : p.column_order[i] \in Cols(t)})
      others == AtIdx(t.cols, {i \in DOMAIN t.cols : t.cols[i] \notin Range(p.column_order)})
  IN IF ~p.ignore_missing /\ Len(present) < Len(p.column_order) THEN Err("ValueError")
     ELSE Project(t, IF p.keep_others THEN present \o others ELSE present)

(* factor_column: "Append to tabular file columns of factors based on column values."
   "If no factor_values are provided, factors are computed for each of the unique values in column_name column."
   factor_names: "Names to use as the factor columns" (optional; default  <column>.<value>). *)
FactorColumn(p, t) ==
  LET c == p.column_name IN
  IF c \notin Cols(t) THEN Undef
  ELSE
  LET cv == Column(t, c)
      vals == IF Has(p, "factor_values") THEN p.factor_values ELSE Dedup(AtIdx(cv, {i \in DOMAIN cv : cv[i] # NA}))
      names == IF Has(p, "factor_names") THEN p.factor_names ELSE [i \in DOMAIN vals |-> c \o "." \o vals[i]]
      all == Cols(t) \cup Range(names)
  IN IF Range(names) \cap Cols(t) # {} \/ ~Distinct(names) \/ Len(names) # Len(vals) THEN Undef
     ELSE Detail(Ok(t.cols \o names,
                    [i \in DOMAIN t.rows |-> [x \in all |->
                        IF x \in Cols(t) THEN t.rows[i][x]
                        ELSE IF t.rows[i][c] = vals[IndexOf(names, x)] THEN "1" ELSE "0"]]),
                 \* whether n/a counts as "a unique value" is not said; nor is the default name of a factor column
                 \* when factor_values are given without factor_names
                 \/ (~Has(p, "factor_values") /\ NA \in Range(cv))
                 \/ (Has(p, "factor_values") /\ ~Has(p, "factor_names")))

(* remap_columns: "Map values in m columns ... into a new combinations in n columns."
   map_list rows = m key values followed by n mapped values.  Rows whose key is not in the map get n/a;
   ":raises ValueError: If ignore_missing is False and source values from the data are not in the map."
   integer_sources: "Source columns that should be treated as integers rather than strings." *)
RemapColumns(p, t) ==
  LET src == p.source_columns
      dst == p.destination_columns
      ns == Len(src)
      ints == IF Has(p, "integer_sources") THEN Range(p.integer_sources) ELSE {}
  IN
  IF ~(Range(src) \subseteq Cols(t)) \/ Range(src) \cap Range(dst) # {} \/ ~Distinct(src) \/ ~Distinct(dst) THEN Undef
  ELSE IF \E c \in ints, i \in DOMAIN t.rows : t.rows[i][c] # NA /\ ~IsNum(t.rows[i][c]) THEN Undef   \* not of the expected kind
  ELSE
  LET Key(r) == [j \in 1..ns |-> r[src[j]]]
      Hits(r) == {m \in Range(p.map_list) : SubSeq(m, 1, ns) = Key(r)}
      Val(r, c) == IF Hits(r) = {} THEN NA ELSE (CHOOSE m \in Hits(r) : TRUE)[ns + IndexOf(dst, c)]
      newc == AtIdx(dst, {i \in DOMAIN dst : dst[i] \notin Cols(t)})
      all == Cols(t) \cup Range(dst)
  IN IF \E i \in DOMAIN t.rows : Cardinality(Hits(t.rows[i])) > 1 THEN Undef       \* ambiguous map
     ELSE IF ~p.ignore_missing /\ (\E i \in DOMAIN t.rows : Hits(t.rows[i]) = {}) THEN Err("ValueError")
     ELSE Detail(Ok(t.cols \o newc,
                    [i \in DOMAIN t.rows |-> [x \in all |->
                        IF x \in Range(dst) THEN Val(t.rows[i], x) ELSE t.rows[i][x]]]),
                 \* an existing destination column of an unmatched row: overwritten with n/a or kept?
                 Range(dst) \cap Cols(t) # {})

(* merge_consecutive: "Merge consecutive rows ... with same column value"; event_code = "the particular value
   in the match column to be merged"; match_columns = "columns whose values have to be matched for two events
   to be the same"; set_durations: "set the duration of the merged event to the extent of the merged events".
   :raises ValueError: anchor column missing / match column missing (ignore_missing False),
                       onset or duration column missing when durations are to be set. *)
MergeConsecutive(p, t) ==
  LET c == p.column_name
      mcs == IF Has(p, "match_columns") THEN Range(p.match_columns) ELSE {}
      R == t.rows
      n == Len(R)
  IN
  IF c \notin Cols(t) THEN (IF ~p.ignore_missing THEN Err("ValueError") ELSE Undef)
  ELSE IF p.set_durations /\ ("onset" \notin Cols(t) \/ "duration" \notin Cols(t)) THEN Err("ValueError")
  ELSE IF ~p.ignore_missing /\ ~(mcs \subseteq Cols(t)) THEN Err("ValueError")
  ELSE
  LET m == mcs \cap Cols(t)
      \* row i repeats row i-1
      Rep(i) == i > 1 /\ R[i][c] = p.event_code /\ R[i - 1][c] = p.event_code /\ (\A x \in m : R[i][x] = R[i - 1][x])
      keep == {i \in 1..n : ~Rep(i)}
      Last(a) == Max({b \in a..n : \A j \in (a + 1)..b : Rep(j)})
      End(i) == NumOrZero(R[i]["onset"]) + NumOrZero(R[i]["duration"])
      NewRow(a) == IF p.set_durations /\ Last(a) > a
                   THEN [R[a] EXCEPT !["duration"] = Str(Max({End(j) : j \in a..Last(a)}) - Num(R[a]["onset"]))]
                   ELSE R[a]
      merged == {a \in keep : Last(a) > a}
  IN IF p.set_durations /\ (\E a \in merged : \E j \in a..Last(a) : ~IsNum(R[j]["onset"])) THEN Undef
     ELSE Detail(Ok(t.cols, AtIdx([i \in 1..n |-> NewRow(i)], keep)),
                 \* a missing duration inside a merged run counts as 0: not said
                 \/ p.set_durations /\ (\E a \in merged : \E j \in a..Last(a) : ~IsNum(R[j]["duration"]))
                 \/ IsNum(p.event_code))

(* split_rows: "Split rows ... with onset and duration columns into multiple rows based on a specified column."
   new_events = sequence of [name, onset_source, duration, (copy_columns)]; an item of onset_source/duration
   is a number or the name of a column ("you can give values or the names of columns as strings");
   the items are ADDED ("List of items to add to compute the onset time / the duration of the new row");
   the new row carries the event name in anchor_column, the copied columns, n/a elsewhere;
   remove_parent_row: "If true, the original row that was split is removed".  Rows are in onset order.
   :raises ValueError (onset/duration column missing), TypeError (bad onset or duration item). *)
SplitRows(p, t) ==
  LET a == p.anchor_column
      evs == p.new_events
      R == t.rows
      n == Len(R)
      Item(x, r) == IF IsNum(x) THEN Num(x) ELSE NumOrNaN(r[x])
      Sum(items, r, base) == LET v == [j \in DOMAIN items |-> Item(items[j], r)]
                             IN IF base = NaN \/ NaN \in Range(v) THEN NaN ELSE base + SumSeq(v)
      BadItem(items) == \E j \in DOMAIN items : ~IsNum(items[j]) /\ items[j] \notin Cols(t)
      Copy(e) == IF Has(e, "copy_columns") THEN Range(e.copy_columns) ELSE {}
      ncols == IF a \in Cols(t) THEN t.cols ELSE Append(t.cols, a)
      all == Range(ncols)
  IN
  IF "onset" \notin Cols(t) \/ "duration" \notin Cols(t) THEN Err("ValueError")
  ELSE IF \E k \in DOMAIN evs : BadItem(evs[k].onset_source) \/ BadItem(evs[k].duration) THEN Err("TypeError")
  ELSE IF \E k \in DOMAIN evs : ~(Copy(evs[k]) \subseteq Cols(t)) \/ Copy(evs[k]) \cap {"onset", "duration", a} # {} THEN Undef
  ELSE IF ~Distinct([k \in DOMAIN evs |-> evs[k].name]) THEN Undef
  ELSE
  LET Parent(i) == [x \in all |-> IF x \in Cols(t) THEN R[i][x] ELSE NA]
      On(e, i) == Sum(e.onset_source, R[i], NumOrNaN(R[i]["onset"]))
      Child(e, i) == [x \in all |->
                        IF x = "onset" THEN Str(On(e, i))
                        ELSE IF x = "duration" THEN Str(Sum(e.duration, R[i], 0))
                        ELSE IF x = a THEN e.name
                        ELSE IF x \in Copy(e) THEN R[i][x] ELSE NA]
      Children(e) == AtIdx([i \in 1..n |-> Child(e, i)], {i \in 1..n : On(e, i) # NaN})   \* no onset, no row
      parents == IF p.remove_parent_row THEN <<>> ELSE [i \in 1..n |-> Parent(i)]
      rows == parents \o Flatten([k \in DOMAIN evs |-> Children(evs[k])])
      N == Len(rows)
      \* stable sort by onset: position of row i = number of rows strictly before it
      \* (a kept parent row without a numeric onset sorts after all rows that have one, its onset stays n/a)
      OnNum(r) == IF IsNum(r["onset"]) THEN Num(r["onset"]) ELSE MaxNum + 1
      Before(j, i) == LET oj == OnNum(rows[j]) oi == OnNum(rows[i]) IN oj < oi \/ (oj = oi /\ j < i)
      Pos(i) == 1 + Cardinality({j \in 1..N : Before(j, i)})
      sorted == [q \in 1..N |-> rows[CHOOSE i \in 1..N : Pos(i) = q]]
  IN [Ok(ncols, sorted) EXCEPT !.u = \E q \in 1..(N - 1) : sorted[q]["onset"] = sorted[q + 1]["onset"]
                                                             /\ sorted[q] # sorted[q + 1]]

Apply(o, t) ==
  CASE o.op = "remove_rows" -> RemoveRows(o, t)
    [] o.op = "remove_columns" -> RemoveColumns(o, t)
    [] o.op = "rename_columns" -> RenameColumns(o, t)
    [] o.op = "reorder_columns" -> ReorderColumns(o, t)
    [] o.op = "factor_column" -> FactorColumn(o, t)
    [] o.op = "remap_columns" -> RemapColumns(o, t)
    [] o.op = "merge_consecutive" -> MergeConsecutive(o, t)
    [] o.op = "split_rows" -> SplitRows(o, t)

(* ======================= PART 2: validation ======================= *)

(* The JSON specification (PARAMS) of each operation:
   t = JSON type ("strnum" = string or number), req = required, min = minItems/minProperties,
   uniq = uniqueItems, item = type of the array items / object values. *)
PS(t, req, min, uniq, item) == [t |-> t, req |-> req, min |-> min, uniq |-> uniq, item |-> item]
PSpec == [
  remove_rows |-> [column_name |-> PS("string", TRUE, 0, FALSE, ""),
                   remove_values |-> PS("array", TRUE, 1, TRUE, "strnum")],
  remove_columns |-> [column_names |-> PS("array", TRUE, 1, TRUE, "string"),
                      ignore_missing |-> PS("boolean", TRUE, 0, FALSE, "")],
  rename_columns |-> [column_mapping |-> PS("object", TRUE, 1, FALSE, "string"),
                      ignore_missing |-> PS("boolean", TRUE, 0, FALSE, "")],
  reorder_columns |-> [column_order |-> PS("array", TRUE, 1, TRUE, "string"),
                       ignore_missing |-> PS("boolean", TRUE, 0, FALSE, ""),
                       keep_others |-> PS("boolean", TRUE, 0, FALSE, "")],
  factor_column |-> [column_name |-> PS("string", TRUE, 0, FALSE, ""),
                     factor_names |-> PS("array", FALSE, 1, TRUE, "string"),
                     factor_values |-> PS("array", FALSE, 1, TRUE, "string")],
  remap_columns |-> [source_columns |-> PS("array", TRUE, 1, FALSE, "string"),
                     destination_columns |-> PS("array", TRUE, 1, FALSE, "string"),
                     map_list |-> PS("array", TRUE, 1, TRUE, "array"),
                     ignore_missing |-> PS("boolean", TRUE, 0, FALSE, ""),
                     integer_sources |-> PS("array", FALSE, 1, TRUE, "string")],
  merge_consecutive |-> [column_name |-> PS("string", TRUE, 0, FALSE, ""),
                         event_code |-> PS("strnum", TRUE, 0, FALSE, ""),
                         match_columns |-> PS("array", FALSE, 0, FALSE, "string"),
                         set_durations |-> PS("boolean", TRUE, 0, FALSE, ""),
                         ignore_missing |-> PS("boolean", TRUE, 0, FALSE, "")],
  split_rows |-> [anchor_column |-> PS("string", TRUE, 0, FALSE, ""),
                  new_events |-> PS("object", TRUE, 1, FALSE, "object"),
                  remove_parent_row |-> PS("boolean", TRUE, 0, FALSE, "")]
]
\* the objects inside split_rows.new_events
EvSpec == [onset_source |-> PS("array", TRUE, 1, FALSE, "strnum"),
           duration |-> PS("array", TRUE, 1, FALSE, "strnum"),
           copy_columns |-> PS("array", FALSE, 1, TRUE, "string")]
OpNames == DOMAIN PSpec
ParamNames(op) == DOMAIN PSpec[op]

(* A generated operation record carries  fault = [f, p]: a structural deviation from the JSON specification
   that the concretiser applies to the JSON text.  f:
     "none"
     "missing"   parameter p left out          "wrongtype" value of p replaced by one of another JSON type
     "empty"     array/object p emptied        "dup"       first item of array p repeated
     "baditem"   an item of p of a wrong type  "extra"     an unknown parameter added
     "ev-missing"/"ev-empty"/"ev-dup"/"ev-wrongtype"/"ev-extra"   the same inside the first new_events object
     item level: "no-operation" "no-description" "no-parameters" "extra-field" "unknown-operation"
                 "params-not-object" "op-not-dict"                                                   *)
NoFault == [f |-> "none", p |-> ""]
ItemFaults == {"no-operation", "no-description", "no-parameters", "extra-field", "unknown-operation",
               "params-not-object", "op-not-dict"}
Drop(r, f) == [x \in DOMAIN r \ {f} |-> r[x]]

\* does the fault make the JSON text violate the specification ?
FaultInvalid(o) ==
  LET f == o.fault.f
      p == o.fault.p
      S == PSpec[o.op]
  IN CASE f = "none" -> FALSE
       [] f = "missing" -> S[p].req \/ (o.op = "factor_column" /\ p = "factor_values" /\ Has(o, "factor_names"))  \* dependentRequired
       [] f = "wrongtype" -> TRUE
       [] f = "baditem" -> TRUE
       [] f = "extra" -> TRUE                                 \* additionalProperties: false
       [] f = "empty" -> S[p].min >= 1
       [] f = "dup" -> S[p].uniq
       [] f = "ev-missing" -> EvSpec[p].req
       [] f = "ev-wrongtype" -> TRUE
       [] f = "ev-extra" -> TRUE
       [] f = "ev-empty" -> EvSpec[p].min >= 1
       [] f = "ev-dup" -> EvSpec[p].uniq
       [] f \in ItemFaults -> TRUE

\* the parameters as they are after a fault that leaves the text well-typed
Eff(o) ==
  LET f == o.fault.f
      p == o.fault.p
  IN CASE f = "missing" /\ Has(o, p) -> Drop(o, p)
       [] f = "empty" -> [o EXCEPT ![p] = <<>>]
       [] f = "dup" -> [o EXCEPT ![p] = Append(@, @[1])]
       [] f = "ev-missing" /\ Has(o.new_events[1], p) -> [o EXCEPT !.new_events[1] = Drop(@, p)]
       [] f = "ev-empty" -> [o EXCEPT !.new_events[1][p] = <<>>]
       [] f = "ev-dup" -> [o EXCEPT !.new_events[1][p] = Append(@, @[1])]
       [] OTHER -> o

(* per-operation rules "beyond that captured in json schema" (validate_input_data) *)
OpRulesOK(o) ==
  CASE o.op = "factor_column" ->
         /\ Has(o, "factor_names") => Has(o, "factor_values")
         /\ (Has(o, "factor_names") /\ Has(o, "factor_values")) => Len(o.factor_names) = Len(o.factor_values)
    [] o.op = "remap_columns" ->
         /\ \A m \in Range(o.map_list) : Len(m) = Len(o.source_columns) + Len(o.destination_columns)
         /\ Has(o, "integer_sources") => Range(o.integer_sources) \subseteq Range(o.source_columns)
    [] o.op = "merge_consecutive" ->
         Has(o, "match_columns") => o.column_name \notin Range(o.match_columns)
    [] OTHER -> TRUE

ValidOp(o) == ~FaultInvalid(o) /\ OpRulesOK(Eff(o))
\* "at least 1 operation"; every operation valid
Valid(os) == Len(os) >= 1 /\ \A i \in DOMAIN os : ValidOp(os[i])
\* the positions the messages must talk about
BadOps(os) == {i \in DOMAIN os : ~ValidOp(os[i])}

(* ======================= PART 3: the dispatcher ======================= *)

VARIABLES ops,    \* the operation objects held by the dispatcher (parameter values cached at construction)
          tabs,   \* the files
          hist,   \* <<[f, res]>>: file processed, outcome
          ops0, tabs0   \* what the caller passed in (never assigned again: the yardstick)
vars == <<ops, tabs, hist, ops0, tabs0>>

(* One operation step: the outcome and the operation object afterwards.  The documented design
   leaves the object alone.  `Leaky` models an operation that keeps what it computed for this file. *)
Step(o, t) ==
  LET r == Apply(o, t)
  IN [res |-> r,
      op |-> IF Leaky /\ o.op = "reorder_columns" /\ o.keep_others /\ r.k = "ok"
             THEN [o EXCEPT !.column_order = r.cols] ELSE o]

\* the pipeline: every operation on the result of the previous one; an error ends it
RECURSIVE Pipe(_, _, _)
Pipe(os, i, acc) ==      \* acc = [res, ops]
  IF i > Len(os) \/ acc.res.k # "ok" THEN acc
  ELSE LET s == Step(acc.ops[i], [cols |-> acc.res.cols, rows |-> acc.res.rows])
           \* an operation whose result depends on the row order, after rows were left in a free order
           free == acc.res.u /\ (acc.ops[i].op = "merge_consecutive"
                                  \/ (acc.ops[i].op = "factor_column" /\ ~Has(acc.ops[i], "factor_values")))
       IN Pipe(os, i + 1, [res |-> [Detail(s.res, acc.res.d \/ free) EXCEPT !.u = @ \/ (acc.res.u /\ s.res.k = "ok")],
                           ops |-> [acc.ops EXCEPT ![i] = s.op]])
RunAll(os, t) == Pipe(os, 1, [res |-> OkT(t), ops |-> os])
\* a fresh dispatcher on the caller's list
Pure(os, t) == RunAll([i \in DOMAIN os |-> Eff(os[i])], t).res

Init == /\ ops0 \in OpLists /\ tabs0 \in TableTuples
        /\ (~Valid(ops0) => tabs0 = CHOOSE t \in TableTuples : TRUE)   \* (one copy of a list that never runs is enough)
        /\ ops = [i \in DOMAIN ops0 |-> Eff(ops0[i])]      \* parse_operations
        /\ tabs = tabs0 /\ hist = <<>>

Run(f) == /\ Valid(ops0)                       \* a list that fails validation is never executed
          /\ Len(hist) < MaxRuns
          /\ LET r == RunAll(ops, tabs[f])
             IN /\ ops' = r.ops
                /\ hist' = Append(hist, [f |-> f, res |-> r.res])
          /\ UNCHANGED <<tabs, ops0, tabs0>>

Next == \E f \in DOMAIN tabs : Run(f)
Spec == Init /\ [][Next]_vars

(* ---- properties ---- *)
ParamsConstant == ops = [i \in DOMAIN ops0 |-> Eff(ops0[i])]
InputUnchanged == tabs = tabs0
OrderIndependent == \A i \in DOMAIN hist : hist[i].res = Pure(ops0, tabs0[hist[i].f])
InvalidNeverExecutes == ~Valid(ops0) => hist = <<>>
\* the outcomes of the specification itself are well-formed tables
WellFormed(r) == r.k = "ok" => /\ Distinct(r.cols)
                               /\ \A i \in DOMAIN r.rows : DOMAIN r.rows[i] = Range(r.cols)
ResultsWellFormed == \A i \in DOMAIN hist : WellFormed(hist[i].res)
\* a valid list only fails for a documented reason: a named column that is absent (and not ignored),
\* or a key that the map does not hold (ignore_missing false)
RECURSIVE Named(_)
NamedCols(o) ==
  CASE o.op = "remove_rows" -> {o.column_name}
    [] o.op = "remove_columns" -> Range(o.column_names)
    [] o.op = "rename_columns" -> {m[1] : m \in Range(o.column_mapping)}
    [] o.op = "reorder_columns" -> Range(o.column_order)
    [] o.op = "factor_column" -> {o.column_name}
    [] o.op = "remap_columns" -> Range(o.source_columns)
    [] o.op = "merge_consecutive" -> {o.column_name} \cup (IF Has(o, "match_columns") THEN Range(o.match_columns) ELSE {})
                                     \cup (IF o.set_durations THEN {"onset", "duration"} ELSE {})
    [] o.op = "split_rows" -> {"onset", "duration"} \cup UNION {
           {x \in Range(o.new_events[k].onset_source) \cup Range(o.new_events[k].duration) : ~IsNum(x)}
           \cup (IF Has(o.new_events[k], "copy_columns") THEN Range(o.new_events[k].copy_columns) ELSE {})
           : k \in DOMAIN o.new_events}
Named(os) == IF os = <<>> THEN {} ELSE NamedCols(os[1]) \cup Named(Tail(os))
ValidImpliesRuns ==
  \A i \in DOMAIN hist :
     (Len(ops0) = 1 /\ hist[i].res.k = "err")
        => \/ ~(NamedCols(Eff(ops0[1])) \subseteq Cols(tabs0[hist[i].f]))
           \/ (ops0[1].op = "remap_columns" /\ ~ops0[1].ignore_missing)
=============================================================================
