CONSTANTS
  MaxN = 4
  Kinds <- KindsDef
  SFlaws <- SFlawsDef
SPECIFICATION Spec
INVARIANT RepeatFound
INVARIANT GrammarSound
