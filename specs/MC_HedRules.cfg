CONSTANTS
  MaxN = 4
  Kinds <- KindsDef
  Bases <- BasesEmpty
  MaxSteps = 99
  DUP = FALSE
  SFlaws <- SFlawsDef
SPECIFICATION Spec
INVARIANT RepeatFound
INVARIANT GrammarSound
