CONSTANTS
  OpLists <- SmallOpLists
  TableTuples <- SmallTuples
  MaxRuns = 3
  Leaky = TRUE
SPECIFICATION Spec
INVARIANT OrderIndependent
