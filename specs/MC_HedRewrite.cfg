CONSTANTS
  MaxN = 4
  Kinds <- KindsDef
  DUP = FALSE
  SFlaws <- SFlawsDef
SPECIFICATION Spec
INVARIANT SwapInvariant
INVARIANT GroupSwapInvariant
