---- MODULE MC_HedText ----
(* Model configurations for HedText: exhaustive design runs, sensitivity runs, and case
   generation (one JSON line per text with everything the DECLARATIVE definition prescribes). *)
EXTENDS HedText, Json, IOUtils
\* --- case generation, sharded by a two-character prefix handed over in the environment
PfxStr == IOEnv.GEN_PREFIX
Pfx == [j \in 1..Len(PfxStr) |-> SubSeq(PfxStr, j, j)]
GenInit == /\ IF IOEnv.GEN_SHORT = "1"
              THEN \E n \in 0..(Len(PfxStr) - 1) : src \in [1..n -> Alpha]
              ELSE \E n \in 0..(N - Len(PfxStr)) : \E r \in [1..n -> Alpha] : src = Pfx \o r
           /\ phase = "gen" /\ i = 0 /\ spacing = 0 /\ found = TRUE /\ tagStart = None /\ lastEnd = 0
           /\ out = <<>> /\ tk = 0 /\ stack = <<>> /\ tree = <<>> /\ rejected = FALSE
GenNext == UNCHANGED vars
GenSpec == GenInit /\ [][GenNext]_vars
RECURSIVE Str(_)
Str(s) == IF s = <<>> THEN "" ELSE s[1] \o Str(Tail(s))
\* [text, balanced, tags <<a,b>> (token level, defined for every text), flat tags <<a,b,parent>>,
\*  flat groups <<a,b,parent>>, print template]   -- the last three only for balanced texts
Emit == LET bal == Balanced(src)
            F == IF bal THEN DeclFlat(src) ELSE [tags |-> <<>>, groups |-> <<>>]
        IN PrintT("@@EMIT@@" \o ToJson(<<Str(src), bal, DeclTags(src), F.tags, F.groups,
                                         PrintTpl(DeclTree(src))>>))
====
