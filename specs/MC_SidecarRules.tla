---- MODULE MC_SidecarRules ----
EXTENDS SidecarRules, Json

\* ---- alphabets of the arbitrary grammar
KeysFull  == <<"HED", "Levels", "Description", "n/a", "colA", "colB", "other">>
KeysSmall == <<"HED", "n/a", "colA", "colB">>
\* validHed, hedWithHash, hedWithRef(colA), hedWithRef(colB), hedWithBadBraces, emptyStr, number, bool, null
ScalarsFull  == {Str(0, "", "ok"), Str(1, "", "ok"), Str(0, "colA", "ok"), Str(0, "colB", "ok"),
                 Str(0, "", "open"), EStr, Num, Bool, Null}
ScalarsSmall == {Str(0, "", "ok"), Str(1, "colB", "ok"), Num, Null}

\* ---- base sidecars for the fault layer: columns colA / colB, each a value column, a categorical
\* column with one or two categories, an ignored column or a column of definitions
RefChoices == {"", "HED", "colA", "colB"}
S0 == Str(0, "", "ok")
HedEntry(x) == Obj(<< <<"HED", x>> >>)
WithDescription(e) == [e EXCEPT !.m = << <<"Description", S0>> >> \o e.m]
WithLevels(e) == [e EXCEPT !.m = e.m \o << <<"Levels", Obj(<< <<"other", S0>> >>)>> >>]
ValueCols == {HedEntry(Str(1, r, "ok")) : r \in RefChoices}
Cat1Cols  == {HedEntry(Obj(<< <<"other", Str(0, r, "ok")>> >>)) : r \in RefChoices}
Cat2Cols(R) == {HedEntry(Obj(<< <<"other", Str(0, r, "ok")>>, <<"Description", Str(0, q, "ok")>> >>)) : r \in R, q \in R}
IgnoreCols == {Obj(<< <<"Description", S0>> >>), Obj(<<>>), Obj(<< <<"Levels", List(<<Num, S0>>)>> >>),
               S0, Num, Null, List(<<Num, S0>>)}            \* entries that are not objects ("TaskName": "rest")
DefCols   == {HedEntry(Obj(<< <<"other", DefStr>> >>)), HedEntry(Obj(<< <<"other", DefStr>>, <<"Description", DefStr>> >>))}
EntriesFull == ValueCols \cup Cat1Cols \cup Cat2Cols(RefChoices) \cup IgnoreCols \cup DefCols
               \cup {WithDescription(e) : e \in ValueCols} \cup {WithLevels(e) : e \in Cat1Cols}
EntriesSmall == {HedEntry(Str(1, r, "ok")) : r \in {"", "colB"}}
                \cup {HedEntry(Obj(<< <<"other", Str(0, r, "ok")>> >>)) : r \in {"", "HED"}}
                \cup Cat2Cols({""}) \cup {Obj(<< <<"Description", S0>> >>)}
Docs(E) == {Obj(<< <<"colA", e>> >>) : e \in E} \cup {Obj(<< <<"colA", e>>, <<"colB", g>> >>) : e \in E, g \in E}
BasesFull  == Docs(EntriesFull) \cup {Obj(<<>>)}
BasesSmall == Docs(EntriesSmall)
RefNamesDef == {"colA", "colB", "other"}
NoBases == {}

\* ---- emission: compact encoding of the document + the verdict of the specification
RECURSIVE Enc(_)
Enc(v) == IF v.t = "str" THEN "S|" \o ToString(v.h) \o "|" \o v.r \o "|" \o v.b \o "|" \o (IF v.d THEN "1" ELSE "0")
          ELSE IF v.t = "list" THEN [l |-> [i \in Idx(v) |-> Enc(v.m[i][2])]]
          ELSE IF v.t = "obj" THEN [o |-> [i \in Idx(v) |-> <<v.m[i][1], Enc(v.m[i][2])>>]]
          ELSE v.t
Emit == LET v == Verdict(doc) IN
        PrintT("@@EMIT@@" \o ToJson([doc |-> Enc(doc), cls |-> v.cls, why |-> v.why, broken |-> v.broken,
                                     codes |-> v.codes, at |-> v.at, faults |-> faults]))
====
