---- MODULE MC_SchemaFiles ----
EXTENDS SchemaFiles, Json
\* the variants the driver binds to bundled schemas (it checks these emptiness patterns against get_as_dataframes):
\*   libM / libU  a partnered library saved merged / unmerged        std  the newest standard schema (all tables have rows)
\*   oldM         a library partnered with an older standard schema, merged (no annotation / data property rows)
VariantsDef == {"libM", "libU", "std", "oldM", "oldU"}
LibOnly == {"Structure", "Tag"}
NoProps == Tables \ {"AnnotationProperty", "DataProperty"}
RowsDef == [v \in VariantsDef |-> CASE v = "libM" -> Tables [] v = "std" -> Tables
                                   [] v = "libU" -> LibOnly [] v = "oldU" -> LibOnly [] v = "oldM" -> NoProps]
Variants3 == {"libM", "libU", "oldM"}
Rows3 == [v \in Variants3 |-> RowsDef[v]]
LocsOne == {"folder"}
LocsTwo == {"folder", "prefix"}
FmtsAll == {"tsv", "xml", "mediawiki"}
FmtsTsv == {"tsv"}
FmtsTwo == {"tsv", "xml"}
Variants2 == {"libM", "libU"}
Rows2 == [v \in Variants2 |-> RowsDef[v]]
\* one line per history: the saves, and per location / format what a load must return now
EmitHist == IF hist = <<>> THEN PrintT("@@EMIT@@" \o ToJson([rows |-> [v \in Variants |-> Rows[v]]]))
            ELSE PrintT("@@EMIT@@" \o ToJson(
    [hist |-> hist,
     expect |-> {[loc |-> l, fmt |-> f, variant |-> last[l][f],
                  tables |-> IF f = "tsv" THEN {<<t, LoadTsv(l)[t]>> : t \in Tables} ELSE {}] :
                    <<l, f>> \in {x \in Locs \X Fmts : last[x[1]][x[2]] # ABSENT}}]))
====
