CONSTANTS
  Keys <- Keys1
  Tgts <- TgtsDef
  KeyOrder <- Order1
  FedKeys <- Keys1
  MaxActs = 3
  MaxRows = 2
SPECIFICATION Spec
INVARIANT NeverRepeats
CHECK_DEADLOCK FALSE
