---- MODULE MC_Query ----
(* Bounded model configurations of Query.tla: abstract vocabulary, query universes,
   law invariants, case emission for the replay into hed-python. *)
EXTENDS Query, Json

\* ---- abstract vocabulary: "ra" and "rb" are two children of the schema node "p" whose short
\* forms share the prefix "r"; "c" is an unrelated tag; "v/x" is an unrelated value-taking tag "v"
\* written with the value "x".
AbsLabels == {"p", "ra", "rb", "c", "v/x"}
AbsTerms == [l \in AbsLabels |-> CASE l = "p" -> {"p"} [] l = "ra" -> {"p", "ra"} [] l = "rb" -> {"p", "rb"}
                                   [] l = "c" -> {"c"} [] l = "v/x" -> {"v"}]
L3 == {"ra", "rb", "c"}
L5 == AbsLabels

T(x) == [op |-> "term", t |-> x]
X(x) == [op |-> "exact", t |-> x]
P(x) == [op |-> "prefix", t |-> x]
W(i) == [op |-> "wild", t |-> i]
Desc(q) == [op |-> "desc", r |-> q]
XAny(q) == [op |-> "xany", r |-> q]
XOnly(q) == [op |-> "xonly", r |-> q]
XOpt(q, o) == [op |-> "xopt", r |-> q, l |-> o]

Un(k, q) == CASE k = 1 -> Not(q) [] k = 2 -> Desc(q) [] k = 3 -> XAny(q) [] k = 4 -> XOnly(q)
Bin(k, a, b) == IF k = 1 THEN And(a, b) ELSE Or(a, b)
\* ---- universes for the law invariants
Atoms == <<T("p"), T("ra"), T("c"), X("rb"), P("r")>>
AS == ToSet(Atoms)
Specials == {Not(Desc(T("p"))), Desc(Not(T("ra"))), And(Not(T("p")), Not(T("c"))), Desc(And(Not(T("p")), Not(T("c")))),
             XOpt(T("ra"), T("c")), XAny(And(T("p"), T("p"))), Desc(And(T("p"), T("c")))}
Q1Big == SetToSeq({q \in AS \cup {Not(a) : a \in AS} \cup {Desc(a) : a \in AS} \cup {XAny(a) : a \in AS}
                        \cup {XOnly(a) : a \in AS} \cup {W(i) : i \in 1..3} \cup Specials : WellFormed(q)})
Q1Small == SetToSeq({q \in AS \cup {Un(k, a) : k \in 1..4, a \in {T("p"), X("rb")}} \cup {W(i) : i \in 1..3}
                        \cup {Desc(And(Not(T("p")), Not(T("c")))), XOpt(T("ra"), T("c")), XAny(And(T("p"), T("p")))} : WellFormed(q)})
\* triples for associativity: atoms, negations, a wildcard, group operators
Q3Big == Atoms \o <<Not(T("c")), W(1), Desc(T("p")), XAny(T("ra")), Not(T("p"))>>
Q3Small == Atoms \o <<Not(T("c")), W(1)>>
Q1Tiny == Atoms \o <<Not(T("p")), Desc(T("p")), XAny(X("rb")), XOnly(T("ra")), W(1), XOpt(T("ra"), T("c")),
                       Desc(And(Not(T("p")), Not(T("c"))))>>
Q3Tiny == Atoms \o <<Not(T("c"))>>
CONSTANT USize        \* 1, 2, 3: size of the query universes of the law invariants
Q1 == CASE USize = 1 -> Q1Tiny [] USize = 2 -> Q1Small [] OTHER -> Q1Big
Q3 == CASE USize = 1 -> Q3Tiny [] USize = 2 -> Q3Small [] OTHER -> Q3Big

OrIff == LawOrIff(tree, Q1)
AndOnlyIfBoth == LawAndOnlyIfBoth(tree, Q1)
AndSymmetric == LawAndSymmetric(tree, Q1)
AndAssociative == LawAndAssociative(tree, Q3)
AndDistinctTags == LawAndDistinctTags(tree, Atoms)
SiblingOrderInvariant == LawSiblingOrder(tree, Q1)
\* vacuity guards (must be VIOLATED): some state has a matching && / a non-trivial sibling order
NeverAndMatch == ~\E a, b \in 1..Len(Atoms) : Match(tree, And(Atoms[a], Atoms[b]))
NeverReordered == SiblingOrders(tree) \subseteq {tree}

\* ---- universe for case generation (replayed into the real code)
GA == <<T("p"), T("ra"), T("c"), X("ra"), X("rb"), X("p"), P("r"), P("ra"), T("v"), X("v"), X("v/x"), P("v")>>
GW == <<W(1), W(2), W(3)>>
GB == <<T("p"), T("ra"), X("rb"), T("c"), P("r"), W(1)>>
GC == <<T("p"), T("ra"), T("c")>>
SA == ToSet(GA)  SW == ToSet(GW)  SB == ToSet(GB)  SC == ToSet(GC)
GenSet ==
    SA \cup SW
    \cup {Un(k, a) : k \in 1..4, a \in SA \cup SW}
    \cup {Bin(k, a, b) : k \in 1..2, a \in SB, b \in SB}
    \cup {XOpt(a, b) : a \in SB, b \in SB}
    \cup {Un(k, Bin(j, a, b)) : k \in 1..4, j \in 1..2, a \in SC, b \in SC}
    \cup {XOpt(Bin(j, a, b), c) : j \in 1..2, a \in SC, b \in SC, c \in SC}
    \cup {Bin(j, Un(k, a), b) : j \in 1..2, k \in 1..4, a \in SC, b \in SC}
    \cup {Bin(j, b, Un(k, a)) : j \in 1..2, k \in 1..4, a \in SC, b \in SC}
    \cup {Un(k, Un(j, a)) : k \in 1..4, j \in 1..4, a \in SC}
    \cup {Bin(j, Bin(k, a, b), c) : j \in 1..2, k \in 1..2, a \in SC, b \in SC, c \in SC}
    \cup {Bin(j, a, Bin(k, b, c)) : j \in 1..2, k \in 1..2, a \in SC, b \in SC, c \in SC}
    \cup {Desc(And(Not(a), Not(b))) : a \in SC, b \in SC}
GenQ == SetToSeq({q \in GenSet : WellFormed(q)})
\* smaller universe for the quick tier: everything up to one operator, a slice of depth 2
GenSmallSet ==
    SA \cup SW
    \cup {Un(k, a) : k \in 1..4, a \in SB}
    \cup {Bin(k, a, b) : k \in 1..2, a \in SB, b \in SB}
    \cup {XOpt(a, b) : a \in SC, b \in SC}
    \cup {Un(k, Bin(j, T("p"), b)) : k \in 1..4, j \in 1..2, b \in SC}
    \cup {Bin(j, Un(k, T("ra")), b) : j \in 1..2, k \in 1..4, b \in SC}
    \cup {Bin(j, Bin(k, T("p"), b), c) : j \in 1..2, k \in 1..2, b \in SC, c \in SC}
    \cup {Bin(j, T("p"), Bin(k, b, c)) : j \in 1..2, k \in 1..2, b \in SC, c \in SC}
GenSmallQ == SetToSeq({q \in GenSmallSet : WellFormed(q)})

\* one JSON line per annotation: the booleans of every query of the universe, and the pairs of
\* atoms (positions in G) that have no distinct-tag witness on this annotation
AtomIdx(G) == {i \in 1..Len(G) : G[i].op \in AtomOps}
EmitFor(G) == /\ (tree.n = 0 => PrintT("@@EMIT@@" \o ToJson([queries |-> G])))
              /\ PrintT("@@EMIT@@" \o ToJson([n |-> tree.n, par |-> tree.par, lab |-> tree.lab,
                     res |-> [i \in 1..Len(G) |-> Match(tree, G[i])],
                     nodw |-> {<<i, j>> \in AtomIdx(G) \X AtomIdx(G) : ~DistinctWitness(tree, G[i], G[j])}]))
EmitSmall == EmitFor(GenSmallQ)
\* group operators over operands that may sit at different depths
GenGroupSet ==
    {XOpt(a, b) : a \in SB, b \in SB}
    \cup {XOpt(Bin(j, a, b), c) : j \in 1..2, a \in SC, b \in SC, c \in SC}
    \cup {XOpt(a, Bin(j, b, c)) : j \in 1..2, a \in SC, b \in SC, c \in SC}
    \cup {Un(k, a) : k \in 2..4, a \in SB}
    \cup {Un(k, Bin(j, a, b)) : k \in 2..4, j \in 1..2, a \in SC, b \in SC}
    \cup {XOnly(Un(k, a)) : k \in 2..3, a \in SC}
    \cup {XOpt(Un(k, a), b) : k \in 2..3, a \in SC, b \in SC}
    \cup {XOpt(a, Un(k, b)) : k \in 2..3, a \in SC, b \in SC}
GenGroupQ == SetToSeq({q \in GenGroupSet : WellFormed(q)})
EmitGroup == EmitFor(GenGroupQ)
EmitFull == EmitFor(GenQ)

\* ---- query texts
AlphaFull == {"a", "?", "????", "&&", ",", "||", "~", "(", ")", "[", "]", "{", "}", ":", "[[", "]]", "$", "&"}
AlphaCore == {"a", "?", "&&", "||", "~", "(", ")", "[", "]", "{", "}", ":", "[["}
EmitText == PrintT("@@EMIT@@" \o ToJson([toks |-> toks,
                cases |-> [i \in 1..2 |-> LET s == JoinWith(toks, IF i = 1 THEN "" ELSE " ")
                                          IN [text |-> s, balanced |-> Balanced(s), strict |-> Accepts(s, FALSE),
                                              lenient |-> Accepts(s, TRUE), swallowed |-> Swallowed(s)]]]))
\* vacuity guards (must be VIOLATED)
NeverAccepts == \A s \in Texts : ~Accepts(s, FALSE)
NeverUnbalanced == \A s \in Texts : Balanced(s)
====
