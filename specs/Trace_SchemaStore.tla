---- MODULE Trace_SchemaStore ----
(* Validates what the real writers put into saved XML files against SchemaStore.tla at vocabulary scale:
   each recorded case is (a bundled schema as listed by its ORIGINAL XML file, read by vf/facts.py;
   merged or unmerged save; the saved XML file, read by vf/facts.py).  The specification's writer
   decision table says what the saved file must list (XmlSet, WUCs, WUnits, WOthers, header). *)
EXTENDS SchemaStore, Json, IOUtils
Data == JsonDeserialize(IOEnv.TRACE_FILE)
Pairs(q) == {<<q[i][1], q[i][2]>> : i \in 1..Len(q)}
SeqSet(q) == {q[i] : i \in 1..Len(q)}
TagOf(t) == [name |-> t.name, parent |-> t.parent, attrs |-> Pairs(t.attrs), desc |-> t.desc, val |-> t.val]
UCOf(t) == [name |-> t.name, attrs |-> Pairs(t.attrs), desc |-> t.desc]
UnitOf(t) == [name |-> t.name, uclass |-> t.uclass, attrs |-> Pairs(t.attrs), desc |-> t.desc]
OtherOf(t) == [name |-> t.name, sect |-> t.sect, attrs |-> Pairs(t.attrs), desc |-> t.desc]
HdrOf(h) == [library |-> h.library, withStandard |-> h.withStandard, unmerged |-> h.unmerged]
SchemaOf(j) == [hdr |-> HdrOf(j.hdr), tags |-> {TagOf(t) : t \in SeqSet(j.tags)}, ucs |-> {UCOf(t) : t \in SeqSet(j.ucs)},
                units |-> {UnitOf(t) : t \in SeqSet(j.units)}, others |-> {OtherOf(t) : t \in SeqSet(j.others)}]
Schemas == [k \in 1..Len(Data.schemas) |-> SchemaOf(Data.schemas[k])]      \* constant: evaluated once

\* the first clause in which the saved file differs from what the specification prescribes ("ok" if none)
Why(c) ==
  LET sc == Schemas[c.schema]
      m == c.merged
      sv == c.saved
      gotT == {[name |-> t.name, val |-> t.val, parent |-> t.parent, attrs |-> Pairs(t.attrs), desc |-> t.desc] : t \in SeqSet(sv.tags)}
      expUC == {[name |-> r.name, attrs |-> r.attrs, desc |-> r.desc] : r \in WUCs(sc, m, "xml")}
  IN IF ~CanSave(sc) THEN "saved-although-merged-from-several-libraries"
     ELSE IF HdrOf(sv.hdr) # [library |-> sc.hdr.library, withStandard |-> sc.hdr.withStandard, unmerged |-> ~EffMerged(sc, m)]
          THEN "header"
     ELSE IF gotT # XmlSet(sc, m)
          THEN (IF Names(gotT) # Names(XmlSet(sc, m)) THEN "tags-listed"
                ELSE IF \E a \in gotT : \E b \in XmlSet(sc, m) : a.name = b.name /\ a.parent # b.parent THEN "tag-parent"
                ELSE IF \E a \in gotT : \E b \in XmlSet(sc, m) : a.name = b.name /\ a.attrs # b.attrs THEN "tag-attributes"
                ELSE "tag-description")
     ELSE IF {UCOf(t) : t \in SeqSet(sv.ucs)} # expUC THEN "unit-classes"
     ELSE IF {UnitOf(t) : t \in SeqSet(sv.units)} # WUnits(sc, m) THEN "units"
     ELSE IF {OtherOf(t) : t \in SeqSet(sv.others)} # WOthers(sc, m) THEN "other-sections"
     ELSE "ok"
Detail(c) == LET sc == Schemas[c.schema]
                 gotT == {[name |-> t.name, val |-> t.val, parent |-> t.parent, attrs |-> Pairs(t.attrs), desc |-> t.desc] : t \in SeqSet(c.saved.tags)}
                 d == (gotT \ XmlSet(sc, c.merged)) \cup (XmlSet(sc, c.merged) \ gotT)
             IN IF d = {} THEN "" ELSE (CHOOSE e \in d : TRUE).name
TInit == edits = <<>> /\ s \in {k \in 1..Len(Data.cases) : TRUE}
TSpec == TInit /\ [][FALSE]_vars
Verdict == LET w == Why(Data.cases[s]) IN
           IF w = "ok" THEN PrintT(<<"ACCEPT", s>>) ELSE PrintT(<<"REJECT", s, w, Detail(Data.cases[s])>>)
====
