CONSTANTS
  TermsOf <- AbsTerms
  ShortOf <- AbsShort
  Variant = "ok"
  Labels <- L3
  MaxNodes = 3
  MaxDepth = 4
  Alphabet <- AlphaCore
  MaxToks = 1
  Gen <- Atoms
SPECIFICATION SpecTrees
INVARIANT NeverAndMatch
