CONSTANTS
  Names <- Names1
  K = 2
  Vals <- ValsDef
  MaxLen = 3
  None = NoneV
  NoneV = NoneV
SPECIFICATION Spec
INVARIANT CompleteTooStrong
CHECK_DEADLOCK FALSE
