---------------------------- MODULE EventCtx ----------------------------
(* Event processes and temporal context (property C20), as computed by
   hed.tools.analysis.event_manager.EventManager over a valid time-ordered events file.

   A history is built time point by time point.  At each time point the file may
     start a process by an Onset of a definition name   (ends a still-open process of that name),
     end one by an Offset                                (only legal if that name is open),
     start a process given by a Duration group           (ends at the first time point whose time is
                                                          >= start + duration, else lasts to the end),
     carry plain tags.
   Algorithm (what the code does, incrementally): `openp` = processes not yet ended (EventManager's
   onset_dict), `ctxs[j]` = context of time point j maintained while scanning.
   Declaration (what the property says): Context(j) = processes with start < j < end.
*)
EXTENDS Integers, Sequences, FiniteSets, TLC

CONSTANTS T,        \* max number of time points
          A,        \* max number of process-related actions in a history
          Keys,     \* definition names
          Gaps,     \* possible time steps between consecutive time points (ms)
          Durs      \* possible durations (ms)

VARIABLES times,    \* Seq(Nat)  time (ms) of each time point so far
          acts,     \* Seq(Seq(record)) actions of each time point
          procs,    \* Seq([kind, key, start, end, d])  end = 0: not ended (yet)
          openp,    \* [Keys -> 0 or proc id]
          ctxs,     \* Seq(SUBSET proc ids)  incremental context per time point
          usedk     \* names used at the current time point
vars == <<times, acts, procs, openp, ctxs, usedk>>

NT == Len(times)
NActs == Len(procs) + Cardinality({<<j, i>> \in (1..NT) \X (1..A) : i <= Len(acts[j]) /\ acts[j][i].a = "off"})

Init == /\ times = <<>> /\ acts = <<>> /\ procs = <<>> /\ openp = [k \in Keys |-> 0]
        /\ ctxs = <<>> /\ usedk = {}

\* a Duration process p is still running at absolute time t
DurRunning(p, t) == procs[p].kind = "dur" /\ times[procs[p].start] + procs[p].d > t

NewTP(g) ==
  /\ NT < T
  /\ LET t == IF NT = 0 THEN 0 ELSE times[NT] + g IN
       /\ times' = Append(times, t)
       /\ ctxs' = Append(ctxs, {p \in 1..Len(procs) :
                          \/ (procs[p].kind = "on" /\ procs[p].end = 0)
                          \/ (procs[p].kind = "dur" /\ times[procs[p].start] + procs[p].d > t)})
  /\ acts' = Append(acts, <<>>)
  /\ usedk' = {}
  /\ UNCHANGED <<procs, openp>>

AddAct(a) == acts' = [acts EXCEPT ![NT] = Append(@, a)]

Onset(k) ==
  /\ NT > 0 /\ NActs < A /\ k \notin usedk
  /\ LET old == openp[k]
         id == Len(procs) + 1 IN
       /\ procs' = Append(IF old = 0 THEN procs ELSE [procs EXCEPT ![old].end = NT],
                          [kind |-> "on", key |-> k, start |-> NT, end |-> 0, d |-> 0])
       /\ openp' = [openp EXCEPT ![k] = id]
       /\ ctxs' = [ctxs EXCEPT ![NT] = @ \ {old}]      \* a process ended here is not context here
       /\ AddAct([a |-> "on", key |-> k, id |-> id, d |-> 0])
  /\ usedk' = usedk \cup {k}
  /\ UNCHANGED times

Offset(k) ==
  /\ NT > 0 /\ NActs < A /\ k \notin usedk /\ openp[k] # 0
  /\ procs' = [procs EXCEPT ![openp[k]].end = NT]
  /\ ctxs' = [ctxs EXCEPT ![NT] = @ \ {openp[k]}]
  /\ openp' = [openp EXCEPT ![k] = 0]
  /\ AddAct([a |-> "off", key |-> k, id |-> openp[k], d |-> 0])
  /\ usedk' = usedk \cup {k}
  /\ UNCHANGED times

Duration(d) ==
  /\ NT > 0 /\ NActs < A
  /\ procs' = Append(procs, [kind |-> "dur", key |-> "", start |-> NT, end |-> 0, d |-> d])
  /\ AddAct([a |-> "dur", key |-> "", id |-> Len(procs) + 1, d |-> d])
  /\ UNCHANGED <<times, openp, ctxs, usedk>>

Next == \/ \E g \in Gaps : NewTP(g)
        \/ \E k \in Keys : Onset(k) \/ Offset(k)
        \/ \E d \in Durs : Duration(d)
Spec == Init /\ [][Next]_vars

----------------------------------------------------------------------
\* Declarative reading of the property
\* index of the time point at which process p ends; NT + 1 = lasts to the end of the file
EndIdx(p) ==
   IF procs[p].kind = "on" THEN (IF procs[p].end = 0 THEN NT + 1 ELSE procs[p].end)
   ELSE LET S == {j \in 1..NT : times[j] >= times[procs[p].start] + procs[p].d} IN
        IF S = {} THEN NT + 1 ELSE CHOOSE j \in S : \A i \in S : j <= i
Context(j) == {p \in 1..Len(procs) : procs[p].start < j /\ j < EndIdx(p)}
Started(j) == {p \in 1..Len(procs) : procs[p].start = j}

\* Downstream reading (hed_type.py, hed_type_factors.py, HedTypeManager): a type variable (Condition-variable/X) carried by the
\* content of a process - or by the definition its Def names - is "on" at a time point exactly when the process starts
\* there or is context there; its factor vector over the time points is therefore one unbroken run
Active(j) == Started(j) \cup Context(j)
ActiveIsRun == \A p \in 1..Len(procs) :
      {j \in 1..NT : p \in Active(j)} = {j \in 1..NT : procs[p].start <= j /\ (j < EndIdx(p) \/ j = procs[p].start)}
ContextExact == \A j \in 1..NT : ctxs[j] = Context(j)
\* a restarted process closes the previous one of that name at that very time point
RestartClosesPrevious == \A p, q \in 1..Len(procs) :
      (procs[p].kind = "on" /\ procs[q].kind = "on" /\ procs[p].key = procs[q].key /\ p < q)
         => (procs[p].end # 0 /\ procs[p].end <= procs[q].start)
\* at most one open process per name, and it is the one recorded as open
OpenConsistent == \A k \in Keys : openp[k] # 0 => procs[openp[k]].key = k /\ procs[openp[k]].end = 0
\* a process is never its own context and never context at or after its end
NeverOwnContext == \A j \in 1..NT : \A p \in ctxs[j] : procs[p].start < j
TypeOK == Len(times) = Len(acts) /\ Len(ctxs) = Len(times)
=======================================================================
