---- MODULE MC_Issues ----
EXTENDS Issues
====
