CONSTANTS
  Trees <- Trees1
  Chunks = 2
  LockChunks = 2
  TaskArgs <- TaskArgsSmall
  OpsIds <- Ops1
  MaxCrash = 0
  MaxCreate = 2
  MaxHist = 2
  MaxHistUnlisted = 1
  RECORD_FIRST = FALSE
  OVERWRITE = FALSE
  READ_LIVE = TRUE
SPECIFICATION Spec
VIEW View
INVARIANT RemodelFromOriginals
