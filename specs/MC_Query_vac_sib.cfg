CONSTANTS
  LabelTerms <- AbsTerms
  Variant = "ok"
  Labels <- L3
  MaxNodes = 3
  MaxDepth = 4
  Alphabet <- AlphaCore
  MaxToks = 1
  USize = 1
SPECIFICATION SpecTrees
INVARIANT NeverReordered
