\* design run, quick tier: every text up to length 6
CONSTANTS
  N = 6
  Bug = "none"
SPECIFICATION Spec
INVARIANT Tiling
INVARIANT TokenClasses
INVARIANT AlgoMatchesDecl
INVARIANT RejectIffUnbalanced
INVARIANT UnbalancedEmpty
INVARIANT TreeMatchesDecl
INVARIANT FlatMatchesDecl
INVARIANT TagSlices
INVARIANT GroupSpans
INVARIANT RoundTrip
INVARIANT PrintStable
CHECK_DEADLOCK TRUE
