---------------------------- MODULE Temporal ----------------------------
(* Onset / Offset / Inset scope bookkeeping of hed-python file validation (property C10).

   State of the validator while it walks a time-ordered events file:
     open  - definition names (case-folded, value included) whose scope is open
     used  - names already used by a marker of the CURRENT time point
   One action per temporal marker, mirroring
     OnsetValidator.validate_temporal_relations / _handle_onset_or_offset.
   A time point is what SpreadsheetValidator._run_onset_checks sees as one row after
   Delay splitting, onset sorting and equal-onset merging (df_util.split_delay_tags).
*)
EXTENDS Integers, Sequences, FiniteSets, TLC

CONSTANTS L,        \* maximum number of markers in a history
          Keys      \* definition names incl. value, e.g. {"a", "b/1", "b/2"}
Kinds == {"Onset", "Offset", "Inset"}

VARIABLES open, used, hist, errs
vars == <<open, used, hist, errs>>

\* ---- one marker: the transition function shared by the model and the trace spec ----
\* verdict of a marker given the state before it
Verdict(o, u, kind, key) == IF key \in u THEN "dup"
                            ELSE IF kind # "Onset" /\ key \notin o THEN "unmatched" ELSE "ok"
OpenAfter(o, u, kind, key) == IF Verdict(o, u, kind, key) # "ok" THEN o
                              ELSE IF kind = "Onset" THEN o \cup {key}
                              ELSE IF kind = "Offset" THEN o \ {key} ELSE o
\* NOTE: a duplicate use does not register the name again; an unmatched marker does register it
UsedAfter(u, key) == u \cup {key}

Init == open = {} /\ used = {} /\ hist = <<>> /\ errs = <<>>

Mark(kind, key, newtp) ==
  /\ Len(hist) < L
  /\ LET u == IF newtp THEN {} ELSE used IN
        /\ used' = UsedAfter(u, key)
        /\ open' = OpenAfter(open, u, kind, key)
        /\ errs' = Append(errs, Verdict(open, u, kind, key))
  /\ hist' = Append(hist, [k |-> kind, key |-> key, tp |-> newtp])

Next == \E kind \in Kinds, key \in Keys, newtp \in BOOLEAN :
           (Len(hist) = 0 => newtp) /\ Mark(kind, key, newtp)
Spec == Init /\ [][Next]_vars

----------------------------------------------------------------------
\* Declarative restatement over the history (what the property says), checked against the algorithm
\* index of the time point of marker i
RECURSIVE TpOf(_, _)
TpOf(h, i) == IF i = 0 THEN 0 ELSE TpOf(h, i - 1) + (IF h[i].tp THEN 1 ELSE 0)
\* marker i is an extra use: an earlier marker of the same time point has the same name
IsDup(h, i) == \E j \in 1..(i - 1) : TpOf(h, j) = TpOf(h, i) /\ h[j].key = h[i].key
\* effective markers = not duplicates and not unmatched ; open iff the last effective Onset/Offset is an Onset
RECURSIVE DeclOpen(_, _, _)
DeclOpen(h, i, key) ==    \* is `key` open after the first i markers
   IF i = 0 THEN FALSE
   ELSE LET before == DeclOpen(h, i - 1, key) IN
        IF h[i].key # key \/ IsDup(h, i) THEN before
        ELSE IF h[i].k = "Onset" THEN TRUE
        ELSE IF h[i].k = "Offset" THEN FALSE      \* closes if it was open, stays closed (and is unmatched) otherwise
        ELSE before
DeclVerdict(h, i) == IF IsDup(h, i) THEN "dup"
                     ELSE IF h[i].k # "Onset" /\ ~DeclOpen(h, i - 1, h[i].key) THEN "unmatched" ELSE "ok"

\* C10: unmatched exactly when no Onset of that name is open at that moment
UnmatchedIff == \A i \in 1..Len(hist) : errs[i] = DeclVerdict(hist, i)
OpenIsDecl == open = {k \in Keys : DeclOpen(hist, Len(hist), k)}
\* an Onset can never be unmatched; re-Onset of an open name is legal
OnsetNeverUnmatched == \A i \in 1..Len(hist) : hist[i].k = "Onset" => errs[i] # "unmatched"
\* one report per extra use
DupOncePerExtraUse == \A i \in 1..Len(hist) : (errs[i] = "dup") <=> IsDup(hist, i)
\* Inset never changes the set of open scopes
InsetKeepsOpen == [][\A key \in Keys : (\E newtp \in BOOLEAN : Mark("Inset", key, newtp)) => open' = open]_vars
TypeOK == open \subseteq Keys /\ used \subseteq Keys /\ Len(errs) = Len(hist)

View == <<open, used, Len(hist)>>
=======================================================================
