CONSTANTS
  Names <- Names1
  K = 2
  Vals <- ValsDef
  MaxLen = 3
  None = NoneV
  NoneV = NoneV
SPECIFICATION GenSpec
INVARIANT Emit
CHECK_DEADLOCK FALSE
