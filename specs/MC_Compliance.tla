---- MODULE MC_Compliance ----
(* Model configurations for Compliance.tla.
   MC_Compliance.cfg          every (fault kind, well-formed feature vector): Deterministic, SpecCodesOnly, WarningsOffOnlyErrors
   MC_Compliance_facts.cfg    every (fault kind, feature vector OCCURRING in a bundled schema): Covered; and per schema
                              DomainsClean / RangesDeclared / AllowedCharsKnown over the facts read from the XML by vf/facts.py
   MC_Compliance_overlap.cfg, MC_Compliance_gap.cfg   sensitivity: a broken table must violate Deterministic *)
EXTENDS Compliance, Json, IOUtils
ASSUME RowsUsed
\* --- broken tables
RulesOverlap == RulesDef \cup {Row("nonPositiveFactor", {"unit"}, {FALSE}, {"v83"}, AINV, ERR)}
RulesGap == {r \in RulesDef : ~(r.fault = "badDefaultUnits" /\ r.gens = {"v83"})}
\* --- facts of the bundled schemas:  [schemas |-> << [name, S, fvs, usage, chars] ... >>]
Facts == JsonDeserialize(IOEnv.FACTS_FILE)
NS == Len(Facts.schemas)
FInit == c \in UNION {[f : Faults, fv : Range(Facts.schemas[k].fvs), s : {k}] : k \in 1..NS}
FSpec == FInit /\ [][Next]_c
Sch == Facts.schemas[c.s]
SN == [k \in 1..NS |-> Norm(Facts.schemas[k].S)]      \* constant: evaluated once
SS == SN[c.s]
Covered == /\ WF(c.fv) /\ c.fv.gen = SS.gen
           /\ Applicable(c.f, c.fv) => Cardinality(Match(c.f, c.fv)) = 1
\* every attribute a released schema uses is declared for the section it is used in
DomainsClean == \A u \in Range(Sch.usage) : InDomain(SS, u.sec, u.attr)
\* in the 8.3 generation the existence rules are carried by the declared ranges of the attributes
HasProp(S, a, p) == a \in DOMAIN S.decl /\ p \in S.decl[a]
RangesDeclared == SS.gen = "v83" =>
     /\ HasProp(SS, "unitClass", "unitClassRange") /\ HasProp(SS, "valueClass", "valueClassRange")
     /\ HasProp(SS, "suggestedTag", "tagRange") /\ HasProp(SS, "relatedTag", "tagRange")
     /\ HasProp(SS, "defaultUnits", "unitRange") /\ HasProp(SS, "conversionFactor", "numericRange")
\* --- generation: the domain table of every bundled schema, as TLC computes it (the driver picks misplaced attributes from it)
GInit == c \in [f : {"undeclaredAttr"}, s : 1..NS,
                 fv : {[sec |-> x, ph |-> FALSE, kids |-> FALSE, sibs |-> FALSE, lib |-> FALSE, dep |-> FALSE, gen |-> "old"] : x \in Sections}]
GSpec == GInit /\ [][Next]_c
AllAttrs(S) == DOMAIN S.decl \cup S.props
Emit == PrintT("@@EMIT@@" \o ToJson([schema |-> Sch.name, sec |-> c.fv.sec,
                                     indomain |-> {a \in AllAttrs(SS) : InDomain(SS, c.fv.sec, a)}]))
AllowedCharsKnown == \A v \in Range(Sch.chars) : v \in AllowedCharNames \/ Len(v) = 1
====
