\* design: every history of <= 3 saves, 2 locations x 3 formats x 3 variants
CONSTANTS
  Variants <- Variants3
  Rows <- Rows3
  Locs <- LocsTwo
  Fmts <- FmtsAll
  MaxSaves = 3
  SKIP_EMPTY = FALSE
SPECIFICATION Spec
INVARIANT TypeOK
INVARIANT LoadSeesLastSave
PROPERTY OtherPlacesUntouched
