CONSTANTS
  MaxN = 9
  Kinds <- KindsTemporal
  Bases <- BasesEmpty
  MaxSteps = 99
  DUP = TRUE
  SFlaws <- SFlawsDef
SPECIFICATION Spec
INVARIANT EmitCopy
