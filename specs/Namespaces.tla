----------------------------- MODULE Namespaces -----------------------------
(* Library schemas and namespaces (property C13).

   A version list is a sequence of entries [prefix, version].  Entries with the same prefix are merged
   into one schema (only partnered libraries over the same standard version, without clashing tag
   names); different prefixes form a group that dispatches each tag by its prefix.
   V : [version -> [std (partner standard version or "" for a standard schema), lib (library name or "")]]
   Clash : set of {v1, v2} whose library-specific tag names intersect.
*)
EXTENDS Integers, Sequences, FiniteSets, TLC
CONSTANTS Vers, Std, Lib, Clash, Prefixes, GoodPrefixes, MaxLen
VARIABLES list
Init == list \in UNION {[1..m -> Prefixes \X Vers] : m \in 1..MaxLen}
Next == UNCHANGED list
Spec == Init /\ [][Next]_list
Idx == 1..Len(list)
Group(p) == {i \in Idx : list[i][1] = p}
PrefixOK(p) == p \in GoodPrefixes           \* empty or alphabetic
NoDup == \A i, j \in Idx : (i # j /\ list[i][1] = list[j][1]) => list[i][2] # list[j][2]
\* merging several schemas under one prefix: all partnered libraries over one standard version, no clash
Mergeable(p) == LET G == Group(p) IN
   Cardinality(G) > 1 => /\ \A i \in G : Std[list[i][2]] # ""
                         /\ \A i, j \in G : Std[list[i][2]] = Std[list[j][2]]
                         /\ \A i, j \in G : i # j => {list[i][2], list[j][2]} \notin Clash
Accept == /\ \A i \in Idx : PrefixOK(list[i][1])
          /\ NoDup
          /\ \A p \in Prefixes : Mergeable(p)
Why == IF ~(\A i \in Idx : PrefixOK(list[i][1])) THEN "bad-prefix"
       ELSE IF ~NoDup THEN "same-library-twice"
       ELSE IF ~(\A p \in Prefixes : Mergeable(p)) THEN "not-mergeable" ELSE "accept"
\* which prefixes the loaded result answers to, and to which version list each dispatches
Loaded == {list[i][1] : i \in Idx}
\* C13 dispatch: a tag with prefix p is judged by the schema(s) loaded under p; any other prefix is an error
Dispatch(p) == IF p \in Loaded THEN "schema" ELSE "prefix-error"
\* model properties
DispatchTotal == \A p \in Prefixes \cup {"zz"} : Dispatch(p) \in {"schema", "prefix-error"}
RefuseTwice == (\E i, j \in Idx : i # j /\ list[i] = list[j]) => ~Accept
RefuseClash == (\E i, j \in Idx : i # j /\ list[i][1] = list[j][1] /\ {list[i][2], list[j][2]} \in Clash) => ~Accept
=============================================================================
