CONSTANTS
  Rules <- RulesOverlap
SPECIFICATION Spec
INVARIANT Deterministic
