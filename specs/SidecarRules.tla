---------------------------- MODULE SidecarRules ----------------------------
(* Structural rules of a JSON sidecar (property C08).

   Part 1  JSON values.  V ::= scalar(kind) | list(V..) | object(key -> V), every value is a
           record of one uniform shape so that TLC can compare any two of them.
   Part 2  Column typing, transcribed from ColumnMetadata._detect_column_type (with and
           without its "basic validation").
   Part 3  The structural rules of the property statement, one predicate per rule, defined on
           EVERY object document (so that the rule set is total), the notion of a well-typed
           sidecar, and the verdict  arbitrary | clean | one-fault(rule, codes).
   Part 4  The bounded value grammar (depth, members per container, node budget).
   Part 5  Fault injection as actions on a clean sidecar; the invariants say that one
           injection falsifies exactly the rule it is named after.
*)
EXTENDS Integers, Sequences, FiniteSets, TLC

CONSTANTS Keys,        \* sequence of key names usable at every object position
          GScalars,    \* scalar values of the arbitrary grammar
          MaxDepth,    \* container nesting of the arbitrary grammar
          MaxNodes,    \* node budget of the arbitrary grammar (scalars + containers)
          Bases,       \* set of candidate base sidecars (the clean ones are the initial states)
          MaxFaults,   \* how many injections a behaviour may stack
          RefNames,    \* names a reference can be redirected to by an injection
          DropRule,    \* "" or a rule left out of the rule set (sensitivity runs)
          Mode         \* "faults": behaviours start from clean bases;  "grammar": one state per grammar document

VARIABLES doc,         \* the JSON document
          faults       \* sequence of injected fault names
vars == <<doc, faults>>

-----------------------------------------------------------------------------
\* Part 1: JSON values
\*   t : "str" | "estr" | "num" | "bool" | "null" | "list" | "obj"
\*   for t = "str":  h = number of '#' outside definitions (0..2), r = referenced column ("" none),
\*                   b = "ok" | "open" | "close"  (an unmatched brace besides the reference),
\*                   d = the string is a definition with a placeholder
\*   m : members as a sequence of <<key, value>> (key "" for list members), in document order
Mk(t, h, r, b, d, m) == [t |-> t, h |-> h, r |-> r, b |-> b, d |-> d, m |-> m]
Str(h, r, b) == Mk("str", h, r, b, FALSE, <<>>)
DefStr       == Mk("str", 0, "", "ok", TRUE, <<>>)
EStr         == Mk("estr", 0, "", "ok", FALSE, <<>>)
Num          == Mk("num", 0, "", "ok", FALSE, <<>>)
Bool         == Mk("bool", 0, "", "ok", FALSE, <<>>)
Null         == Mk("null", 0, "", "ok", FALSE, <<>>)
List(vs)     == Mk("list", 0, "", "ok", FALSE, [i \in 1..Len(vs) |-> <<"", vs[i]>>])
Obj(ps)      == Mk("obj", 0, "", "ok", FALSE, ps)

IsObj(v)  == v.t = "obj"
IsList(v) == v.t = "list"
IsStr(v)  == v.t \in {"str", "estr"}             \* a JSON string (possibly empty)
Idx(v)    == 1..Len(v.m)
Has(v, k) == IsObj(v) /\ \E i \in Idx(v) : v.m[i][1] = k
Get(v, k) == v.m[CHOOSE i \in Idx(v) : v.m[i][1] = k][2]
Vals(v)   == {v.m[i][2] : i \in Idx(v)}
RawHash(s) == s.h + (IF s.d THEN 2 ELSE 0)        \* '#' characters actually present in the text

RECURSIVE MentionsHED(_)
MentionsHED(v) == \/ Has(v, "HED")
                  \/ (IsObj(v) \/ IsList(v)) /\ \E i \in Idx(v) : MentionsHED(v.m[i][2])

RECURSIVE Depth(_)
Depth(v) == IF ~(IsObj(v) \/ IsList(v)) THEN 0
            ELSE 1 + (IF Len(v.m) = 0 THEN 0
                      ELSE CHOOSE x \in {Depth(v.m[i][2]) : i \in Idx(v)} :
                              \A y \in {Depth(v.m[i][2]) : i \in Idx(v)} : y <= x)
RECURSIVE Nodes(_)
RECURSIVE SumNodes(_, _)
SumNodes(v, i) == IF i = 0 THEN 0 ELSE Nodes(v.m[i][2]) + SumNodes(v, i - 1)
Nodes(v) == 1 + SumNodes(v, Len(v.m))

-----------------------------------------------------------------------------
\* Part 2: column typing as the code does it (e = the value stored under a column name)
ColType(e, basic) ==
    IF ~IsObj(e) \/ Len(e.m) = 0 \/ ~Has(e, "HED") THEN "ignore"
    ELSE LET x == Get(e, "HED") IN
         IF IsObj(x) THEN (IF basic /\ \E v \in Vals(x) : ~IsStr(v) THEN "unknown" ELSE "categorical")
         ELSE IF ~IsStr(x) THEN "unknown"
         ELSE IF basic /\ RawHash(x) = 0 THEN "unknown"
         ELSE "value"

\* the annotation strings of a column (what gets parsed), as <<category key or "", string>>
HedSites(e) == LET ty == ColType(e, FALSE) IN
    IF ty = "value" THEN {<<"", Get(e, "HED")>>}
    ELSE IF ty = "categorical"
         THEN LET x == Get(e, "HED") IN {<<x.m[j][1], x.m[j][2]>> : j \in {k \in Idx(x) : IsStr(x.m[k][2])}}
         ELSE {}
HedStrings(e) == {p[2] : p \in HedSites(e)}
RefsOf(e) == {s.r : s \in HedStrings(e)} \ {""}

Cols(D)      == Idx(D)
Name(D, i)   == D.m[i][1]
Entry(D, i)  == D.m[i][2]
HedBearing(D, name) == \E i \in Cols(D) : Name(D, i) = name /\ Has(Entry(D, i), "HED")

-----------------------------------------------------------------------------
\* Part 3: the structural rules.  BrokenAt(f, D) = the places <<column name, category key or "">>
\* where rule f is broken in the object document D; the rule holds iff that set is empty.
Rules == {"hedType", "valueOneHash", "catNoHash", "hedNotColumn", "naNotKey",
          "refBalanced", "refKnown", "refNotSelf", "refNotNested"}

BrokenAt(f, D) ==
  CASE f = "hedType" ->          \* HED entries are strings or string-valued maps
         {<<Name(D, i), "">> : i \in {c \in Cols(D) : Has(Entry(D, c), "HED")
                                                       /\ ~IsStr(Get(Entry(D, c), "HED"))
                                                       /\ ~IsObj(Get(Entry(D, c), "HED"))}}
         \cup UNION {LET x == Get(Entry(D, i), "HED") IN
                        {<<Name(D, i), x.m[j][1]>> : j \in {k \in Idx(x) : ~IsStr(x.m[k][2])}}
                     : i \in {c \in Cols(D) : ColType(Entry(D, c), FALSE) = "categorical"}}
    [] f = "valueOneHash" ->     \* a value column has exactly one '#'
         {<<Name(D, i), "">> : i \in {c \in Cols(D) : ColType(Entry(D, c), FALSE) = "value"
                                                       /\ Get(Entry(D, c), "HED").h # 1}}
    [] f = "catNoHash" ->        \* a categorical entry has none
         UNION {{<<Name(D, i), p[1]>> : p \in {q \in HedSites(Entry(D, i)) : q[2].h # 0}}
                : i \in {c \in Cols(D) : ColType(Entry(D, c), FALSE) = "categorical"}}
    [] f = "hedNotColumn" ->     \* HED is not a column name
         {<<Name(D, i), "">> : i \in {c \in Cols(D) : Name(D, c) = "HED"}}
    [] f = "naNotKey" ->         \* n/a is not a category key
         {<<Name(D, i), "n/a">> : i \in {c \in Cols(D) : ColType(Entry(D, c), FALSE) = "categorical"
                                                          /\ Has(Get(Entry(D, c), "HED"), "n/a")}}
    [] f = "refBalanced" ->      \* curly braces are balanced
         UNION {{<<Name(D, i), p[1]>> : p \in {q \in HedSites(Entry(D, i)) : q[2].b # "ok"}} : i \in Cols(D)}
    [] f = "refKnown" ->         \* references name existing HED-bearing columns (or HED)
         UNION {{<<Name(D, i), p[1]>> : p \in {q \in HedSites(Entry(D, i)) :
                     q[2].r # "" /\ q[2].r # "HED" /\ ~HedBearing(D, q[2].r)}} : i \in Cols(D)}
    [] f = "refNotSelf" ->       \* ... are not self-referencing
         UNION {{<<Name(D, i), p[1]>> : p \in {q \in HedSites(Entry(D, i)) : q[2].r = Name(D, i)}} : i \in Cols(D)}
    [] f = "refNotNested" ->     \* ... and not nested: a referenced column holds no reference itself
         UNION {{<<Name(D, i), p[1]>> : p \in {q \in HedSites(Entry(D, i)) :
                     /\ q[2].r \notin {"", Name(D, i)}
                     /\ \E j \in Cols(D) : Name(D, j) = q[2].r /\ RefsOf(Entry(D, j)) # {}}} : i \in Cols(D)}

Broken(D) == {f \in Rules \ {DropRule} : BrokenAt(f, D) # {}}

\* codes under which the implementation may report a broken rule (error severity)
Codes(f) == CASE f \in {"valueOneHash", "catNoHash"} -> {"PLACEHOLDER_INVALID"}
              [] f \in {"hedNotColumn", "naNotKey"}  -> {"SIDECAR_INVALID"}
              [] f \in {"refBalanced", "refKnown", "refNotSelf", "refNotNested"} -> {"SIDECAR_BRACES_INVALID"}
              [] f = "hedType" -> {"SIDECAR_INVALID", "sidecarUnknownColumn", "wrongHedDataType", "blankValueString"}

\* A well-typed sidecar: a dictionary of dictionaries whose HED entries carry usable annotation
\* strings; outside it the statement only demands that validation returns.
\* (a column entry that is not an object - "TaskName": "rest", a number, a list - is an ignored column like an object
\*  without a HED key, as long as HED is not mentioned inside it; a BLANK HED string is a string without a placeholder)
WellTypedEntry(e) ==
    IF ~IsObj(e) THEN ~MentionsHED(e)
    ELSE
    /\ \A j \in Idx(e) : e.m[j][1] # "HED" => ~MentionsHED(e.m[j][2])     \* HED only where it belongs
    /\ Has(e, "HED") => LET x == Get(e, "HED") IN
                          /\ IsObj(x) => (Len(x.m) > 0 /\ \A v \in Vals(x) : v.t # "estr")
WellTyped(D) == IsObj(D) /\ \A i \in Cols(D) : WellTypedEntry(Entry(D, i))

\* why a document is in its class, from the well-typedness and the set of broken rules
WhyOf(D, wt, br) == IF ~IsObj(D) THEN "top-level-not-object"
                    ELSE IF ~wt /\ \E i \in Cols(D) : ~IsObj(Entry(D, i)) THEN "column-entry-not-object"
                    ELSE IF ~wt THEN "not-well-typed"
                    ELSE IF br = {} THEN "clean"
                    ELSE IF Cardinality(br) = 1 THEN "one-fault" ELSE "multi-fault"

Verdict(D) ==
    LET wt == WellTyped(D)
        br == IF IsObj(D) THEN Broken(D) ELSE {}
        w  == WhyOf(D, wt, br)
        f  == CHOOSE x \in br : TRUE
    IN  IF w = "clean" THEN [cls |-> "clean", why |-> w, broken |-> {}, codes |-> {}, at |-> {}]
        ELSE IF w = "one-fault"
             THEN [cls |-> "one-fault", why |-> w, broken |-> br, codes |-> Codes(f), at |-> BrokenAt(f, D)]
             ELSE [cls |-> "arbitrary", why |-> w, broken |-> br, codes |-> {}, at |-> {}]

-----------------------------------------------------------------------------
\* Part 4: bounded grammar: values of container depth <= MaxDepth with at most MaxNodes nodes,
\* at most 2 members per container, object keys in the order of Keys.
\* Ld_n = values of depth <= d with exactly n nodes.  They are written out as parameterless constant
\* definitions (TLC evaluates those once; a recursive operator or function would be re-evaluated at
\* every use, and TLC's set union is quadratic), for d <= 2 and n <= 4, which is what depth 3 / 5 nodes needs.
KeyPairs == {p \in (1..Len(Keys)) \X (1..Len(Keys)) : p[1] < p[2]}
One(S)    == {List(<<v>>) : v \in S} \cup {Obj(<< <<Keys[k], v>> >>) : k \in 1..Len(Keys), v \in S}
Two(S, T) == {List(<<v, w>>) : v \in S, w \in T}
             \cup {Obj(<< <<Keys[p[1]], v>>, <<Keys[p[2]], w>> >>) : p \in KeyPairs, v \in S, w \in T}
Leaves == GScalars \cup {List(<<>>), Obj(<<>>)}
L0_1 == GScalars
L1_1 == Leaves
L1_2 == One(L0_1)
L1_3 == Two(L0_1, L0_1)
L2_1 == Leaves
L2_2 == One(L1_1)
L2_3 == One(L1_2) \cup Two(L1_1, L1_1)
L2_4 == IF MaxNodes < 5 THEN {} ELSE One(L1_3) \cup Two(L1_1, L1_2) \cup Two(L1_2, L1_1)    \* only the 5-node documents use it
\* the level below the document
Low(n) == CASE MaxDepth = 1 -> (IF n = 1 THEN L0_1 ELSE {})
            [] MaxDepth = 2 -> (CASE n = 1 -> L1_1 [] n = 2 -> L1_2 [] n = 3 -> L1_3 [] OTHER -> {})
            [] MaxDepth = 3 -> (CASE n = 1 -> L2_1 [] n = 2 -> L2_2 [] n = 3 -> L2_3 [] n = 4 -> L2_4 [] OTHER -> {})
\* the documents, as a predicate, so that TLC enumerates the top level without materialising one big set
InGrammar(D) == \E n \in 1..MaxNodes :
    \/ n = 1 /\ D \in Leaves
    \/ n >= 2 /\ \E v \in Low(n - 1) : D = List(<<v>>)
    \/ n >= 2 /\ \E k \in 1..Len(Keys) : \E v \in Low(n - 1) : D = Obj(<< <<Keys[k], v>> >>)
    \/ \E a \in 1..(n - 2) : \E v \in Low(a) : \E w \in Low(n - 1 - a) : D = List(<<v, w>>)
    \/ \E a \in 1..(n - 2) : \E p \in KeyPairs : \E v \in Low(a) : \E w \in Low(n - 1 - a) :
          D = Obj(<< <<Keys[p[1]], v>>, <<Keys[p[2]], w>> >>)
ASSUME MaxDepth \in 1..3 /\ MaxNodes \in 1..5

-----------------------------------------------------------------------------
\* Part 5: fault injection
SetEntry(D, i, e)  == [D EXCEPT !.m[i][2] = e]
SetName(D, i, nm)  == [D EXCEPT !.m[i][1] = nm]
HedPos(e)          == CHOOSE j \in Idx(e) : e.m[j][1] = "HED"
SetHed(D, i, x)    == SetEntry(D, i, [Entry(D, i) EXCEPT !.m[HedPos(Entry(D, i))][2] = x])
\* string sites of column i: 0 = the HED string of a value column, j > 0 = j-th category value
Sites(D, i) == LET ty == ColType(Entry(D, i), FALSE) IN
               IF ty = "value" THEN (IF Get(Entry(D, i), "HED").t = "str" THEN {0} ELSE {})     \* (a blank string has no parts to alter)
               ELSE IF ty = "categorical"
                    THEN {j \in Idx(Get(Entry(D, i), "HED")) : Get(Entry(D, i), "HED").m[j][2].t = "str"}
                    ELSE {}
SiteStr(D, i, j) == IF j = 0 THEN Get(Entry(D, i), "HED") ELSE Get(Entry(D, i), "HED").m[j][2]
SetSite(D, i, j, s) == IF j = 0 THEN SetHed(D, i, s)
                       ELSE SetHed(D, i, [Get(Entry(D, i), "HED") EXCEPT !.m[j][2] = s])
SetCatKey(D, i, j, k) == SetHed(D, i, [Get(Entry(D, i), "HED") EXCEPT !.m[j][1] = k])

BadScalars == {Num, Bool, Null, List(<<Str(0, "", "ok")>>), Obj(<< <<"other", Str(0, "", "ok")>> >>)}
Referenced(D, nm) == \E i \in Cols(D) : nm \in RefsOf(Entry(D, i))

CanInject == Mode = "faults" /\ Len(faults) < MaxFaults
Do(f, D2) == /\ doc' = D2
             /\ D2 # doc
             /\ faults' = Append(faults, f)

\* a HED entry (or one category value) of a wrong JSON type
InjHedType == CanInject /\ \E i \in Cols(doc) : Has(Entry(doc, i), "HED") /\
                 \/ \E x \in BadScalars \ {Obj(<< <<"other", Str(0, "", "ok")>> >>)} :
                        Do("hedType", SetHed(doc, i, x))
                 \/ \E j \in Sites(doc, i) \ {0} : \E x \in BadScalars :
                        Do("hedType", SetSite(doc, i, j, x))
\* a value column with no or two placeholders
InjValueHash == CanInject /\ \E i \in Cols(doc) : ColType(Entry(doc, i), FALSE) = "value" /\
                   \/ \E h \in {0, 2} : Do("valueOneHash", SetSite(doc, i, 0, [SiteStr(doc, i, 0) EXCEPT !.h = h, !.d = FALSE]))
                   \/ (~Referenced(doc, Name(doc, i)) /\ Do("valueOneHash", SetSite(doc, i, 0, EStr)))     \* the blank string
\* a category value with placeholders
InjCatHash == CanInject /\ \E i \in Cols(doc) : ColType(Entry(doc, i), FALSE) = "categorical" /\
                 \E j \in Sites(doc, i) : \E h \in {1, 2} :
                    Do("catNoHash", SetSite(doc, i, j, [SiteStr(doc, i, j) EXCEPT !.h = h, !.d = FALSE]))
\* a column called HED
InjHedColumn == CanInject /\ \E i \in Cols(doc) : /\ ~Referenced(doc, Name(doc, i))
                                     /\ RefsOf(Entry(doc, i)) = {}
                                     /\ \A c \in Cols(doc) : Name(doc, c) # "HED"
                                     /\ Do("hedNotColumn", SetName(doc, i, "HED"))
\* a category called n/a
InjNaKey == CanInject /\ \E i \in Cols(doc) : ColType(Entry(doc, i), FALSE) = "categorical" /\
               \E j \in Sites(doc, i) : /\ ~Has(Get(Entry(doc, i), "HED"), "n/a")
                                        /\ Do("naNotKey", SetCatKey(doc, i, j, "n/a"))
\* an unmatched brace
InjBrace == CanInject /\ \E i \in Cols(doc) : \E j \in Sites(doc, i) : \E b \in {"open", "close"} :
               Do("refBalanced", SetSite(doc, i, j, [SiteStr(doc, i, j) EXCEPT !.b = b]))
\* a reference to a column that does not exist or carries no HED
InjRefUnknown == CanInject /\ \E i \in Cols(doc) : \E j \in Sites(doc, i) : \E nm \in RefNames :
                    /\ nm # "HED" /\ nm # Name(doc, i) /\ ~HedBearing(doc, nm)
                    /\ ~Referenced(doc, Name(doc, i))
                    /\ Do("refKnown", SetSite(doc, i, j, [SiteStr(doc, i, j) EXCEPT !.r = nm]))
\* a reference to the column itself
InjRefSelf == CanInject /\ \E i \in Cols(doc) : \E j \in Sites(doc, i) :
                 /\ ~Referenced(doc, Name(doc, i)) /\ Name(doc, i) # "HED"
                 /\ Do("refNotSelf", SetSite(doc, i, j, [SiteStr(doc, i, j) EXCEPT !.r = Name(doc, i)]))
\* a reference to a column that itself holds a reference
InjRefNested == CanInject /\ \E i \in Cols(doc) : \E j \in Sites(doc, i) : \E k \in Cols(doc) \ {i} :
                   /\ Has(Entry(doc, k), "HED") /\ RefsOf(Entry(doc, k)) # {}
                   /\ Name(doc, k) # "HED"
                   /\ Do("refNotNested", SetSite(doc, i, j, [SiteStr(doc, i, j) EXCEPT !.r = Name(doc, k)]))

CleanBase(D) == WellTyped(D) /\ Broken(D) = {}
Init == IF Mode = "grammar" THEN InGrammar(doc) /\ faults = <<>>
        ELSE doc \in {D \in Bases : CleanBase(D)} /\ faults = <<>>
Next == \/ InjHedType \/ InjValueHash \/ InjCatHash \/ InjHedColumn \/ InjNaKey
        \/ InjBrace \/ InjRefUnknown \/ InjRefSelf \/ InjRefNested
Spec == Init /\ [][Next]_vars

-----------------------------------------------------------------------------
\* Properties
\* the rule set is total: every document gets a verdict of the right shape, every column a type
Total == LET v == Verdict(doc) IN
         /\ v.cls \in {"arbitrary", "clean", "one-fault"}
         /\ v.broken \subseteq Rules
         /\ (v.cls = "one-fault") <=> (WellTyped(doc) /\ Cardinality(v.broken) = 1)
         /\ (v.cls = "one-fault") => (v.codes # {} /\ v.at # {})
         /\ (v.cls = "clean") <=> (WellTyped(doc) /\ v.broken = {})
         /\ IsObj(doc) => \A i \in Cols(doc) :
                            ColType(Entry(doc, i), TRUE) \in {"ignore", "categorical", "value", "unknown"}
\* the code's typing and the rules agree: the strict typing fails exactly where a type / placeholder rule is broken
TypingSound == IsObj(doc) =>
    \A i \in Cols(doc) : LET e == Entry(doc, i) IN
        /\ ColType(e, TRUE) # ColType(e, FALSE) => ColType(e, TRUE) = "unknown"
        /\ (ColType(e, TRUE) = "unknown" /\ DropRule = "") =>
               \E f \in {"hedType", "valueOneHash"} : \E p \in BrokenAt(f, doc) : p[1] = Name(doc, i)
\* the bounded grammar really is bounded as announced
GrammarBound == Mode = "grammar" => (Depth(doc) <= MaxDepth /\ Nodes(doc) <= MaxNodes)
\* bases are clean, one injection breaks exactly the rule it is named after and nothing else
BaseClean  == (Len(faults) = 0 /\ Mode = "faults") => Verdict(doc).cls = "clean"
FaultExact == Len(faults) = 1 => (WellTyped(doc) /\ Broken(doc) = {faults[1]})
FaultCode  == Len(faults) = 1 => LET v == Verdict(doc) IN (v.cls = "one-fault" /\ v.codes = Codes(faults[1]))
\* stacked injections never repair: the last injected rule stays broken
FaultStays == Len(faults) >= 1 => BrokenAt(faults[Len(faults)], doc) # {}
DocView == doc
=============================================================================
