CONSTANTS
  Procs <- ProcsDef
  Role <- RoleMixed
  Files <- FilesDef
  Want = "v"
  Chunks = 1
  LOCK = TRUE
  ATOMIC = TRUE
  FALLBACK = TRUE
  MaxCrash = 1
SPECIFICATION FairSpec
VIEW View
PROPERTY EventuallyDone
