---- MODULE Trace_Remodel ----
(* Judging runs RECORDED from the real remodeler (vf/props/c17.py, binding B) against Remodel.tla.
   One behaviour per recorded case: the dispatcher of the specification is stepped along the recorded
   processing order (the spec's own Run action); after every step the recorded outcome is compared with the
   outcome the specification prescribes.  Verdicts are total: every case prints ACCEPT or REJECT lines that
   name the failing clause, the step and whether the clause is a detail beyond the property statement. *)
EXTENDS Remodel, Json, IOUtils
Cases == JsonDeserialize(IOEnv.TRACE_FILE)
VARIABLES i,      \* the case
          l,      \* next position in its processing order
          fails   \* {<<clause, step, detail>>}
tvars == <<vars, i, l, fails>>
Case == Cases[i]
Obs(s) == Case.obs[s]

\* recorded outcome of step s against the prescribed outcome exp
Judge(s, exp) ==
  LET o == Obs(s) IN
  IF exp.k = "any" THEN {}
  ELSE IF o.k = "exc" THEN (IF exp.k = "ok" THEN {<<IF exp.d THEN "runs-d" ELSE "runs", FALSE>>}
                            ELSE IF exp.e # o.e THEN {<<"error-class", TRUE>>} ELSE {})
  ELSE IF exp.k = "err" THEN {<<"error", FALSE>>}
  ELSE IF o.k = "ok" /\ o.cols = exp.cols
          /\ (IF exp.cols = <<>> THEN o.n = Len(exp.rows)         \* no column left: only the number of rows
              ELSE o.rows = exp.rows \/ (exp.u /\ SameBag(o.rows, exp.rows)))
       THEN {}
  ELSE {<<"result", exp.d>>}
\* the same table gave another outcome earlier in this run
OrderFail(s) == \E s2 \in 1..(s - 1) : Case.order[s2] = Case.order[s] /\ Obs(s2) # Obs(s)

TraceInit == /\ i \in 1..Len(Cases) /\ l = 1
             /\ ops0 = Cases[i].ops /\ tabs0 = Cases[i].tabs
             /\ ops = [k \in DOMAIN ops0 |-> Eff(ops0[k])] /\ tabs = tabs0 /\ hist = <<>>
             /\ fails = (IF Cases[i].valid # Valid(Cases[i].ops) THEN {<<"valid", 0, FALSE>>} ELSE {})
                        \cup (IF ~Cases[i].unchanged THEN {<<"pure", 0, FALSE>>} ELSE {})
TraceNext == /\ Case.valid /\ l <= Len(Case.order)
             /\ Run(Case.order[l])
             /\ l' = l + 1 /\ UNCHANGED i
             /\ fails' = fails \cup {<<f[1], l, f[2]>> : f \in Judge(l, hist'[l].res)}
                               \cup (IF OrderFail(l) THEN {<<"order", l, FALSE>>} ELSE {})
TraceSpec == TraceInit /\ [][TraceNext]_tvars
Done == ~Case.valid \/ ~Valid(ops0) \/ l = Len(Case.order) + 1
Report == Done => IF fails = {} THEN PrintT(<<"ACCEPT", i>>)
                  ELSE \A f \in fails : PrintT(<<"REJECT", i, f[1], f[2], f[3]>>)
\* the specification's own properties hold along every recorded order as well
TraceProps == ParamsConstant /\ InputUnchanged /\ OrderIndependent
====
