--------------------------------- MODULE KeyMap ---------------------------------
(* The lookup table behind remap_columns and the key templates (hed/tools/analysis/key_map.py: KeyMap).

   A KeyMap object lives as long as its owner (one RemapColumnsOp per operation list, one map per template run) and is FED with
   tables by update(); every table row contributes its key (the values of the key columns) and - the first time the key is seen -
   its target values.  Three pieces of state must stay in step:
       colmap   the rows of the table of unique keys, in the order the keys were first seen (or sorted, after resort())
       pos      key -> index of its row in colmap            (KeyMap.map_dict, through a hash of the key values)
       cnt      key -> how often it was fed                   (KeyMap.count_dict)
   remap(table) answers from pos and colmap: the targets of each row's key, n/a and a "missing" report for keys never fed.

   What a user relies on, for every history of update / resort on ONE object:
       PosExact      pos names exactly the keys fed so far, and colmap[pos[k]] is the row of k
       FirstWins     the targets kept for a key are those of the FIRST row that carried it
       Counts        cnt[k] is the number of rows fed with key k, over all updates
       Sorted        after resort() colmap is ordered by key, and the three laws above still hold
   and remap / make_template answer from that state alone.
*)
EXTENDS Naturals, Sequences, FiniteSets, TLC

CONSTANTS Keys,        \* possible keys (each a sequence of strings, one per key column)
          Tgts,        \* possible target values
          KeyOrder,    \* Keys as a sequence in the order resort() must produce (string order of the key columns)
          MaxActs, MaxRows

Row == [k : Keys, t : Tgts]
VARIABLES colmap, pos, cnt, hist
vars == <<colmap, pos, cnt, hist>>

Seen == {k \in Keys : pos[k] # 0}

Init == /\ colmap = <<>>
        /\ pos = [k \in Keys |-> 0]
        /\ cnt = [k \in Keys |-> 0]
        /\ hist = <<>>

\* KeyMap._update / _handle_update: one row after the other
RECURSIVE Feed(_, _, _, _)
Feed(rows, cm, ps, ct) ==
  IF rows = <<>> THEN [cm |-> cm, ps |-> ps, ct |-> ct]
  ELSE LET r == Head(rows) IN
       IF ps[r.k] = 0
       THEN Feed(Tail(rows), Append(cm, r), [ps EXCEPT ![r.k] = Len(cm) + 1], [ct EXCEPT ![r.k] = 1])
       ELSE Feed(Tail(rows), cm, ps, [ct EXCEPT ![r.k] = @ + 1])

Update(rows) == LET f == Feed(rows, colmap, pos, cnt) IN
                /\ colmap' = f.cm /\ pos' = f.ps /\ cnt' = f.ct
                /\ hist' = Append(hist, [a |-> "update", rows |-> rows])

\* KeyMap.resort: rows ordered by key, positions recomputed
Rank(k) == CHOOSE i \in 1..Len(KeyOrder) : KeyOrder[i] = k
Resort == LET n == Len(colmap)
              place(i) == 1 + Cardinality({j \in 1..n : Rank(colmap[j].k) < Rank(colmap[i].k)})
              sorted == [q \in 1..n |-> colmap[CHOOSE i \in 1..n : place(i) = q]] IN
          /\ colmap' = sorted
          /\ pos' = [k \in Keys |-> IF pos[k] = 0 THEN 0 ELSE place(pos[k])]
          /\ UNCHANGED cnt
          /\ hist' = Append(hist, [a |-> "resort", rows |-> <<>>])

RowSeqs == UNION {[1..n -> Row] : n \in 1..MaxRows}
Next == /\ Len(hist) < MaxActs
        /\ \/ \E rows \in RowSeqs : Update(rows)
           \/ (colmap # <<>> /\ Resort)
Spec == Init /\ [][Next]_vars

\* ---- what the object answers ----------------------------------------------------------------------------------------
Remap(keys) == [i \in 1..Len(keys) |-> IF pos[keys[i]] = 0 THEN "n/a" ELSE colmap[pos[keys[i]]].t]
Missing(keys) == {i \in 1..Len(keys) : pos[keys[i]] = 0}

\* ---- laws -----------------------------------------------------------------------------------------------------------
Fed == LET RECURSIVE cat(_)
           cat(h) == IF h = <<>> THEN <<>> ELSE Head(h).rows \o cat(Tail(h)) IN cat(hist)
PosExact == /\ \A k \in Keys : pos[k] \in 0..Len(colmap)
            /\ \A k \in Seen : colmap[pos[k]].k = k
            /\ \A i \in 1..Len(colmap) : pos[colmap[i].k] = i
            /\ Seen = {Fed[i].k : i \in 1..Len(Fed)}
FirstWins == \A k \in Seen : LET first == CHOOSE i \in 1..Len(Fed) : Fed[i].k = k /\ \A j \in 1..(i - 1) : Fed[j].k # k IN
                             colmap[pos[k]].t = Fed[first].t
Counts == \A k \in Keys : cnt[k] = Cardinality({i \in 1..Len(Fed) : Fed[i].k = k})
Sorted == (hist # <<>> /\ hist[Len(hist)].a = "resort") =>
             \A i \in 1..(Len(colmap) - 1) : Rank(colmap[i].k) < Rank(colmap[i + 1].k)
\* the order of first appearance is kept until a resort
FirstSeenOrder == (\A i \in 1..Len(hist) : hist[i].a = "update") =>
             \A i, j \in 1..Len(colmap) : i < j =>
                 (CHOOSE a \in 1..Len(Fed) : Fed[a].k = colmap[i].k /\ \A b \in 1..(a - 1) : Fed[b].k # colmap[i].k)
               < (CHOOSE a \in 1..Len(Fed) : Fed[a].k = colmap[j].k /\ \A b \in 1..(a - 1) : Fed[b].k # colmap[j].k)
=================================================================================
