---- MODULE MC_FileCheck ----
EXTENDS FileCheck, Json
Emit == (Len(rows) >= 1) => PrintT("@@EMIT@@" \o ToJson([rows |-> rows, hasOnset |-> hasOnset, errors |-> Errors(rows), warnings |-> Warnings(rows),
                                                         numeric |-> Numeric(rows), unordered |-> Unordered(rows)]))
====
