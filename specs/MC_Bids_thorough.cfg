CONSTANTS
  Shapes <- UpTo2
  MaxSC = 2
  Cols <- ColsDef
  Excluded <- ExcludedDef
  DecoyKinds <- DecoyKindsDef
  DecoyRule <- TwoDecoy
  ENFORCE_BIDS = TRUE
  DEEPER_WINS = TRUE
SPECIFICATION Spec
INVARIANT TypeOK
INVARIANT Deterministic
INVARIANT ChainExact
INVARIANT MergedIsTopDown
INVARIANT OwnColumns
INVARIANT ExcludedIgnored
