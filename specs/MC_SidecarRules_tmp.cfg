CONSTANTS
  Keys <- KeysFull
  GScalars <- ScalarsSmall
  MaxDepth = 1
  MaxNodes = 1
  Bases <- BasesFull
  MaxFaults = 1
  RefNames <- RefNamesDef
  DropRule = ""
  Mode = "faults"
SPECIFICATION Spec






