CONSTANTS
  Keys <- KeysFull
  GScalars <- ScalarsFull
  MaxDepth = 3
  MaxNodes = 3
  Bases <- NoBases
  MaxFaults = 0
  RefNames <- RefNamesDef
  DropRule = ""
  Mode = "grammar"
SPECIFICATION Spec




