\* trace validation: N is irrelevant here (texts come from the trace file)
CONSTANTS
  N = 0
  Bug = "none"
SPECIFICATION TraceSpec
INVARIANT Judge
