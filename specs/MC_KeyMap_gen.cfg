CONSTANTS
  Keys <- Keys1
  Tgts <- TgtsDef
  KeyOrder <- Order1
  FedKeys <- KeysFed1
  MaxActs = 3
  MaxRows = 2
SPECIFICATION Spec
CONSTRAINT FedOnly
INVARIANT Emit
CHECK_DEADLOCK FALSE
