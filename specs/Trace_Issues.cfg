CONSTANTS
  MaxIssues = 4
  REDECORATE = FALSE
  WARNINGS = TRUE
SPECIFICATION TSpec
INVARIANT Done
