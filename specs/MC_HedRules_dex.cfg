\* one definition used as a Def tag AND as a Def-expand group in one annotation, in every arrangement of <= 4 nodes
CONSTANTS
  MaxN = 4
  Kinds <- KindsDex
  Bases <- BasesEmpty
  MaxSteps = 99
  DUP = FALSE
  SFlaws <- SFlawsDef
SPECIFICATION Spec
INVARIANT Emit
