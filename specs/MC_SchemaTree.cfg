CONSTANTS
  MaxN = 4
  Names <- NamesDef
  Words <- WordsDef
SPECIFICATION Spec
INVARIANT WalkIsDecl
INVARIANT AllFormsResolve
INVARIANT FormsInverse
