---- MODULE Trace_HedText ----
(* Trace validation for HedText: cases RECORDED from the real HedString constructor (arbitrary
   Unicode texts abstracted to the class alphabet by the driver) are judged against the
   DECLARATIVE definition.  One state per recorded case; the verdict is total: every case prints
   a JSON line [id, balanced, [names of the failed clauses]].
   A case is  [s: class characters, raised, tags <<a,b,parent>>, groups <<a,b,parent>>,
               toks <<isTag,a,b>> (split_hed_string), slices, mismatch, rt_org, rt_short, rt_long]. *)
EXTENDS HedText, Json, IOUtils
Cases == JsonDeserialize(IOEnv.TRACE_FILE)
VARIABLE tid
TraceInit == /\ tid \in 1..Len(Cases)
             /\ src = <<>> /\ phase = "trace" /\ i = 0 /\ spacing = 0 /\ found = TRUE /\ tagStart = None
             /\ lastEnd = 0 /\ out = <<>> /\ tk = 0 /\ stack = <<>> /\ tree = <<>> /\ rejected = FALSE
TraceNext == UNCHANGED <<vars, tid>>
TraceSpec == TraceInit /\ [][TraceNext]_<<vars, tid>>
C == Cases[tid]
S == C.s
Bal == Balanced(S)
F == IF Bal THEN DeclFlat(S) ELSE [tags |-> <<>>, groups |-> <<>>]
Span(x) == <<x[1], x[2]>>
Spans(q) == [j \in 1..Len(q) |-> Span(q[j])]
Pars(q) == [j \in 1..Len(q) |-> q[j][3]]
TagTokSpans == LET tt == SelectSeq(C.toks, LAMBDA t : t[1]) IN [j \in 1..Len(tt) |-> <<tt[j][2], tt[j][3]>>]
TokTiles == /\ \A j \in 1..Len(C.toks) : /\ C.toks[j][2] < C.toks[j][3]
                                         /\ C.toks[j][2] = (IF j = 1 THEN 0 ELSE C.toks[j-1][3])
            /\ (Len(S) > 0 => (C.toks # <<>> /\ C.toks[Len(C.toks)][3] = Len(S)))
Clauses == <<
   <<"never_raises",        ~C.raised>>,
   <<"tag_spans",           Bal => Spans(C.tags) = DeclTags(S)>>,
   <<"tag_text_is_slice",   Bal => C.slices>>,
   <<"group_spans",         Bal => Spans(C.groups) = Spans(F.groups)>>,
   <<"nesting",             Bal => (Len(C.tags) = Len(F.tags) /\ Len(C.groups) = Len(F.groups)
                                    => Pars(C.tags) = Pars(F.tags) /\ Pars(C.groups) = Pars(F.groups))>>,
   <<"roundtrip_original",  Bal => C.rt_org>>,
   <<"roundtrip_short",     Bal => C.rt_short>>,
   <<"roundtrip_long",      Bal => C.rt_long>>,
   <<"unbalanced_empty",    ~Bal => C.tags = <<>> /\ C.groups = <<>> >>,
   <<"unbalanced_reported", ~Bal => C.mismatch>>,
   <<"tokens",              TagTokSpans = DeclTags(S) /\ TokTiles>> >>
Failed == LET bad == SelectSeq(Clauses, LAMBDA c : ~c[2]) IN [j \in 1..Len(bad) |-> bad[j][1]]
Judge == PrintT("@@EMIT@@" \o ToJson(<<tid, Bal, Failed>>))
\* second pass for rejected cases: what the declarative definition prescribes (goes into the replay file)
Explain == PrintT("@@EMIT@@" \o ToJson(<<tid, Bal, DeclTags(S), F.tags, F.groups>>))
====
