CONSTANTS
  Procs <- TProcs
  Role <- TRoleMixed
  Files <- TFiles
  Want = "v"
  Chunks = 2
  LOCK = TRUE
  ATOMIC = TRUE
  FALLBACK = TRUE
  MaxCrash = 4
SPECIFICATION TraceSpec
INVARIANT Report
