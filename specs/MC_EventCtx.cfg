CONSTANTS
  T = 4
  A = 4
  Keys <- KeysDef
  Gaps <- GapsDef
  Durs <- DursDef
SPECIFICATION Spec
INVARIANT TypeOK
INVARIANT ContextExact
INVARIANT RestartClosesPrevious
INVARIANT OpenConsistent
INVARIANT NeverOwnContext
INVARIANT ActiveIsRun
