CONSTANTS
  Rules <- RulesDef
SPECIFICATION Spec
INVARIANT Deterministic
INVARIANT SpecCodesOnly
INVARIANT WarningsOffOnlyErrors
