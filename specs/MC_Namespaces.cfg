CONSTANTS
  Vers <- VersDef
  Std <- StdDef
  Lib <- LibDef
  Clash <- ClashDef
  Prefixes <- PrefixesDef
  GoodPrefixes <- GoodDef
  MaxLen = 2
SPECIFICATION Spec
INVARIANT DispatchTotal
INVARIANT RefuseTwice
INVARIANT RefuseClash
INVARIANT Emit
