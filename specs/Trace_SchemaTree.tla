---- MODULE Trace_SchemaTree ----
(* Validates lookups answered by the real code against SchemaTree.tla on the REAL tree of a schema.
   The tree (read from the XML by vf/facts.py, not by hed) and the events are read from JSON.
   The form table handed in is first verified against the tree by the spec itself (TableOK). *)
EXTENDS SchemaTree, Json, IOUtils, TLCExt
Data == JsonDeserialize(IOEnv.TRACE_FILE)
TPar == Data.par          \* sequence: parent index (0 root)
TName == Data.name        \* folded names
TDisp == Data.disp        \* names as declared
TTv == Data.tv            \* has '#' child
TN == Len(TPar)
Table == Data.table       \* record: folded form (joined with "/") -> node index
Evs == Data.events
TPN == <<TPar, TName>>
DPN == <<TPar, TDisp>>
\* the table is exactly the set of suffix forms of the tree
TableOK == /\ \A k \in 1..TN : \A f \in FormsOf(TPN, k) : JoinS(f, "/") \in DOMAIN Table /\ Table[JoinS(f, "/")] = k
           /\ Cardinality(DOMAIN Table) = Cardinality(UNION {{JoinS(f, "/") : f \in FormsOf(TPN, k)} : k \in 1..TN})
Node(f) == LET s == JoinS(f, "/") IN IF s \in DOMAIN Table THEN Table[s] ELSE 0
RECURSIVE TWalk(_, _, _)
TWalk(terms, j, cur) == IF j = Len(terms) THEN <<cur, j>>
                        ELSE LET nxt == Node(SubSeq(terms, 1, j + 1)) IN IF nxt = 0 THEN <<cur, j>> ELSE TWalk(terms, j + 1, nxt)
TResolve(terms) ==
   LET w == TWalk(terms, 0, 0)
       rem == SubSeq(terms, w[2] + 1, Len(terms))
   IN IF w[1] = 0 THEN [status |-> "novalid", node |-> 0, k |-> 0]
      ELSE IF Len(rem) > 0 /\ ~TTv[w[1]] /\ (\E i \in 1..Len(rem) : Node(<<rem[i]>>) # 0)
           THEN [status |-> "invalidparent", node |-> 0, k |-> 0]
      ELSE [status |-> "found", node |-> w[1], k |-> w[2]]
\* what the property prescribes for one lookup event e = [ns, okns, folded, raw, obs]
Expect(e) ==
   LET r == IF e.okns THEN TResolve(e.folded) ELSE [status |-> "badns", node |-> 0, k |-> 0] IN
   IF r.status # "found" THEN [found |-> FALSE, short |-> "", long |-> "", ext |-> "", sbase |-> "", base |-> ""]
   ELSE LET rem == SubSeq(e.raw, r.k + 1, Len(e.raw)) IN
        [found |-> TRUE, short |-> e.ns \o ShortOf(DPN, r.node, rem), long |-> e.ns \o LongOf(DPN, r.node, rem),
         ext |-> JoinS(rem, "/"), sbase |-> TDisp[r.node], base |-> LongOf(DPN, r.node, <<>>)]
Why(e) == LET x == Expect(e) IN
   IF x.found # e.obs.found THEN "existence"
   ELSE IF ~x.found THEN "ok"
   ELSE IF x.ext # e.obs.ext THEN "remainder"
   ELSE IF x.base # e.obs.base \/ x.sbase # e.obs.sbase THEN "node"
   ELSE IF x.short # e.obs.short THEN "short-form"
   ELSE IF x.long # e.obs.long THEN "long-form"
   ELSE IF e.obs.ls # x.long \/ e.obs.sl # x.short THEN "inverse-law"
   ELSE IF e.obs.ll # x.long \/ e.obs.ss # x.short THEN "idempotence"
   ELSE IF e.obs.dfl # x.long \/ e.obs.dfs # x.short THEN "bulk-conversion"
   ELSE "ok"
VARIABLES i
TInit == i = 0 /\ n = 0 /\ par = <<>> /\ name = <<>> /\ tv = <<>>
TNext == /\ i < Len(Evs) /\ i' = i + 1
         /\ (IF Why(Evs[i + 1]) = "ok" THEN TRUE ELSE PrintT(<<"REJECT", i + 1, Why(Evs[i + 1])>>))
         /\ UNCHANGED vars
TSpec == TInit /\ [][TNext]_<<i, vars>>
Done == (i = 0 => (IF TableOK THEN TRUE ELSE PrintT(<<"TABLE-BAD">>))) /\ (i = Len(Evs) => PrintT(<<"CHECKED", i>>))
====
