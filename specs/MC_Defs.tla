---- MODULE MC_Defs ----
EXTENDS Defs, Json
TemplatesDef == {<<"D">>, <<"E">>, <<"D", "E">>, <<"D", "D">>}
EmitOps == PrintT("@@EMIT@@" \o ToJson([ops |-> ops, init |-> [k \in 1..Len(objs[1]) |-> objs[1][k].origin]]))
\* acceptance table and variants are emitted from the initial state only
ShapeTable == {[shape |-> s, accept |-> Accept(s), silent |-> Silent(s)] : s \in {x \in Shapes : Consistent(x)}}
VariantTable == {[v |-> v, accept |-> AcceptExpand(v)] : v \in {x \in Variants : VConsistent(x)}}
EmitTables == (ops = <<>> /\ Len(objs[1]) = 1 /\ objs[1][1].form = "D") =>
                 PrintT("@@EMIT@@" \o ToJson([shapes |-> ShapeTable, variants |-> VariantTable, merges |-> MergeCases]))
ASSUME FirstWins
\* Each non-accepted shape violates at least one clause; each accepted one none (rule set is total and exclusive)
RuleTotal == \A s \in Shapes : Consistent(s) => (Accept(s) \/ ~Accept(s))
====
