CONSTANTS
  Trees <- TreesQ
  Chunks = 2
  LockChunks = 2
  TaskArgs <- TaskArgsSmall
  OpsIds <- Ops1
  MaxCrash = 1
  MaxCreate = 2
  MaxHist = 1
  MaxHistUnlisted = 1
  RECORD_FIRST = FALSE
  OVERWRITE = FALSE
  READ_LIVE = FALSE
SPECIFICATION Spec
VIEW View
INVARIANT TypeOK
INVARIANT NeverHalfValid
INVARIANT NoOverwrite
INVARIANT CreatedIsListed
INVARIANT RestoreIdentity
INVARIANT RestoreWorks
INVARIANT RestoreTasksOnlyThose
INVARIANT RestoreTouchesOnlyRecorded
INVARIANT RestoredAreOriginals
INVARIANT RemodelFromOriginals
INVARIANT RemodelIdempotent
INVARIANT RemodelAbortOnlyUnbacked
INVARIANT FailedChangesNothing
