CONSTANTS
  Rules <- RulesDef
SPECIFICATION TSpec
INVARIANT Done
