\* sensitivity: a TSV writer that skips blank tables must violate LoadSeesLastSave
CONSTANTS
  Variants <- Variants3
  Rows <- Rows3
  Locs <- LocsTwo
  Fmts <- FmtsAll
  MaxSaves = 3
  SKIP_EMPTY = TRUE
SPECIFICATION Spec
INVARIANT TypeOK
INVARIANT LoadSeesLastSave
PROPERTY OtherPlacesUntouched
