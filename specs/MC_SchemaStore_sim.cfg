CONSTANTS
  MaxEdits = 5
  MODE = "partnered"
  NewNames <- NewNames3Def
  UnitNames <- UnitNamesDef
  DescKinds <- DescKindsAllDef
  AttrOpts <- AttrOptsDef
  ORDER = "dfs"
  STRIP = TRUE
  REROOT = TRUE
  TSV_UC_PROPS = FALSE
SPECIFICATION Spec
INVARIANT RoundTrip
INVARIANT FormatsAgree
INVARIANT MultiMergeRefuses
INVARIANT EmitCase
