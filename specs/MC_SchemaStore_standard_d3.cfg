CONSTANTS
  MaxEdits = 3
  MODE = "standard"
  NewNames <- NewNamesDef
  UnitNames <- UnitNamesDef
  DescKinds <- DescKindsDef
  AttrOpts <- AttrOptsDef
  ORDER = "dfs"
  STRIP = TRUE
  REROOT = TRUE
  TSV_UC_PROPS = FALSE
SPECIFICATION Spec
VIEW View
INVARIANT WellFormed
INVARIANT RoundTrip
INVARIANT FormatsAgree
INVARIANT MultiMergeRefuses
INVARIANT WriterSelects
INVARIANT XmlDeclarative
