---------------------------- MODULE Cache ----------------------------
(* Schema cache of hed-python at file-operation granularity (property C19).

   One action per *scheduling point* of the real code, i.e. per file-system
   or lock operation performed by
     hed_cache.get_hed_versions / cache_local_versions /
     _copy_installed_folder_to_cache / get_hed_version_path,
     hed_cache_lock.CacheLock.__enter__/__exit__,
     hed_schema_io._load_schema_version_sub (load_schema = "read").
   pc[p] is the NEXT operation process p will perform; the conformance
   harness (vf/props/c19.py) pauses the real processes before exactly these
   operations, so a behaviour of this spec is a schedule it can replay, and a
   recorded run is a trace Trace_Cache.tla can validate.

   Feature constants document both designs:
     LOCK     CacheLock really acquires the advisory lock (FALSE: constructed only)
     ATOMIC   files are copied to <name>.tmp and os.replace'd (FALSE: in-place)
     FALLBACK a bundled version missing from the cache is read from the installed folder
*)
EXTENDS Integers, FiniteSets, Sequences, TLC

CONSTANTS Procs,      \* set of process ids
          Role,       \* [Procs -> {"load","populate"}]
          Files,      \* sequence of bundled file names in installed listdir order
          Want,       \* the file every loader wants (a member of Files)
          Chunks,     \* a copy is Chunks writes
          LOCK, ATOMIC, FALLBACK,
          MaxCrash

FileSet == {Files[i] : i \in 1..Len(Files)}
None == "none"

VARIABLES
  cache,    \* [FileSet -> -1..Chunks]  -1 absent, k = chunks present under the FINAL name
  tmpf,     \* [FileSet -> -1..Chunks]  same for <name>.tmp (ATOMIC only)
  lockfile, \* BOOLEAN  cache_lock.lock exists (created by the first real acquire)
  lock,     \* None or the process holding the advisory lock
  pc,       \* next operation of p
  idx,      \* position in Files of the copy loop
  wr,       \* chunks written by p in the current copy
  listing,  \* versions p saw in its last listdir
  src,      \* where p will read Want from: "cache" or "installed"
  result,   \* "pending" | "ok" | "cacheerr" | "fail_torn" | "fail_notcached"
  crashes,
  hist      \* schedule so far: <<p, op>>   (observation only; hidden by VIEW in design runs)

vars == <<cache, tmpf, lockfile, lock, pc, idx, wr, listing, src, result, crashes, hist>>

Present == {f \in FileSet : cache[f] >= 0}
DirNonEmpty == Present # {} \/ lockfile \/ (\E f \in FileSet : tmpf[f] >= 0)

Init == /\ cache = [f \in FileSet |-> -1] /\ tmpf = [f \in FileSet |-> -1]
        /\ lockfile = FALSE /\ lock = None
        /\ pc = [p \in Procs |-> IF Role[p] = "load" THEN "list1" ELSE "lock"]
        /\ idx = [p \in Procs |-> 1] /\ wr = [p \in Procs |-> 0]
        /\ listing = [p \in Procs |-> {}] /\ src = [p \in Procs |-> None]
        /\ result = [p \in Procs |-> "pending"] /\ crashes = 0 /\ hist = <<>>

Log(p, op) == hist' = Append(hist, [p |-> p, op |-> op, cache |-> cache', tmpf |-> tmpf', lock |-> lock',
                                      lf |-> lockfile', res |-> result'[p]])   \* LAST conjunct of every action

\* where the copy loop goes when it reaches position i
LoopPc(i) == IF i > Len(Files) THEN "unlock" ELSE "exists"

\* get_hed_version_path + the decision which file to load, after a listing `ls`
AfterListing(p, ls) ==
   IF Want \in ls THEN /\ pc' = [pc EXCEPT ![p] = "read"] /\ src' = [src EXCEPT ![p] = "cache"] /\ UNCHANGED result
   ELSE IF FALLBACK THEN /\ pc' = [pc EXCEPT ![p] = "read"] /\ src' = [src EXCEPT ![p] = "installed"] /\ UNCHANGED result
   ELSE /\ pc' = [pc EXCEPT ![p] = "done"] /\ result' = [result EXCEPT ![p] = "fail_notcached"] /\ UNCHANGED src

\* os.listdir in get_hed_versions (first time): empty directory => populate
List1(p) == /\ pc[p] = "list1"
            /\ listing' = [listing EXCEPT ![p] = Present]
            /\ IF DirNonEmpty THEN AfterListing(p, Present)
               ELSE pc' = [pc EXCEPT ![p] = "lock"] /\ UNCHANGED <<src, result>>
            /\ UNCHANGED <<cache, tmpf, lockfile, lock, idx, wr, crashes>>
            /\ Log(p, "list")

\* CacheLock.__enter__ : acquire with timeout.  A holder that cannot get it gives up (CacheException)
LockOp(p) ==
   /\ pc[p] = "lock"
   /\ idx' = [idx EXCEPT ![p] = 1]
   /\ IF LOCK
      THEN /\ lockfile' = TRUE
           /\ IF lock = None
              THEN /\ lock' = p /\ pc' = [pc EXCEPT ![p] = LoopPc(1)] /\ UNCHANGED result
              ELSE /\ UNCHANGED lock            \* timeout -> CacheException -> cache_local_versions returns -1
                   /\ IF Role[p] = "load" THEN pc' = [pc EXCEPT ![p] = "list2"] /\ UNCHANGED result
                      ELSE pc' = [pc EXCEPT ![p] = "done"] /\ result' = [result EXCEPT ![p] = "cacheerr"]
      ELSE /\ UNCHANGED <<lock, lockfile, result>> /\ pc' = [pc EXCEPT ![p] = LoopPc(1)]
   /\ UNCHANGED <<cache, tmpf, wr, listing, src, crashes>>
   /\ Log(p, "lock")

\* os.path.exists(cache_name) in _copy_installed_folder_to_cache
Exists(p) == /\ pc[p] = "exists"
             /\ IF cache[Files[idx[p]]] >= 0
                THEN /\ idx' = [idx EXCEPT ![p] = @ + 1] /\ pc' = [pc EXCEPT ![p] = LoopPc(idx[p] + 1)]
                ELSE /\ pc' = [pc EXCEPT ![p] = "copy_open"] /\ UNCHANGED idx
             /\ UNCHANGED <<cache, tmpf, lockfile, lock, wr, listing, src, result, crashes>>
             /\ Log(p, "exists")

\* the destination file is created / truncated
CopyOpen(p) == /\ pc[p] = "copy_open"
               /\ wr' = [wr EXCEPT ![p] = 0]
               /\ IF ATOMIC THEN tmpf' = [tmpf EXCEPT ![Files[idx[p]]] = 0] /\ UNCHANGED cache
                  ELSE cache' = [cache EXCEPT ![Files[idx[p]]] = 0] /\ UNCHANGED tmpf
               /\ pc' = [pc EXCEPT ![p] = "copy_write"]
               /\ UNCHANGED <<lockfile, lock, idx, listing, src, result, crashes>>
               /\ Log(p, "copy_open")

CopyWrite(p) == /\ pc[p] = "copy_write"
                /\ wr' = [wr EXCEPT ![p] = @ + 1]
                /\ IF ATOMIC THEN tmpf' = [tmpf EXCEPT ![Files[idx[p]]] = wr[p] + 1] /\ UNCHANGED cache
                   ELSE cache' = [cache EXCEPT ![Files[idx[p]]] = wr[p] + 1] /\ UNCHANGED tmpf
                /\ IF wr[p] + 1 < Chunks THEN UNCHANGED <<pc, idx>>
                   ELSE IF ATOMIC THEN pc' = [pc EXCEPT ![p] = "replace"] /\ UNCHANGED idx
                   ELSE idx' = [idx EXCEPT ![p] = @ + 1] /\ pc' = [pc EXCEPT ![p] = LoopPc(idx[p] + 1)]
                /\ UNCHANGED <<lockfile, lock, listing, src, result, crashes>>
                /\ Log(p, "copy_write")

\* os.replace(tmp, final)
Replace(p) == /\ pc[p] = "replace"
              /\ cache' = [cache EXCEPT ![Files[idx[p]]] = tmpf[Files[idx[p]]]]
              /\ tmpf' = [tmpf EXCEPT ![Files[idx[p]]] = -1]
              /\ idx' = [idx EXCEPT ![p] = @ + 1] /\ pc' = [pc EXCEPT ![p] = LoopPc(idx[p] + 1)]
              /\ UNCHANGED <<lockfile, lock, wr, listing, src, result, crashes>>
              /\ Log(p, "replace")

\* CacheLock.__exit__
Unlock(p) == /\ pc[p] = "unlock"
             /\ lock' = (IF lock = p THEN None ELSE lock)
             /\ IF Role[p] = "load" THEN pc' = [pc EXCEPT ![p] = "list2"] /\ UNCHANGED result
                ELSE pc' = [pc EXCEPT ![p] = "done"] /\ result' = [result EXCEPT ![p] = "ok"]
             /\ UNCHANGED <<cache, tmpf, lockfile, idx, wr, listing, src, crashes>>
             /\ Log(p, "unlock")

\* second os.listdir in get_hed_versions (after populating, or after giving up on the lock)
List2(p) == /\ pc[p] = "list2"
            /\ listing' = [listing EXCEPT ![p] = Present]
            /\ AfterListing(p, Present)
            /\ UNCHANGED <<cache, tmpf, lockfile, lock, idx, wr, crashes>>
            /\ Log(p, "list")

\* load_schema(path)
Read(p) == /\ pc[p] = "read"
           /\ pc' = [pc EXCEPT ![p] = "done"]
           /\ result' = [result EXCEPT ![p] =
                 IF src[p] = "installed" \/ cache[Want] = Chunks THEN "ok"
                 ELSE IF cache[Want] = -1 THEN "fail_notcached" ELSE "fail_torn"]
           /\ UNCHANGED <<cache, tmpf, lockfile, lock, idx, wr, listing, src, crashes>>
           /\ Log(p, "read")

\* SIGKILL: the OS drops the advisory lock, files stay as they are
Crash(p) == /\ crashes < MaxCrash /\ pc[p] \notin {"done", "dead"}
           
            /\ crashes' = crashes + 1 /\ pc' = [pc EXCEPT ![p] = "dead"]
            /\ lock' = (IF lock = p THEN None ELSE lock)
            /\ UNCHANGED <<cache, tmpf, lockfile, idx, wr, listing, src, result>>
            /\ Log(p, "crash")

Step(p) == List1(p) \/ LockOp(p) \/ Exists(p) \/ CopyOpen(p) \/ CopyWrite(p) \/ Replace(p)
           \/ Unlock(p) \/ List2(p) \/ Read(p)
Next == \E p \in Procs : Step(p) \/ Crash(p)
Fair == \A p \in Procs : WF_vars(Step(p))
Spec == Init /\ [][Next]_vars
FairSpec == Spec /\ Fair

----------------------------------------------------------------------
\* Properties (C19)
InCS(p) == pc[p] \in {"exists", "copy_open", "copy_write", "replace", "unlock"}
TypeOK == /\ cache \in [FileSet -> -1..Chunks] /\ tmpf \in [FileSet -> -1..Chunks]
          /\ lock \in Procs \cup {None} /\ crashes \in 0..MaxCrash
\* no load fails or sees a partially written file, whatever others did / wherever they died
NoFailedLoad == \A p \in Procs : result[p] \in {"pending", "ok", "cacheerr"}
\* two holders never overlap
MutualExclusion == \A p, q \in Procs : InCS(p) /\ InCS(q) => p = q
\* a holder that cannot get the lock gives up with the cache error (and only then)
TimeoutGivesCacheError == \A p \in Procs : result[p] = "cacheerr" => Role[p] = "populate" /\ LOCK
\* the cache never keeps a torn file under a final name
NoTornFinal == \A f \in FileSet : cache[f] \in {-1, Chunks}
\* a population that ran to its end leaves complete copies of every bundled file
FinishedPopulationComplete == \A p \in Procs : pc[p] = "unlock" => \A f \in FileSet : cache[f] = Chunks
\* liveness: without further crashes everybody finishes
AllDone == \A p \in Procs : pc[p] \in {"done", "dead"}
EventuallyDone == <>[]AllDone

\* design runs: forget the schedule
View == <<cache, tmpf, lockfile, lock, pc, idx, wr, listing, src, result, crashes>>
=======================================================================
