---- MODULE MC_Gather ----
EXTENDS Gather, Json
CONSTANT NoneV
NamesDef == {"Aaa", "Bbb"}
Names1 == {"Aaa"}
ValsDef == {3, 4}
Vals3 == {3, 4, 5}
J(d) == IF d = NoneV THEN [tv |-> FALSE, pat |-> <<>>, none |-> TRUE] ELSE [tv |-> d.tv, pat |-> d.pat, none |-> FALSE]
\* one line per reachable state: the history and the abstract state the gatherer must be in after it
Emit == PrintT("@@EMIT@@" \o ToJson([hist |-> hist,
                                      known |-> [n \in Names |-> J(known[n])],
                                      amb |-> [n \in Names |-> [k \in 1..Len(amb[n]) |-> Cand(amb[n][k])]],
                                      errs |-> errs, cons |-> cons]))
\* the history variables (truth, cons) do not influence the machine: generation runs fix one truth
GenInit == Init /\ truth = (CHOOSE t \in [Names -> {d \in Def : WellFormed(d)}] : TRUE)
GenSpec == GenInit /\ [][Next]_vars
\* vacuity guards: both must be VIOLATED (an ambiguous first instance; an inconsistent history)
CompleteTooStrong == cons => \A n \in Names : Seen(n) # {} => known[n] = truth[n]
NeverErrors == \A n \in Names : errs[n] = <<>>
====
