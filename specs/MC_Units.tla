---- MODULE MC_Units ----
EXTENDS Units
Un(c, n, l, p, s, si, pre, h, fm, fe) == [cls |-> c, name |-> n, lname |-> l, plural |-> p, sym |-> s, si |-> si, prefix |-> pre, hasf |-> h, fm |-> fm, fe |-> fe]
MUDef == << Un("time", "second", "second", "seconds", FALSE, TRUE, FALSE, TRUE, 1, 0),
            Un("time", "s", "s", "s", TRUE, TRUE, FALSE, TRUE, 1, 0),
            Un("time", "minute", "minute", "minutes", FALSE, FALSE, FALSE, TRUE, 60, 0),
            Un("len", "metre", "metre", "metres", FALSE, TRUE, FALSE, TRUE, 1, 0),
            Un("len", "m", "m", "m", TRUE, TRUE, FALSE, TRUE, 1, 0),
            Un("len", "mile", "mile", "miles", FALSE, FALSE, FALSE, TRUE, 160934, -2),
            Un("cur", "$", "$", "$", TRUE, FALSE, TRUE, TRUE, 1, 0) >>
Mo(n, l, s, fm, fe) == [name |-> n, lname |-> l, sym |-> s, fm |-> fm, fe |-> fe]
MMDef == << Mo("milli", "milli", FALSE, 1, -3), Mo("m", "m", TRUE, 1, -3), Mo("kilo", "kilo", FALSE, 1, 3),
            Mo("k", "k", TRUE, 1, 3), Mo("M", "m", TRUE, 10, 6), Mo("mega", "mega", FALSE, 10, 6) >>
QueriesDef == {<<"s", "s">>, <<"S", "s">>, <<"ms", "ms">>, <<"Ms", "ms">>, <<"MS", "ms">>, <<"ks", "ks">>, <<"Ks", "ks">>,
               <<"second", "second">>, <<"Seconds", "seconds">>, <<"SECOND", "second">>, <<"millisecond", "millisecond">>,
               <<"MilliSeconds", "milliseconds">>, <<"megaseconds", "megaseconds">>, <<"minute", "minute">>, <<"Minutes", "minutes">>,
               <<"kilominute", "kilominute">>, <<"m", "m">>, <<"M", "m">>, <<"mm", "mm">>, <<"Mm", "mm">>, <<"km", "km">>, <<"metre", "metre">>,
               <<"Kilometres", "kilometres">>, <<"mile", "mile">>, <<"MILES", "miles">>, <<"$", "$">>, <<"zz", "zz">>}
====
