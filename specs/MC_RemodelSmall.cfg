CONSTANTS
  OpLists <- SmallOpLists
  TableTuples <- SmallTuples
  MaxRuns = 3
  Leaky = FALSE
SPECIFICATION Spec
INVARIANT ParamsConstant
INVARIANT InputUnchanged
INVARIANT OrderIndependent
INVARIANT InvalidNeverExecutes
INVARIANT ResultsWellFormed
INVARIANT ValidImpliesRuns
