CONSTANTS
  OpLists <- UnitOpLists
  TableTuples <- UnitTuplesQuick
  MaxRuns = 2
  Leaky = FALSE
SPECIFICATION Spec
INVARIANT ParamsConstant
INVARIANT InputUnchanged
INVARIANT OrderIndependent
INVARIANT InvalidNeverExecutes
INVARIANT ResultsWellFormed
INVARIANT ValidImpliesRuns
INVARIANT Emit
