CONSTANTS
  MaxN = 6
  Kinds <- KindsStruct
  SFlaws <- SFlawsDef
SPECIFICATION Spec
INVARIANT EmitFew
