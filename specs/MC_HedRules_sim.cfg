CONSTANTS
  MaxN = 6
  Kinds <- KindsStruct
  DUP = FALSE
  SFlaws <- SFlawsDef
SPECIFICATION Spec
INVARIANT EmitFew
