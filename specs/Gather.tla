--------------------------------- MODULE Gather ---------------------------------
(* Recovering definitions from their expansions (hed/models/def_expand_gather.py: DefExpandGatherer, AmbiguousDef;
   df_util.process_def_expands; the summarize_definitions operation keeps ONE gatherer for all files of a run).

   The gatherer is a state machine fed with (Def-expand/Name[/v], (content)) groups, one at a time, for the life of the
   object.  Per name it holds
       known[n]   a definition (takes a value or not, content pattern with '#' at the placeholder), or None
       amb[n]     the instances seen so far for a name whose placeholder position is not determined yet
       errs[n]    contents that contradict what was concluded before
   A content is abstracted to a vector over the positions 1..K of a fixed tag skeleton (the i-th tag of the sorted content
   group); only the VALUES of the tags vary.  (Limit: contents with different tags for one name are outside the model - the
   implementation pairs them by position, "todo: improve this" in the source.)

   Every step is written as the code takes it, including the two places where a later instance silently REPLACES a known
   definition of the other kind (OverrideByPlain, and resolution of an ambiguous name that is already known as a plain
   definition): they are named, so that the replay covers them and the law below states what holds in spite of them.

   What a user relies on (checked by TLC on every history, and on the real object by replay, c09 family `gather`):
     Sound      as long as every instance fed so far is an expansion of ONE true definition per name, nothing is reported as
                an error and whatever is known IS the true definition;
     Complete   for such histories, a plain definition is known after its first instance, and a value-taking definition is
                known as soon as the instances tell its placeholder from every other position (for each other position some
                instance has a value different from that position's constant);
     Shape      a known value-taking definition has exactly one '#'.
*)
EXTENDS Naturals, Sequences, FiniteSets, TLC

CONSTANTS Names, K, Vals, MaxLen, None

P == 1..K
Hash == 0      \* stands for "#" (TLC cannot mix strings and numbers in one set)
Vec == [P -> Vals]
Pat == [P -> Vals \cup {Hash}]
Instance == [n : Names, hv : BOOLEAN, v : Vals, vec : Vec]
Canon(i) == i.hv \/ i.v = CHOOSE x \in Vals : \A y \in Vals : x <= y     \* a plain instance has no value: one representative

VARIABLES known, amb, errs, hist, truth, cons
vars == <<known, amb, errs, hist, truth, cons>>

Def == [tv : BOOLEAN, pat : Pat]
OneHash(d) == Cardinality({p \in P : d.pat[p] = Hash}) = 1
NoHash(d) == \A p \in P : d.pat[p] # Hash
WellFormed(d) == IF d.tv THEN OneHash(d) ELSE NoHash(d)

Expand(d, v) == [p \in P |-> IF d.pat[p] = Hash THEN v ELSE d.pat[p]]
InstanceOf(i, d) == /\ i.hv = d.tv
                    /\ i.vec = (IF d.tv THEN Expand(d, i.v) ELSE d.pat)

\* --- what the code computes -------------------------------------------------------------------------------------------
\* DefinitionEntry.get_definition: None when the kinds (takes value / given a value) differ
Contents(d, i) == IF d = None THEN None ELSE IF d.tv # i.hv THEN None ELSE IF d.tv THEN Expand(d, i.v) ELSE d.pat

\* AmbiguousDef.add_def: every tag whose value equals the Def-expand's value might be the placeholder
Cand(i) == [p \in P |-> IF i.vec[p] = i.v THEN Hash ELSE i.vec[p]]
RangeAt(s, p) == {s[k][p] : k \in 1..Len(s)}
\* AmbiguousDef.get_group / _get_matching_value
MergeAt(cs, p) == LET S == RangeAt(cs, p) IN
                  IF Cardinality(S) = 1 THEN CHOOSE x \in S : TRUE
                  ELSE IF Hash \in S /\ Cardinality(S \ {Hash}) = 1 THEN CHOOSE x \in S \ {Hash} : TRUE
                  ELSE None
Merged(cs) == [p \in P |-> MergeAt(cs, p)]
\* AmbiguousDef.validate: "invalid" (ValueError), "one" (exactly one placeholder left), "open"
Verdict(is) == LET cs == [k \in 1..Len(is) |-> Cand(is[k])]
                   m == Merged(cs)
                   vs == [k \in 1..Len(is) |-> is[k].vec] IN
               IF \E p \in P : m[p] = None THEN "invalid"
               ELSE IF \E p \in P : m[p] # Hash /\ Cardinality(RangeAt(vs, p)) > 1 THEN "invalid"
               ELSE IF Cardinality({p \in P : m[p] = Hash}) = 1 THEN "one" ELSE "open"

\* --- actions (one per branch of _handle_known_definition / _handle_ambiguous_definition) ---------------------------------
Bookkeep(i) == /\ hist' = Append(hist, i)
               /\ cons' = (cons /\ InstanceOf(i, truth[i.n]))
               /\ UNCHANGED truth

KnownSame(i) == LET c == Contents(known[i.n], i) IN
                /\ c # None /\ c = i.vec
                /\ UNCHANGED <<known, amb, errs>>
KnownDiffers(i) == LET c == Contents(known[i.n], i) IN
                /\ c # None /\ c # i.vec
                /\ errs' = [errs EXCEPT ![i.n] = Append(@, i.vec)]
                /\ UNCHANGED <<known, amb>>
\* a plain instance for a name that is unknown - or known as a VALUE-TAKING definition, which it silently replaces
PlainNew(i) == /\ Contents(known[i.n], i) = None /\ ~i.hv
               /\ known' = [known EXCEPT ![i.n] = [tv |-> FALSE, pat |-> i.vec]]
               /\ UNCHANGED <<amb, errs>>
AfterError(i) == /\ Contents(known[i.n], i) = None /\ i.hv /\ errs[i.n] # <<>>
                 /\ errs' = [errs EXCEPT ![i.n] = Append(@, i.vec)]
                 /\ UNCHANGED <<known, amb>>
Ambiguous(i) == /\ Contents(known[i.n], i) = None /\ i.hv /\ errs[i.n] = <<>>
                /\ LET is == Append(amb[i.n], i)
                       v == Verdict(is) IN
                   CASE v = "invalid" -> /\ errs' = [errs EXCEPT ![i.n] = [k \in 1..Len(is) |-> Cand(is[k])]]
                                         /\ amb' = [amb EXCEPT ![i.n] = <<>>]
                                         /\ UNCHANGED known
                     [] v = "one"     -> /\ known' = [known EXCEPT ![i.n] =
                                                [tv |-> TRUE, pat |-> Merged([k \in 1..Len(is) |-> Cand(is[k])])]]
                                         /\ amb' = [amb EXCEPT ![i.n] = <<>>]
                                         /\ UNCHANGED errs
                     [] OTHER         -> /\ amb' = [amb EXCEPT ![i.n] = is]
                                         /\ UNCHANGED <<known, errs>>

Feed(i) == /\ Len(hist) < MaxLen
           /\ Bookkeep(i)
           /\ (KnownSame(i) \/ KnownDiffers(i) \/ PlainNew(i) \/ AfterError(i) \/ Ambiguous(i))

Init == /\ known = [n \in Names |-> None]
        /\ amb = [n \in Names |-> <<>>]
        /\ errs = [n \in Names |-> <<>>]
        /\ hist = <<>>
        /\ truth \in [Names -> {d \in Def : WellFormed(d)}]
        /\ cons = TRUE
Next == \E i \in Instance : Canon(i) /\ Feed(i)
Spec == Init /\ [][Next]_vars

\* --- properties -------------------------------------------------------------------------------------------------------
TypeOK == /\ \A n \in Names : known[n] = None \/ known[n] \in Def
          /\ \A n \in Names : \A k \in 1..Len(errs[n]) : errs[n][k] \in Pat
Shape == \A n \in Names : known[n] # None /\ known[n].tv => OneHash(known[n])
PlainShape == \A n \in Names : known[n] # None /\ ~known[n].tv => NoHash(known[n])
Sound == cons => /\ \A n \in Names : errs[n] = <<>>
                 /\ \A n \in Names : known[n] # None => known[n] = truth[n]
Seen(n) == {k \in 1..Len(hist) : hist[k].n = n}
Told(n) == \A p \in P : truth[n].pat[p] # Hash => \E k \in Seen(n) : hist[k].v # truth[n].pat[p]
Complete == cons => \A n \in Names : Seen(n) # {} =>
               IF truth[n].tv THEN (Told(n) => known[n] = truth[n]) ELSE known[n] = truth[n]
\* exactly one branch applies to every instance: the machine is deterministic and total
Deterministic == \A i \in Instance : Canon(i) =>
     LET c == Contents(known[i.n], i) IN
     Cardinality({b \in {"same", "differs", "plain", "aftererr", "amb"} :
        CASE b = "same" -> c # None /\ c = i.vec
          [] b = "differs" -> c # None /\ c # i.vec
          [] b = "plain" -> c = None /\ ~i.hv
          [] b = "aftererr" -> c = None /\ i.hv /\ errs[i.n] # <<>>
          [] b = "amb" -> c = None /\ i.hv /\ errs[i.n] = <<>>}) = 1
\* a name with errors is never left ambiguous by a value instance
ErrClosesAmb == [][\A n \in Names : (errs[n] = <<>> /\ errs'[n] # <<>> /\ hist'[Len(hist')].hv) => amb'[n] = <<>>]_vars
\* nothing is ever forgotten about errors
ErrsGrow == [][\A n \in Names : Len(errs'[n]) >= Len(errs[n])]_vars
=================================================================================
