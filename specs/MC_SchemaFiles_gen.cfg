\* generation: every history of <= 3 TSV saves into one re-used location, 5 variants
CONSTANTS
  Variants <- VariantsDef
  Rows <- RowsDef
  Locs <- LocsOne
  Fmts <- FmtsTsv
  MaxSaves = 3
  SKIP_EMPTY = FALSE
SPECIFICATION Spec
INVARIANT LoadSeesLastSave
INVARIANT EmitHist
