---------------------------- MODULE Backup ----------------------------
(* Remodeling backups of hed-python at file-system-step granularity (property C18).

   Code modelled (hed/tools/remodeling):
     backup_manager.BackupManager.__init__/_get_backups/_check_backup_consistency   -> Scan, AfterBk
     backup_manager.BackupManager.create_backup  (via cli/run_remodel_backup.main)  -> Start, Mk*, Copy*, Lock*
     backup_manager.BackupManager.restore_backup / get_task  (cli/run_remodel_restore.main)  -> Restore
     cli/run_remodel.main (handle_backup, parse_tasks, run_direct_ops) +
     dispatcher.Dispatcher.get_data_file (reads the BACKUP copy)                    -> Remodel
   IOFail / Retry: an I/O error raised at a step of the copy loop and create_backup called again on the SAME manager object.
   One action per MUTATING file-system operation of a backup creation (mkdir,
   creating the destination of a copy, one chunk written, copystat, open/write/close
   of backup_lock.json); the conformance harness (vf/fsstep.py, vf/props/c18.py)
   pauses the real process before exactly these operations and can SIGKILL it there.
   restore / remodel / modify / delete are atomic (one process run each); Damage is the environment
   removing a backup copy (exercises the consistency scan of the constructor).

   A data tree is a sequence of file descriptions in directory-walk order:
     dir  0 = data root, 1 = "code" (an excluded directory), 2 = "sub-01", 3 = "sub-02/eeg",
          4 = "sub-01/.orig" (a dot-directory: walked and backed up like any other; only in recorded random runs)
     tk   task name carried by the file name ("" = none)
     us   TRUE: the name spells it task_<tk> (what BackupManager.get_task matches),
          FALSE: the BIDS entity task-<tk> (what io_util.get_task_dict matches)
     ev   TRUE: the name ends in _events.tsv (the files the tools select)
   tree.btasks = the -t argument of run_remodel_backup (substring filter on names).

   Feature constants give deliberately broken designs for sensitivity runs:
     RECORD_FIRST  backup_lock.json is written BEFORE the copies
     OVERWRITE     creating under an existing name does not refuse
     READ_LIVE     the remodeler reads the live data file, not the backup copy
*)
EXTENDS Integers, FiniteSets, Sequences, TLC

CONSTANTS Trees,        \* set of [files : Seq(file description), btasks : Seq(STRING)]
          Chunks,       \* a file copy is Chunks writes
          LockChunks,   \* backup_lock.json is written in LockChunks writes
          TaskArgs,     \* the -t arguments offered to restore / remodel (sequences of task names)
          OpsIds,       \* ids of the remodel operation lists
          MaxCrash, MaxCreate, MaxHist,
          MaxHistUnlisted,  \* history operations allowed while the manager does not list the backup
          RECORD_FIRST, OVERWRITE, READ_LIVE

Name == "b1"
BK == <<"derivatives", "remodel", "backups">>
NameDir == BK \o <<Name>>
RootDir == NameDir \o <<"backup_root">>
DirPath == [d \in 0..4 |-> CASE d = 0 -> <<>> [] d = 1 -> <<"code">> [] d = 2 -> <<"sub-01">>
                             [] d = 3 -> <<"sub-02", "eeg">> [] d = 4 -> <<"sub-01", ".orig">>]
Prefixes(p) == {SubSeq(p, 1, j) : j \in 1..Len(p)}
Range(s) == {s[j] : j \in 1..Len(s)}
None == "none"

VARIABLES
  tree,     \* the data tree of this behaviour (never changes)
  data,     \* [file -> content]     live data files
  bk,       \* [file -> content]     copies under backup_root
  lock,     \* [k, rec]  backup_lock.json: k = -1 absent, 0 empty, 0<k<LockChunks partial JSON, LockChunks complete(rec)
  dirs,     \* directories that exist under <data_root>/derivatives (paths as sequences)
  pc,       \* next file-system operation of the running creator; "idle" = none running; "dead" = killed
  sel,      \* the creator's file_list (file indices in walk order)
  fi,       \* position in sel
  wr,       \* chunks written of the current copy / lock
  mem,      \* the creator's in-memory record (files copied so far)
  snap,     \* HISTORY: content of each data file at the moment its copy was started
  donebk,   \* HISTORY: <<bk, lock>> when the backup first became visible (listed by the manager)
  crashes, creates, nops, nmod,
  lastop,   \* HISTORY: [op, t, o, res, code] of the last action
  prevop,   \* HISTORY: lastop of the previous restore/remodel/modify/delete
  pre,      \* HISTORY: data before the last restore/remodel
  hist      \* OBSERVATION: the behaviour so far with post-states (hidden by VIEW in design runs)

vars == <<tree, data, bk, lock, dirs, pc, sel, fi, wr, mem, snap, donebk, crashes, creates, nops, nmod,
          lastop, prevop, pre, hist>>

N == Len(tree.files)
Idx == 1..N
IdxSeq == [i \in 1..N |-> i]
F(i) == tree.files[i]

\* ---- contents: whose original (o), modification number (v), remodel lists applied (r), chunks present (k)
Cont(o, v, r, k) == [o |-> o, v |-> v, r |-> r, k |-> k]
Absent == Cont(0, 0, <<>>, -1)
Orig(i) == Cont(i, 0, <<>>, Chunks)
Exists(c) == c.k >= 0
Rem(c, o) == [c EXCEPT !.r = Append(@, o)]

Op(op, t, o, res, code) == [op |-> op, t |-> t, o |-> o, res |-> res, code |-> code]
NoOp == Op("init", <<>>, 0, "", "")

\* ---- what the constructor of BackupManager concludes from the directory (_get_backups)
InRoot(b) == {i \in Idx : Exists(b[i])}
Scan(ds, b, l) ==
  IF NameDir \notin ds THEN [res |-> "omits", code |-> "", rec |-> <<>>]
  ELSE IF (IF RootDir \in ds THEN 1 ELSE 0) + (IF l.k >= 0 THEN 1 ELSE 0) # 2
       THEN [res |-> "raises", code |-> "BadBackupFormat", rec |-> <<>>]
  ELSE IF l.k < LockChunks THEN [res |-> "raises", code |-> "JSONDecodeError", rec |-> <<>>]
  ELSE IF InRoot(b) \ Range(l.rec) # {} THEN [res |-> "raises", code |-> "MissingBackupFile", rec |-> <<>>]
  ELSE IF Range(l.rec) \ InRoot(b) # {} THEN [res |-> "raises", code |-> "ExtraFilesInBackup", rec |-> <<>>]
  ELSE [res |-> "lists", code |-> "", rec |-> l.rec]
Now == Scan(dirs, bk, lock)
Listed == Now.res = "lists"

\* ---- file selection of run_remodel_backup.main (get_file_list + get_filtered_by_element)
BSel(i, d) == /\ F(i).ev /\ F(i).dir # 1 /\ Exists(d[i])
              /\ (tree.btasks = <<>> \/ F(i).tk \in Range(tree.btasks))
Selection(d) == SelectSeq(IdxSeq, LAMBDA i : BSel(i, d))

\* ---- the creator's control flow between file-system operations
FileDir(i) == RootDir \o DirPath[F(i).dir]
Missing(t, ds) == {j \in 1..Len(t) : SubSeq(t, 1, j) \notin ds}
NextDir(t, ds) == SubSeq(t, 1, CHOOSE j \in Missing(t, ds) : \A k \in Missing(t, ds) : j <= k)

LoopPc(s, j, ds) == IF j > Len(s) THEN (IF RECORD_FIRST THEN "fin" ELSE "lock_open")
                    ELSE IF Missing(FileDir(s[j]), ds) # {} THEN "mkdir" ELSE "copy_open"
AfterRoot(s, ds) == IF Missing(RootDir, ds) # {} THEN "mkroot"
                    ELSE IF RECORD_FIRST THEN "lock_open" ELSE LoopPc(s, 1, ds)
\* constructor: os.makedirs(backups_path), then the scan; then main's BackupExists / create_backup's `return False`
AfterBk(s, ds) == IF Missing(BK, ds) # {} THEN "mkbk"
                  ELSE LET sc == Scan(ds, bk, lock) IN
                       IF sc.res = "raises" THEN "failed"
                       ELSE IF sc.res = "lists" /\ ~OVERWRITE THEN "refused"
                       ELSE AfterRoot(s, ds)
Running == pc \notin {"idle", "dead", "caught"}

\* LAST conjuncts of every action: land on the next pc, remember the action, log the post-state
Land(p, opname, code) ==
   /\ pc' = (IF p \in {"fin", "failed", "refused"} THEN "idle" ELSE p)
   /\ lastop' = Op(opname, <<>>, 0,
                   IF p = "fin" THEN "created" ELSE IF p \in {"failed", "refused"} THEN p ELSE "running", code)
   /\ donebk' = (IF donebk = <<>> /\ Scan(dirs', bk', lock').res = "lists" THEN <<bk', lock'>> ELSE donebk)
Log(arg) == hist' = Append(hist, [op |-> lastop'.op, t |-> lastop'.t, o |-> lastop'.o, arg |-> arg,
                                   res |-> lastop'.res, code |-> lastop'.code,
                                   data |-> data', bk |-> bk', lock |-> lock', dirs |-> dirs',
                                   scan |-> Scan(dirs', bk', lock'), pc |-> pc'])
FailCode(p, ds) == IF p = "failed" THEN Scan(ds, bk, lock).code ELSE ""

InitFor(tr) ==
        /\ tree = tr
        /\ data = [i \in 1..Len(tr.files) |-> Orig(i)]
        /\ bk = [i \in 1..Len(tr.files) |-> Absent]
        /\ snap = [i \in 1..Len(tr.files) |-> Absent]
        /\ lock = [k |-> -1, rec |-> <<>>]
        /\ dirs = {} /\ pc = "idle" /\ sel = <<>> /\ fi = 1 /\ wr = 0 /\ mem = <<>>
        /\ donebk = <<>> /\ crashes = 0 /\ creates = 0 /\ nops = 0 /\ nmod = 0
        /\ lastop = NoOp /\ prevop = NoOp /\ pre = data /\ hist = <<>>
Init == \E tr \in Trees : InitFor(tr)

\* a run of run_remodel_backup.main starts: walk the tree, construct the manager (up to its first mkdir)
Start == /\ pc = "idle" /\ creates < MaxCreate
         /\ creates' = creates + 1
         /\ sel' = Selection(data) /\ fi' = 1 /\ wr' = 0 /\ mem' = <<>>
         /\ UNCHANGED <<tree, data, bk, lock, dirs, snap, crashes, nops, nmod, prevop, pre>>
         /\ Land(AfterBk(sel', dirs), "start", FailCode(AfterBk(sel', dirs), dirs))
         /\ Log(<<>>)

\* os.makedirs(self.backups_path): one os.mkdir per missing level
MkBk == /\ pc = "mkbk"
        /\ dirs' = dirs \cup {NextDir(BK, dirs)}
        /\ UNCHANGED <<tree, data, bk, lock, sel, fi, wr, mem, snap, crashes, creates, nops, nmod, prevop, pre>>
        /\ Land(AfterBk(sel, dirs'), "mkdir", FailCode(AfterBk(sel, dirs'), dirs'))
        /\ Log(NextDir(BK, dirs))

\* os.makedirs(<backups>/<name>/backup_root)
MkRoot == /\ pc = "mkroot"
          /\ dirs' = dirs \cup {NextDir(RootDir, dirs)}
          /\ UNCHANGED <<tree, data, bk, lock, sel, fi, wr, mem, snap, crashes, creates, nops, nmod, prevop, pre>>
          /\ Land(AfterRoot(sel, dirs'), "mkdir", "")
          /\ Log(NextDir(RootDir, dirs))

\* os.makedirs(os.path.dirname(backup_file))
MkDir == /\ pc = "mkdir"
         /\ dirs' = dirs \cup {NextDir(FileDir(sel[fi]), dirs)}
         /\ UNCHANGED <<tree, data, bk, lock, sel, fi, wr, mem, snap, crashes, creates, nops, nmod, prevop, pre>>
         /\ Land(LoopPc(sel, fi, dirs'), "mkdir", "")
         /\ Log(NextDir(FileDir(sel[fi]), dirs))

\* shutil.copy2: the destination is created (or truncated)
CopyOpen == /\ pc = "copy_open"
            /\ bk' = [bk EXCEPT ![sel[fi]] = [data[sel[fi]] EXCEPT !.k = 0]]
            /\ snap' = [snap EXCEPT ![sel[fi]] = data[sel[fi]]]
            /\ wr' = 0
            /\ UNCHANGED <<tree, data, lock, dirs, sel, fi, mem, crashes, creates, nops, nmod, prevop, pre>>
            /\ Land("copy_write", "copy_open", "")
            /\ Log(<<sel[fi]>>)

CopyWrite == /\ pc = "copy_write"
             /\ wr' = wr + 1
             /\ bk' = [bk EXCEPT ![sel[fi]].k = wr + 1]
             /\ UNCHANGED <<tree, data, lock, dirs, sel, fi, mem, snap, crashes, creates, nops, nmod, prevop, pre>>
             /\ Land(IF wr + 1 < Chunks THEN "copy_write" ELSE "copy_meta", "copy_write", "")
             /\ Log(<<sel[fi]>>)

\* copystat, then `backup[key] = time_stamp` in memory
CopyMeta == /\ pc = "copy_meta"
            /\ mem' = Append(mem, sel[fi])
            /\ fi' = fi + 1
            /\ UNCHANGED <<tree, data, bk, lock, dirs, sel, wr, snap, crashes, creates, nops, nmod, prevop, pre>>
            /\ Land(LoopPc(sel, fi + 1, dirs), "copy_meta", "")
            /\ Log(<<sel[fi]>>)

\* open(backup_lock.json, 'w')
LockOpen == /\ pc = "lock_open"
            /\ lock' = [k |-> 0, rec |-> IF RECORD_FIRST THEN sel ELSE mem]
            /\ wr' = 0
            /\ UNCHANGED <<tree, data, bk, dirs, sel, fi, mem, snap, crashes, creates, nops, nmod, prevop, pre>>
            /\ Land("lock_write", "lock_open", "")
            /\ Log(<<>>)

\* json.dump: the text reaches the file in LockChunks pieces
LockWrite == /\ pc = "lock_write"
             /\ wr' = wr + 1
             /\ lock' = [lock EXCEPT !.k = wr + 1]
             /\ UNCHANGED <<tree, data, bk, dirs, sel, fi, mem, snap, crashes, creates, nops, nmod, prevop, pre>>
             /\ Land(IF wr + 1 < LockChunks THEN "lock_write" ELSE "lock_close", "lock_write", "")
             /\ Log(<<>>)

LockClose == /\ pc = "lock_close"
             /\ UNCHANGED <<tree, data, bk, lock, dirs, sel, fi, wr, mem, snap, crashes, creates, nops, nmod, prevop, pre>>
             /\ Land(IF RECORD_FIRST THEN LoopPc(sel, 1, dirs) ELSE "fin", "lock_close", "")
             /\ Log(<<>>)

\* SIGKILL at a file-system step
Crash == /\ Running /\ crashes < MaxCrash
         /\ crashes' = crashes + 1
         /\ pc' = "dead"
         /\ lastop' = Op("crash", <<>>, 0, "crashed", "")
         /\ UNCHANGED <<tree, data, bk, lock, dirs, sel, fi, wr, mem, snap, donebk, creates, nops, nmod, prevop, pre>>
         /\ Log(<<>>)

\* An I/O error (disk full, ...) at a file-system step of the copy loop: the operation does not happen, create_backup
\* lets the exception through.  The process and the MANAGER OBJECT live on; the backup is not in the object's table yet.
FailSteps == {"mkdir", "copy_open", "copy_write", "copy_meta"}
IOFail == /\ pc \in FailSteps /\ crashes < MaxCrash
          /\ crashes' = crashes + 1
          /\ pc' = "caught"
          /\ lastop' = Op("iofail", <<>>, 0, "raised", "OSError")
          /\ UNCHANGED <<tree, data, bk, lock, dirs, sel, fi, wr, mem, snap, donebk, creates, nops, nmod, prevop, pre>>
          /\ Log(<<>>)
\* the caller calls create_backup AGAIN ON THE SAME OBJECT with the same file list: the name is not in the object's table,
\* makedirs(exist_ok), and EVERY file is copied anew (a partial copy left by the failed attempt is overwritten)
Retry == /\ pc = "caught" /\ creates < MaxCreate
         /\ creates' = creates + 1 /\ fi' = 1 /\ wr' = 0 /\ mem' = <<>>
         /\ UNCHANGED <<tree, data, bk, lock, dirs, sel, snap, crashes, nops, nmod, prevop, pre>>
         /\ Land(AfterRoot(sel, dirs), "retry", "")
         /\ Log(<<>>)
\* ... or the process is killed / ends there
CrashCaught == /\ pc = "caught"
               /\ pc' = "dead"
               /\ lastop' = Op("crash", <<>>, 0, "crashed", "")
               /\ UNCHANGED <<tree, data, bk, lock, dirs, sel, fi, wr, mem, snap, donebk, crashes, creates, nops, nmod, prevop, pre>>
               /\ Log(<<>>)

\* a FRESH process constructs BackupManager(data_root): makes the backups directory, scans
Reopen == /\ pc = "dead"
          /\ dirs' = dirs \cup Prefixes(BK)
          /\ pc' = "idle"
          /\ lastop' = Op("reopen", <<>>, 0, Scan(dirs', bk, lock).res, Scan(dirs', bk, lock).code)
          /\ UNCHANGED <<tree, data, bk, lock, sel, fi, wr, mem, snap, donebk, crashes, creates, nops, nmod, prevop, pre>>
          /\ Log(<<>>)

\* ---- history after a creation attempt -------------------------------------------------------------
CanOp == pc = "idle" /\ creates > 0 /\ nops < (IF Listed THEN MaxHist ELSE MaxHistUnlisted)

Modify(i) == /\ CanOp
             /\ data' = [data EXCEPT ![i] = Cont(i, nmod + 1, <<>>, Chunks)]
             /\ nmod' = nmod + 1 /\ nops' = nops + 1
             /\ lastop' = Op("modify", <<>>, 0, "ok", "") /\ prevop' = lastop /\ pre' = data
             /\ UNCHANGED <<tree, bk, lock, dirs, pc, sel, fi, wr, mem, snap, donebk, crashes, creates>>
             /\ Log(<<i>>)

Delete(i) == /\ CanOp /\ Exists(data[i])
             /\ data' = [data EXCEPT ![i] = Absent]
             /\ nops' = nops + 1
             /\ lastop' = Op("delete", <<>>, 0, "ok", "") /\ prevop' = lastop /\ pre' = data
             /\ UNCHANGED <<tree, bk, lock, dirs, pc, sel, fi, wr, mem, snap, donebk, crashes, creates, nmod>>
             /\ Log(<<i>>)

\* the environment loses a backup copy (careless clean-up): afterwards the consistency scan must not list the backup
Damage(i) == /\ CanOp /\ Exists(bk[i])
             /\ bk' = [bk EXCEPT ![i] = Absent]
             /\ donebk' = (IF donebk # <<>> THEN <<bk', lock>> ELSE donebk)
             /\ nops' = nops + 1
             /\ lastop' = Op("damage", <<>>, 0, "ok", "") /\ prevop' = lastop /\ pre' = data
             /\ UNCHANGED <<tree, data, lock, dirs, pc, sel, fi, wr, mem, snap, crashes, creates, nmod>>
             /\ Log(<<i>>)

\* BackupManager.get_task: 'task_' + t is a substring of the base name
RSel(i, T) == T = <<>> \/ (F(i).us /\ F(i).tk \in Range(T))
RestoreMap(T, d) == [i \in Idx |-> IF i \in Range(lock.rec) /\ RSel(i, T) THEN bk[i] ELSE d[i]]

\* outcome of constructing the manager and asking for the backup (run_remodel_restore / handle_backup)
Avail(ds) == LET sc == Scan(ds, bk, lock) IN
             IF sc.res = "raises" THEN [res |-> "raises", code |-> sc.code]
             ELSE IF sc.res = "omits" \/ sc.rec = <<>> THEN [res |-> "nobackup", code |-> "BackupDoesNotExist"]
             ELSE [res |-> "ok", code |-> ""]

Restore(T) == /\ CanOp
              /\ dirs' = dirs \cup Prefixes(BK)
              /\ data' = (IF Avail(dirs').res = "ok" THEN RestoreMap(T, data) ELSE data)
              /\ nops' = nops + 1
              /\ lastop' = Op("restore", T, 0, Avail(dirs').res, Avail(dirs').code) /\ prevop' = lastop /\ pre' = data
              /\ UNCHANGED <<tree, bk, lock, pc, sel, fi, wr, mem, snap, donebk, crashes, creates, nmod>>
              /\ Log(<<>>)

\* run_remodel.main: restore (same -t), list the event files, group by task-<t>, read each from the backup, write
MSel(i, d) == F(i).ev /\ F(i).dir # 1 /\ Exists(d[i])
RECURSIVE ByTask(_, _)
ByTask(T, d) == IF T = <<>> THEN <<>>
                ELSE SelectSeq(IdxSeq, LAMBDA i : MSel(i, d) /\ ~F(i).us /\ F(i).tk = Head(T)) \o ByTask(Tail(T), d)
Targets(T, d) == IF T = <<>> THEN SelectSeq(IdxSeq, LAMBDA i : MSel(i, d)) ELSE ByTask(T, d)
Source(i, d) == IF READ_LIVE THEN d[i] ELSE bk[i]
RECURSIVE Process(_, _, _)
Process(s, d, o) == IF s = <<>> THEN [d |-> d, res |-> "ok", code |-> ""]
                    ELSE IF ~Exists(Source(Head(s), d)) THEN [d |-> d, res |-> "abort", code |-> "BadDataFile"]
                    ELSE Process(Tail(s), [d EXCEPT ![Head(s)] = Rem(Source(Head(s), d), o)], o)
Remodeled(T, o, d) == Process(Targets(T, RestoreMap(T, d)), RestoreMap(T, d), o)

Remodel(T, o) == /\ CanOp
                 /\ dirs' = dirs \cup Prefixes(BK)
                 /\ LET a == Avail(dirs') r == Remodeled(T, o, data) IN
                      /\ data' = (IF a.res = "ok" THEN r.d ELSE data)
                      /\ lastop' = (IF a.res = "ok" THEN Op("remodel", T, o, r.res, r.code) ELSE Op("remodel", T, o, a.res, a.code))
                 /\ nops' = nops + 1 /\ prevop' = lastop /\ pre' = data
                 /\ UNCHANGED <<tree, bk, lock, pc, sel, fi, wr, mem, snap, donebk, crashes, creates, nmod>>
                 /\ Log(<<>>)

ModifyAny == \E i \in Idx : Modify(i)
DeleteAny == \E i \in Idx : Delete(i)
DamageAny == \E i \in Idx : Damage(i)
RestoreAny == \E T \in TaskArgs : Restore(T)
RemodelAny == \E T \in TaskArgs, o \in OpsIds : Remodel(T, o)
Next == \/ Start \/ MkBk \/ MkRoot \/ MkDir \/ CopyOpen \/ CopyWrite \/ CopyMeta
        \/ LockOpen \/ LockWrite \/ LockClose \/ Crash \/ Reopen \/ IOFail \/ Retry \/ CrashCaught
        \/ ModifyAny \/ DeleteAny \/ DamageAny \/ RestoreAny \/ RemodelAny
Spec == Init /\ [][Next]_vars

----------------------------------------------------------------------
\* Properties (C18)
IsCont(c) == c.o \in 0..N /\ c.k \in -1..Chunks
TypeOK == /\ \A i \in Idx : IsCont(data[i]) /\ IsCont(bk[i])
          /\ lock.k \in -1..LockChunks /\ crashes \in 0..MaxCrash /\ creates \in 0..MaxCreate

\* whenever the manager would list the backup, every recorded file is present, complete and the content backed up
NeverHalfValid == Listed => \A i \in Range(Now.rec) : bk[i].k = Chunks /\ bk[i] = snap[i]
\* once listed, a backup never changes, whatever runs afterwards (incl. creating again under the same name)
NoOverwrite == donebk # <<>> => <<bk, lock>> = donebk
CreatedIsListed == lastop.res = "created" => Listed
\* restoring everything gives back the backed-up bytes, whatever happened to the data files
RestoreIdentity == lastop.op = "restore" /\ lastop.res = "ok" /\ lastop.t = <<>>
                      => \A i \in Range(Now.rec) : data[i] = snap[i] /\ data[i].k = Chunks
RestoreWorks == lastop.op = "restore" /\ Listed /\ Now.rec # <<>> => lastop.res = "ok"
\* restoring tasks touches only files of those tasks (either spelling of the task in the name), and only recorded ones
OfTask(i, T) == F(i).tk \in Range(T)
RestoreTasksOnlyThose == lastop.op = "restore" /\ lastop.t # <<>>
                            => \A i \in Idx : (~OfTask(i, lastop.t) \/ i \notin Range(Now.rec)) => data[i] = pre[i]
RestoreTouchesOnlyRecorded == lastop.op = "restore" => \A i \in Idx : i \notin Range(Now.rec) => data[i] = pre[i]
RestoredAreOriginals == lastop.op = "restore" => \A i \in Idx : data[i] = pre[i] \/ data[i] = snap[i]
\* the remodeler always starts from the backed-up originals ...
RemodelFromOriginals ==
   lastop.op = "remodel" /\ lastop.res = "ok" =>
      LET tg == Range(Targets(lastop.t, RestoreMap(lastop.t, pre))) IN
      \A i \in Idx : IF i \in tg THEN data[i] = Rem(snap[i], lastop.o)
                     ELSE data[i] = pre[i] \/ (i \in Range(Now.rec) /\ data[i] = snap[i])
\* ... so running it twice equals running it once
RemodelIdempotent == lastop.op = "remodel" /\ lastop.res = "ok" /\ prevop = lastop => data = pre
RemodelAbortOnlyUnbacked == lastop.op = "remodel" /\ lastop.res = "abort"
                               => \E i \in Idx : F(i).ev /\ F(i).dir # 1 /\ i \notin Range(Now.rec)
\* an operation that reports failure before doing anything leaves the data alone
FailedChangesNothing == lastop.op \in {"restore", "remodel"} /\ lastop.res \in {"raises", "nobackup"} => data = pre

\* design runs: forget the logged behaviour
View == <<tree, data, bk, lock, dirs, pc, sel, fi, wr, mem, snap, donebk, crashes, creates, nops, nmod, lastop, prevop, pre>>
=======================================================================
