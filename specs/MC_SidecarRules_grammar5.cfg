CONSTANTS
  Keys <- KeysSmall
  GScalars <- ScalarsSmall
  MaxDepth = 3
  MaxNodes = 5
  Bases <- NoBases
  MaxFaults = 0
  RefNames <- RefNamesDef
  DropRule = ""
  Mode = "grammar"
SPECIFICATION Spec
INVARIANT Total
INVARIANT TypingSound
INVARIANT GrammarBound
INVARIANT Emit
