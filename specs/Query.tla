---- MODULE Query ----
(***************************************************************************)
(* C15 -- search queries obey their documented logic on every annotation.  *)
(*                                                                         *)
(* Part 1  annotation trees and the RESULT-LIST semantics of a query as    *)
(*         hed/models/query_expressions.py computes it (SearchResult =     *)
(*         <<group, set of children>>, lists in the order the code builds  *)
(*         them), the algebraic laws of the property statement.            *)
(* Part 2  query text: the tokenizer (character classes of                 *)
(*         QueryHandler._tokenize) and the parser, once as a pushdown      *)
(*         automaton with an explicit reject state and once as the         *)
(*         recursive descent of query_handler.py; TLC proves them equal.   *)
(*                                                                         *)
(* A tag is its casefolded short form (value included) plus the set of     *)
(* terms on its schema path.  Model runs use the abstract vocabulary of    *)
(* MC_Query.tla, trace runs the real HED 8.3.0 vocabulary read by          *)
(* vf/facts.py.                                                            *)
(***************************************************************************)
EXTENDS Integers, Sequences, FiniteSets, TLC, SequencesExt

CONSTANTS Variant      \* "ok" = the semantics; "nodisjoint"/"asym"/"orleft" = deliberately broken (sensitivity runs)

(* ======================= Part 1: annotations ========================== *)
\* T = [n, par, lab, terms]: node 0 is the HedString root, nodes 1..n are numbered in PRE-ORDER
\* (document order); lab[k] = "grp" for a parenthesised group, the short form for a tag;
\* terms[k] = the terms on the tag's schema path ({} for a group).
GRP == "grp"
IsGrp(T, k) == k = 0 \/ T.lab[k] = GRP
IsTag(T, k) == k # 0 /\ T.lab[k] # GRP
Nodes(T) == 1..T.n
Kids(T, g) == {k \in Nodes(T) : T.par[k] = g}
RECURSIVE AncSelf(_, _)
AncSelf(T, k) == IF k = 0 THEN {0} ELSE {k} \cup AncSelf(T, T.par[k])
Depth(T, k) == Cardinality(AncSelf(T, k)) - 1
PreOK(T) == \A k \in Nodes(T) : /\ T.par[k] \in 0..(k-1)
                                 /\ IsGrp(T, T.par[k])
                                 /\ (k > 1 => T.par[k] \in AncSelf(T, k-1))
EmptyTree == [n |-> 0, par |-> <<>>, lab |-> <<>>, terms |-> <<>>]
\* append one node in document order (the generator of all trees)
AddNode(T, p, l, ts) == [n |-> T.n + 1, par |-> Append(T.par, p), lab |-> Append(T.lab, l), terms |-> Append(T.terms, ts)]
OpenGroups(T) == IF T.n = 0 THEN {0} ELSE {g \in AncSelf(T, T.n) : IsGrp(T, g)}

NodeSeq(T) == [i \in 1..T.n |-> i]
TagSeq(T) == SelectSeq(NodeSeq(T), LAMBDA k : IsTag(T, k))                      \* get_all_tags()
GroupSeq(T) == <<0>> \o SelectSeq(NodeSeq(T), LAMBDA k : T.lab[k] = GRP)        \* get_all_groups()
KidSeq(T, g) == SelectSeq(NodeSeq(T), LAMBDA k : T.par[k] = g)                  \* group.children

\* HedGroup.__eq__: same children in the same order (tags compare by short form); the root
\* (is_group = False) equals only itself.  With pre-order numbering a subtree is an index interval.
Below(T, g) == {k \in Nodes(T) : k # g /\ g \in AncSelf(T, k)}
GEq(T, a, b) == \/ a = b
                \/ /\ a # 0 /\ b # 0
                   /\ LET da == Below(T, a)
                          db == Below(T, b)
                      IN /\ Cardinality(da) = Cardinality(db)
                         /\ \A k \in da : LET k2 == k - a + b
                                          IN /\ k2 \in db
                                             /\ T.lab[k] = T.lab[k2]
                                             /\ T.par[k] - a = T.par[k2] - b

(* ----------------------------- queries -------------------------------- *)
\* AST:  [op |-> "term"|"exact"|"prefix", t |-> string]      Red   "Red"   Re*
\*       [op |-> "wild", t |-> 1|2|3]                        ?  ??  ???
\*       [op |-> "and"|"or", l, r]   [op |-> "not", r]       &&  ||  ~
\*       [op |-> "desc", r]                                  [ r ]
\*       [op |-> "xany", r]                                  { r }
\*       [op |-> "xonly", r]                                 { r : }
\*       [op |-> "xopt", r, l]                               { r : l }
AtomOps == {"term", "exact", "prefix"}
StartsWith(s, p) == Len(p) <= Len(s) /\ SubSeq(s, 1, Len(p)) = p
TagMatches(T, k, q) ==
    CASE q.op = "term"   -> q.t \in T.terms[k]         \* find_tags_with_term: term on the schema path
      [] q.op = "exact"  -> q.t = T.lab[k]           \* find_exact_tags: the exact tag
      [] q.op = "prefix" -> StartsWith(T.lab[k], q.t) \* find_wildcard_tags: short-form prefix
MatchTags(T, q) == {k \in Nodes(T) : IsTag(T, k) /\ TagMatches(T, k, q)}

RECURSIVE HasWild(_), HasNeg(_), WellFormed(_)
HasWild(q) == CASE q.op = "wild" -> TRUE
                [] q.op \in AtomOps -> FALSE
                [] q.op \in {"and", "or", "xopt"} -> HasWild(q.l) \/ HasWild(q.r)
                [] OTHER -> HasWild(q.r)
HasNeg(q) == CASE q.op = "not" -> TRUE
               [] q.op \in AtomOps \cup {"wild"} -> FALSE
               [] q.op \in {"and", "or", "xopt"} -> HasNeg(q.l) \/ HasNeg(q.r)
               [] OTHER -> HasNeg(q.r)
\* what the parser accepts: no negation over wildcards, no negation inside { : }
WellFormed(q) == CASE q.op \in AtomOps \cup {"wild"} -> TRUE
                   [] q.op = "not" -> ~HasWild(q.r) /\ WellFormed(q.r)
                   [] q.op = "xonly" -> ~HasNeg(q.r) /\ WellFormed(q.r)
                   [] q.op = "xopt" -> ~HasNeg(q.r) /\ ~HasNeg(q.l) /\ WellFormed(q.r) /\ WellFormed(q.l)
                   [] q.op \in {"and", "or"} -> WellFormed(q.l) /\ WellFormed(q.r)
                   [] OTHER -> WellFormed(q.r)

(* ------------------- result lists (SearchResult) ----------------------- *)
\* a result is <<group, set of children of that group>>; a result list is a sequence
RECURSIVE UpSeq(_, _, _)
\* Expression.handle_expr, exact=False: the hit is reported for the containing group and,
\* "eating" the group as the child, for every ancestor up to the root
UpSeq(T, g, c) == <<(<<g, {c}>>)>> \o (IF g = 0 THEN <<>> ELSE UpSeq(T, T.par[g], g))
\* SearchResult.has_same_tags: groups compared with == (structural), children by identity
Same(T, x, y) == x[2] = y[2] /\ GEq(T, x[1], y[1])
InList(T, x, s) == \E j \in 1..Len(s) : Same(T, x, s[j])
Compatible(a, b) ==
    /\ a[1] = b[1]
    /\ CASE Variant = "nodisjoint" -> TRUE
         [] Variant = "asym" -> ~(a[2] \subseteq b[2])
         [] OTHER -> a[2] \cap b[2] = {}               \* no child shared (by identity)
\* ExpressionAnd.merge_and_groups: nested loop (left results outer, right results inner); among
\* equal merged results the first occurrence wins
MergeRow(T, acc, a, s2) ==
    FoldLeft(LAMBDA acc2, b : LET m == <<a[1], a[2] \cup b[2]>>
                              IN IF Compatible(a, b) /\ ~InList(T, m, acc2) THEN Append(acc2, m) ELSE acc2,
             acc, s2)
AndSeq(T, s1, s2) == IF s1 = <<>> \/ s2 = <<>> THEN <<>>
                     ELSE FoldLeft(LAMBDA acc, a : MergeRow(T, acc, a, s2), <<>>, s1)
\* ExpressionOr.handle_expr: left results that duplicate a right result are dropped, then concatenation
OrSeq(T, s1, s2) == IF Variant = "orleft" THEN (IF s1 # <<>> THEN s1 ELSE <<>>)
                    ELSE SelectSeq(s1, LAMBDA a : ~InList(T, a, s2)) \o s2
NotSeq(T, f) == LET gs == SelectSeq(GroupSeq(T), LAMBDA g : ~\E j \in 1..Len(f) : f[j][1] = g)
                IN [i \in 1..Len(gs) |-> <<gs[i], {}>>]
\* Expression._get_parent_groups: results of the root are dropped, the group becomes the child
Lift(T, s) == LET f == SelectSeq(s, LAMBDA r : r[1] # 0)
              IN [i \in 1..Len(f) |-> <<T.par[f[i][1]], {f[i][1]}>>]
\* ExpressionExactMatch._filter_exact_matches
OnlyThese(T, s) == SelectSeq(s, LAMBDA r : Cardinality(Kids(T, r[1])) = Cardinality(r[2]))
WildSeq(T, kind) ==
    LET gs == GroupSeq(T)
        pick(g) == SelectSeq(KidSeq(T, g), LAMBDA c : kind = 1 \/ (kind = 2 /\ IsTag(T, c)) \/ (kind = 3 /\ IsGrp(T, c)))
    IN FlattenSeq([i \in 1..Len(gs) |-> LET ks == pick(gs[i]) IN [j \in 1..Len(ks) |-> <<gs[i], {ks[j]}>>]])

RECURSIVE Eval(_, _, _)
Eval(T, q, exact) ==
  CASE q.op \in AtomOps ->
         LET found == SelectSeq(TagSeq(T), LAMBDA k : TagMatches(T, k, q))
         IN IF exact THEN [i \in 1..Len(found) |-> <<T.par[found[i]], {found[i]}>>]
            ELSE FlattenSeq([i \in 1..Len(found) |-> UpSeq(T, T.par[found[i]], found[i])])
    [] q.op = "wild"  -> WildSeq(T, q.t)
    [] q.op = "and"   -> LET a == Eval(T, q.l, exact) IN IF a = <<>> THEN <<>> ELSE AndSeq(T, a, Eval(T, q.r, exact))
    [] q.op = "or"    -> OrSeq(T, Eval(T, q.l, exact), Eval(T, q.r, exact))
    [] q.op = "not"   -> NotSeq(T, Eval(T, q.r, exact))
    [] q.op = "desc"  -> Lift(T, Eval(T, q.r, FALSE))
    [] q.op = "xany"  -> Lift(T, Eval(T, q.r, TRUE))
    [] q.op = "xonly" -> Lift(T, OnlyThese(T, Eval(T, q.r, TRUE)))
    [] q.op = "xopt"  -> LET found == Eval(T, q.r, TRUE)
                             strict == OnlyThese(T, found)
                         IN IF strict # <<>> THEN Lift(T, strict)
                            ELSE Lift(T, OnlyThese(T, AndSeq(T, found, Eval(T, q.l, TRUE))))
\* bool(QueryHandler(q).search(hed_string))
Match(T, q) == Eval(T, q, FALSE) # <<>>

And(a, b) == [op |-> "and", l |-> a, r |-> b]
Or(a, b) == [op |-> "or", l |-> a, r |-> b]
Not(a) == [op |-> "not", r |-> a]

(* ------------------------------ laws ----------------------------------- *)
\* Q: a SEQUENCE of well-formed queries.  The result lists of the members are computed once (E)
\* and combined with the same operators Eval uses for && and ||.
Res(T, Q) == [i \in 1..Len(Q) |-> Eval(T, Q[i], FALSE)]
Idx(Q) == 1..Len(Q)
LawOrIff(T, Q) == LET E == Res(T, Q) IN
    \A a, b \in Idx(Q) : (OrSeq(T, E[a], E[b]) # <<>>) <=> (E[a] # <<>> \/ E[b] # <<>>)
LawAndOnlyIfBoth(T, Q) == LET E == Res(T, Q) IN
    \A a, b \in Idx(Q) : (AndSeq(T, E[a], E[b]) # <<>>) => (E[a] # <<>> /\ E[b] # <<>>)
LawAndSymmetric(T, Q) == LET E == Res(T, Q) IN
    \A a, b \in Idx(Q) : (AndSeq(T, E[a], E[b]) # <<>>) <=> (AndSeq(T, E[b], E[a]) # <<>>)
LawAndAssociative(T, Q) == LET E == Res(T, Q) IN
    \A a, b, c \in Idx(Q) : (AndSeq(T, AndSeq(T, E[a], E[b]), E[c]) # <<>>)
                              <=> (AndSeq(T, E[a], AndSeq(T, E[b], E[c])) # <<>>)
\* "via distinct tags": two term-like operands of a matching && are witnessed by two different tags
DistinctWitness(T, a, b) == \E k1 \in MatchTags(T, a) : \E k2 \in MatchTags(T, b) : k1 # k2
LawAndDistinctTags(T, A) == LET E == Res(T, A) IN
    \A a, b \in Idx(A) : (AndSeq(T, E[a], E[b]) # <<>>) => DistinctWitness(T, A[a], A[b])
\* the same annotation with siblings in another order: a relabelling pi of the nodes that keeps
\* parents and labels and is again in document order
Relabel(T, pi) == [n |-> T.n,
                   par |-> [k \in 1..T.n |-> LET o == CHOOSE j \in 1..T.n : pi[j] = k
                                             IN IF T.par[o] = 0 THEN 0 ELSE pi[T.par[o]]],
                   lab |-> [k \in 1..T.n |-> T.lab[CHOOSE j \in 1..T.n : pi[j] = k]],
                   terms |-> [k \in 1..T.n |-> T.terms[CHOOSE j \in 1..T.n : pi[j] = k]]]
IsPerm(T, pi) == /\ DOMAIN pi = 1..T.n
                 /\ \A k \in 1..T.n : pi[k] \in 1..T.n
                 /\ \A j, k \in 1..T.n : pi[j] = pi[k] => j = k
SiblingOrders(T) == {T2 \in {Relabel(T, pi) : pi \in Permutations(1..T.n)} : PreOK(T2)}
LawSiblingOrder(T, Q) == \A T2 \in SiblingOrders(T) : T2 # T => \A i \in Idx(Q) : Match(T2, Q[i]) = Match(T, Q[i])

(* ======================= Part 2: query text =========================== *)
Ch(s, i) == SubSeq(s, i, i)
GroupChars == {"(", ")", "[", "]", "{", "}"}
WordChars == {"a","b","c","d","e","f","g","h","i","j","k","l","m","n","o","p","q","r","s","t","u","v","w","x","y","z",
              "A","B","C","D","E","F","G","H","I","J","K","L","M","N","O","P","Q","R","S","T","U","V","W","X","Y","Z",
              "0","1","2","3","4","5","6","7","8","9",
              "\"", "_", "-", "/", ".", "^", "#", "*", "@"}
SingleTok == {"}", "{", ":", ")", "(", "~", ","}          \* one-character tokens that never combine
Chars(s) == [i \in 1..Len(s) |-> Ch(s, i)]
\* re.findall over  \[\[|\[|\]\]|\]|}|{|:  |  \)|\(|~  |  \?+|&&|\|\||,|[word]+ ; anything else is skipped.
\* One character at a time: `pend` is the token being read -- a run of word characters ("w"), a run
\* of "?" ("q"), or a single "[", "]", "&", "|" that may still double.
L0 == [out |-> <<>>, mode |-> "", pend |-> ""]
LEmit(ls, t) == [out |-> Append(ls.out, t), mode |-> "", pend |-> ""]
LFlush(ls) == IF ls.mode \in {"w", "q", "[", "]"} THEN LEmit(ls, ls.pend) ELSE [ls EXCEPT !.mode = "", !.pend = ""]
LFresh(ls, c) == IF c \in {"[", "]", "&", "|"} THEN [ls EXCEPT !.mode = c, !.pend = c]
                 ELSE IF c \in SingleTok THEN LEmit(ls, c)
                 ELSE IF c = "?" THEN [ls EXCEPT !.mode = "q", !.pend = c]
                 ELSE IF c \in WordChars THEN [ls EXCEPT !.mode = "w", !.pend = c]
                 ELSE ls
LStep(ls, c) == IF ls.mode = "w" /\ c \in WordChars THEN [ls EXCEPT !.pend = @ \o c]
                ELSE IF ls.mode = "q" /\ c = "?" THEN [ls EXCEPT !.pend = @ \o c]
                ELSE IF ls.mode \in {"[", "]", "&", "|"} /\ c = ls.mode THEN LEmit(ls, ls.pend \o c)
                ELSE LFresh(LFlush(ls), c)
Tokenize(s) == LFlush(FoldLeft(LStep, L0, Chars(s))).out

Kind(t) == CASE t \in {",", "&&"} -> "and"
             [] t = "||" -> "or"
             [] t = "~" -> "neg"
             [] t \in {"?", "??", "???"} -> "wild"
             [] t \in {"(", ")", "[", "]", "{", "}", ":"} -> t
             [] OTHER -> "tag"            \* includes "[[", "]]", "????", "@x"
HasQ(t) == \E i \in 1..Len(t) : Ch(t, i) = "?"
HasGroupChar(t) == \E i \in 1..Len(t) : Ch(t, i) \in GroupChars

Closer(o) == CASE o = "(" -> ")" [] o = "[" -> "]" [] o = "{" -> "}"
BStep(b, c) == IF ~b.ok THEN b
               ELSE IF c \in {"(", "[", "{"} THEN [b EXCEPT !.st = Append(@, c)]
               ELSE IF c \in {")", "]", "}"} THEN
                    (IF b.st # <<>> /\ Closer(b.st[Len(b.st)]) = c THEN [b EXCEPT !.st = SubSeq(@, 1, Len(@) - 1)]
                     ELSE [b EXCEPT !.ok = FALSE])
               ELSE b
\* the grouping symbols of the text are properly nested
Balanced(s) == LET b == FoldLeft(BStep, [ok |-> TRUE, st |-> <<>>], Chars(s)) IN b.ok /\ b.st = <<>>

\* Expression.__init__: how the text of a term token selects the matching mode
\* ("@term" = must-not-occur is outside the property's grammar; the "@" is only stripped here)
AtomOf(t) ==
    LET t1 == IF Len(t) > 0 /\ Ch(t, 1) = "@" THEN SubSeq(t, 2, Len(t)) ELSE t
        quoted == Len(t1) > 2 /\ Ch(t1, 1) = "\"" /\ Ch(t1, Len(t1)) = "\""
        t2 == IF quoted THEN SubSeq(t1, 2, Len(t1) - 1) ELSE t1
        star == \E i \in 1..Len(t2) : Ch(t2, i) = "*"
        slash == \E i \in 1..Len(t) : Ch(t, i) = "/"
        t3 == FoldLeft(LAMBDA acc, c : IF c = "*" THEN acc ELSE acc \o c, "", Chars(t2))
    IN [op |-> IF star THEN "prefix" ELSE IF quoted \/ slash THEN "exact" ELSE "term", t |-> t3]

(* ---- the parser as a pushdown automaton -------------------------------- *)
\* lenient = TRUE: the behaviour of _handle_grouping_op, which takes ANY token that is not an
\* opening symbol as a search term; lenient = FALSE: what the property requires (a token made of
\* grouping symbols is never a term).
Frame(k, neg) == [k |-> k, neg |-> neg, w |-> FALSE, n |-> FALSE, colon |-> FALSE]
P0 == [st |-> "opnd", stack |-> <<Frame("top", FALSE)>>, pend |-> FALSE, ac |-> FALSE, bad |-> ""]
PTop(ps) == ps.stack[Len(ps.stack)]
PRej(ps) == [ps EXCEPT !.st = "rej"]
PMark(ps, w, n) == [ps EXCEPT !.stack[Len(ps.stack)].w = @ \/ w, !.stack[Len(ps.stack)].n = @ \/ n]
PPop(ps) == LET f == PTop(ps)
                rest == SubSeq(ps.stack, 1, Len(ps.stack) - 1)
            IN IF (f.colon /\ f.n) \/ (f.neg /\ f.w) THEN PRej(ps)      \* "~" inside { : } ; "~" over a wildcard
               ELSE PMark([ps EXCEPT !.stack = rest, !.st = "optr", !.ac = FALSE, !.pend = FALSE], f.w, f.n)
PStep(ps, t, lenient) ==
    IF ps.st = "rej" THEN ps
    ELSE IF ps.st = "opnd" THEN
        IF ps.ac /\ t = "}" THEN PPop(ps)                                  \* { a : }
        ELSE IF ~ps.pend /\ t = "~" THEN PMark([ps EXCEPT !.pend = TRUE, !.ac = FALSE], FALSE, TRUE)
        ELSE IF t \in {"(", "[", "{"} THEN [ps EXCEPT !.stack = Append(@, Frame(t, ps.pend)), !.pend = FALSE, !.ac = FALSE]
        ELSE IF ~lenient /\ HasGroupChar(t) THEN PRej(ps)
        ELSE IF ps.pend /\ HasQ(t) THEN PRej(ps)
        ELSE PMark([ps EXCEPT !.st = "optr", !.pend = FALSE, !.ac = FALSE,
                              !.bad = IF @ = "" /\ HasGroupChar(t) THEN t ELSE @], HasQ(t), t = "~")
    ELSE \* "optr": an operand has just been completed
        IF Kind(t) \in {"and", "or"} THEN [ps EXCEPT !.st = "opnd"]
        ELSE LET f == PTop(ps) IN
             IF f.k \in {"(", "[", "{"} /\ t = Closer(f.k) THEN PPop(ps)
             ELSE IF f.k = "{" /\ ~f.colon /\ t = ":"
                  THEN [ps EXCEPT !.stack[Len(ps.stack)].colon = TRUE, !.st = "opnd", !.ac = TRUE]
             ELSE PRej(ps)
PRun(ts, lenient) == FoldLeft(LAMBDA ps, t : PStep(ps, t, lenient), P0, ts)
PAccepts(ps) == ps.st = "optr" /\ Len(ps.stack) = 1
Accepts(text, lenient) == PAccepts(PRun(Tokenize(text), lenient))
\* the grouping token the lenient parser swallowed as a term ("" if none)
Swallowed(text) == PRun(Tokenize(text), TRUE).bad

(* ---- the parser as the recursive descent of query_handler.py ----------- *)
RFail == [ok |-> FALSE, pos |-> 0, w |-> FALSE, n |-> FALSE]
TokAt(ts, i) == IF i <= Len(ts) THEN ts[i] ELSE ""       \* "" is never a token
RECURSIVE ROr(_, _, _), ROrLoop(_, _, _), RAnd(_, _, _), RAndLoop(_, _, _), RNeg(_, _, _), RGrp(_, _, _)
RJoin(r, x) == [ok |-> TRUE, pos |-> x.pos, w |-> r.w \/ x.w, n |-> r.n \/ x.n]
ROr(ts, p, len) == LET r == RAnd(ts, p, len) IN IF r.ok THEN ROrLoop(ts, r, len) ELSE RFail
ROrLoop(ts, r, len) == IF Kind(TokAt(ts, r.pos + 1)) = "or" /\ r.pos + 1 <= Len(ts)
                       THEN LET x == RAnd(ts, r.pos + 1, len) IN IF x.ok THEN ROrLoop(ts, RJoin(r, x), len) ELSE RFail
                       ELSE r
RAnd(ts, p, len) == LET r == RNeg(ts, p, len) IN IF r.ok THEN RAndLoop(ts, r, len) ELSE RFail
RAndLoop(ts, r, len) == IF Kind(TokAt(ts, r.pos + 1)) = "and" /\ r.pos + 1 <= Len(ts)
                        THEN LET x == RNeg(ts, r.pos + 1, len) IN IF x.ok THEN RAndLoop(ts, RJoin(r, x), len) ELSE RFail
                        ELSE r
RNeg(ts, p, len) == IF TokAt(ts, p + 1) = "~"
                    THEN LET r == RGrp(ts, p + 1, len) IN IF r.ok /\ ~r.w THEN [r EXCEPT !.n = TRUE] ELSE RFail
                    ELSE RGrp(ts, p, len)
RGrp(ts, p, len) ==
    LET t == TokAt(ts, p + 1) IN
    IF t \in {"(", "["} THEN
        LET r == ROr(ts, p + 1, len) IN
        IF r.ok /\ TokAt(ts, r.pos + 1) = Closer(t) THEN [r EXCEPT !.pos = @ + 1] ELSE RFail
    ELSE IF t = "{" THEN
        LET r == ROr(ts, p + 1, len) IN
        IF ~r.ok THEN RFail
        ELSE IF TokAt(ts, r.pos + 1) = "}" THEN [r EXCEPT !.pos = @ + 1]
        ELSE IF TokAt(ts, r.pos + 1) = ":" THEN
            IF TokAt(ts, r.pos + 2) = "}" THEN (IF r.n THEN RFail ELSE [r EXCEPT !.pos = @ + 2])
            ELSE LET o == ROr(ts, r.pos + 1, len) IN
                 IF o.ok /\ TokAt(ts, o.pos + 1) = "}" /\ ~r.n /\ ~o.n
                 THEN [ok |-> TRUE, pos |-> o.pos + 1, w |-> r.w \/ o.w, n |-> FALSE] ELSE RFail
        ELSE RFail
    ELSE IF p + 1 > Len(ts) THEN RFail                                  \* "Parse error in get next token"
    ELSE IF ~len /\ HasGroupChar(t) THEN RFail
    ELSE [ok |-> TRUE, pos |-> p + 1, w |-> HasQ(t), n |-> t = "~"]
RDAccepts(ts, len) == LET r == ROr(ts, 0, len) IN r.ok /\ r.pos = Len(ts)

(* =================== state machines (generators) ====================== *)
CONSTANTS Labels,      \* tags (short forms) used when growing annotations
          LabelTerms,  \* [tag -> set of casefolded terms on its schema path]
          MaxNodes, MaxDepth,
          Alphabet,    \* lexemes used when growing query texts
          MaxToks
VARIABLES tree,        \* the annotation
          toks         \* the query text as a sequence of lexemes
vars == <<tree, toks>>

\* ---- all annotations: append one node at a time in document order
InitTrees == tree = EmptyTree /\ toks = <<>>
Grow == /\ tree.n < MaxNodes
        /\ \E p \in OpenGroups(tree), l \in Labels \cup {GRP} :
              /\ Depth(tree, p) + 1 <= MaxDepth
              /\ tree' = AddNode(tree, p, l, IF l = GRP THEN {} ELSE LabelTerms[l])
        /\ UNCHANGED toks
SpecTrees == InitTrees /\ [][Grow]_vars

\* ---- all query texts: append one lexeme at a time
JoinWith(ts, sep) == FoldLeft(LAMBDA acc, t : IF acc = "" THEN t ELSE acc \o sep \o t, "", ts)
InitTexts == tree = EmptyTree /\ toks = <<>>
Type == /\ Len(toks) < MaxToks
        /\ \E t \in Alphabet : toks' = Append(toks, t)
        /\ UNCHANGED tree
SpecTexts == InitTexts /\ [][Type]_vars
Texts == {JoinWith(toks, ""), JoinWith(toks, " ")}

\* parser invariants (every state = one lexeme sequence, written with and without blanks)
PDAEqualsRD == \A s \in Texts : \A len \in BOOLEAN :
                  Accepts(s, len) = RDAccepts(Tokenize(s), len)
UnbalancedRejected == \A s \in Texts : Accepts(s, FALSE) => Balanced(s)
\* the same claim for the behaviour of the code (does NOT hold: ")" alone compiles) -- sensitivity / finding
UnbalancedRejectedLenient == \A s \in Texts : Accepts(s, TRUE) => Balanced(s)
StrictImpliesLenient == \A s \in Texts : Accepts(s, FALSE) => Accepts(s, TRUE)
====
