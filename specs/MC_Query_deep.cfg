CONSTANTS
  LabelTerms <- AbsTerms
  Variant = "ok"
  Labels <- L3
  MaxNodes = 5
  MaxDepth = 4
  Alphabet <- AlphaCore
  MaxToks = 1
  USize = 2
SPECIFICATION SpecTrees
INVARIANT OrIff
INVARIANT AndOnlyIfBoth
INVARIANT AndSymmetric
INVARIANT AndAssociative
INVARIANT AndDistinctTags
INVARIANT SiblingOrderInvariant
