---- MODULE MC_Remodel ----
(* Bounded models of Remodel.tla: the operation lists "generated from the JSON specification"
   (every flag setting, every optional parameter present/absent, structural faults, rule violations),
   small tables (n/a, numeric-looking and duplicate values, different column sets) and the emission
   of cases for the replay harness (vf/props/c17.py). *)
EXTENDS Remodel, Json

B == BOOLEAN
W(o) == o @@ [fault |-> NoFault]

(* ---------------- operation instances ---------------- *)
RR(c, v) == W([op |-> "remove_rows", column_name |-> c, remove_values |-> v])
RC(cs, ig) == W([op |-> "remove_columns", column_names |-> cs, ignore_missing |-> ig])
RN(m, ig) == W([op |-> "rename_columns", column_mapping |-> m, ignore_missing |-> ig])
RO(co, ig, ko) == W([op |-> "reorder_columns", column_order |-> co, ignore_missing |-> ig, keep_others |-> ko])
FC0(c) == W([op |-> "factor_column", column_name |-> c])
FCv(c, v) == W([op |-> "factor_column", column_name |-> c, factor_values |-> v])
FCvn(c, v, n) == W([op |-> "factor_column", column_name |-> c, factor_values |-> v, factor_names |-> n])
FCn(c, n) == W([op |-> "factor_column", column_name |-> c, factor_names |-> n])
RM(s, d, ml, ig) == W([op |-> "remap_columns", source_columns |-> s, destination_columns |-> d, map_list |-> ml,
                       ignore_missing |-> ig])
RMi(s, d, ml, ig, is) == W([op |-> "remap_columns", source_columns |-> s, destination_columns |-> d, map_list |-> ml,
                            ignore_missing |-> ig, integer_sources |-> is])
MG(c, code, sd, ig) == W([op |-> "merge_consecutive", column_name |-> c, event_code |-> code, set_durations |-> sd,
                          ignore_missing |-> ig])
MGm(c, code, sd, ig, mc) == W([op |-> "merge_consecutive", column_name |-> c, event_code |-> code, set_durations |-> sd,
                               ignore_missing |-> ig, match_columns |-> mc])
EV(nm, on, du) == [name |-> nm, onset_source |-> on, duration |-> du]
EVc(nm, on, du, cc) == [name |-> nm, onset_source |-> on, duration |-> du, copy_columns |-> cc]
SP(a, evs, rp) == W([op |-> "split_rows", anchor_column |-> a, new_events |-> evs, remove_parent_row |-> rp])

RemoveRowsOps == {RR(c, v) : c \in {"a", "z"}, v \in {<<"x">>, <<"x", "1">>, <<"y", "q">>}}
RemoveColumnsOps == {RC(cs, ig) : cs \in {<<"a">>, <<"b", "onset">>, <<"a", "z">>, <<"z">>}, ig \in B}
RenameOps == {RN(m, ig) : m \in {<< <<"a", "m">> >>, << <<"a", "b">>, <<"b", "a">> >>, << <<"a", "m">>, <<"z", "n">> >>,
                                 << <<"b", "n">>, <<"a", "m">> >>}, ig \in B}
ReorderOps == {RO(co, ig, ko) : co \in {<<"b", "a">>, <<"b">>, <<"b", "z">>, <<"z", "a">>}, ig \in B, ko \in B}
FactorOps == {FC0(c) : c \in {"a", "b", "duration"}}
             \cup {FCv("a", v) : v \in {<<"x">>, <<"x", "1">>, <<"q">>}}
             \cup {FCvn("a", <<"x">>, <<"m">>), FCvn("a", <<"x", "1">>, <<"m", "n">>), FCvn("b", <<"y", "x">>, <<"n", "m">>)}
\* (last: a key no table holds is listed twice with different values - the rows of the other keys are still prescribed)
MapA == {<< <<"x", "X">>, <<"y", "Y">> >>, << <<"x", "X">>, <<"1", "I">>, <<"y", "Y">> >>, << <<"1", "I">> >>,
         << <<"q", "Q1">>, <<"q", "Q2">>, <<"x", "X">>, <<"y", "Y">>, <<"1", "I">> >>}
RemapOps == {RM(<<"a">>, <<"m">>, ml, ig) : ml \in MapA, ig \in B}
            \cup {RM(<<"a", "b">>, <<"m", "n">>, << <<"x", "x", "P", "Q">>, <<"x", "y", "R", "S">>, <<"1", "n/a", "T", "U">> >>, ig) : ig \in B}
            \cup {RM(<<"a", "b">>, <<"m">>, << <<"x1", "1", "P">>, <<"x", "y", "Q">> >>, ig) : ig \in B}      \* (x1,1) is not (x,11)
            \cup {RM(<<"a">>, <<"b", "m">>, << <<"x", "X", "P">>, <<"y", "Y", "Q">>, <<"1", "I", "R">> >>, ig) : ig \in B}
            \cup {RMi(<<"duration">>, <<"m">>, << <<"1", "one">>, <<"2", "two">>, <<"3", "three">> >>, ig, <<"duration">>) : ig \in B}
            \cup {RMi(<<"onset", "a">>, <<"m">>, << <<"1", "x", "P">>, <<"2", "x", "Q">>, <<"3", "1", "R">> >>, ig, <<"onset">>) : ig \in B}
MergeOps == {MG(c, "x", sd, ig) : c \in {"a", "z"}, sd \in B, ig \in B}
            \cup {MGm(c, "x", sd, ig, mc) : c \in {"a", "z"}, sd \in B, ig \in B, mc \in {<<>>, <<"b">>, <<"b", "z">>}}
            \cup {MGm("b", "x", sd, TRUE, <<"a">>) : sd \in B}
Evs1 == << EV("e", <<"0">>, <<"1">>) >>
Evs2 == << EVc("e", <<"1">>, <<"duration">>, <<"b">>) >>
Evs3 == << EVc("e", <<"duration">>, <<"0">>, <<"b">>), EV("f", <<"1", "duration">>, <<"2", "1">>) >>
Evs4 == << EV("e", <<"z">>, <<"1">>) >>
Evs5 == << EVc("e", <<"2">>, <<"1", "z">>, <<"b">>) >>
SplitOps == {SP(a, evs, rp) : a \in {"a", "w"}, evs \in {Evs1, Evs2, Evs3, Evs4, Evs5}, rp \in B}

RunnableOps == RemoveRowsOps \cup RemoveColumnsOps \cup RenameOps \cup ReorderOps \cup FactorOps
               \cup RemapOps \cup MergeOps \cup SplitOps

(* rule violations (well-typed JSON, rejected by the per-operation rules) *)
RuleBreakers == {FCn("a", <<"m">>),                                    \* names without values (also dependentRequired)
                 FCvn("a", <<"x", "1">>, <<"m">>),                      \* lengths differ
                 RM(<<"a">>, <<"m">>, << <<"x", "X">>, <<"y">> >>, TRUE),       \* a map row of the wrong length
                 RM(<<"a">>, <<"m", "n">>, << <<"x", "X">> >>, FALSE),
                 RMi(<<"a">>, <<"m">>, << <<"x", "X">> >>, TRUE, <<"b">>),     \* integer source that is no source
                 MGm("a", "x", FALSE, TRUE, <<"b", "a">>)}                      \* anchor among the match columns

(* structural faults: one base instance per operation (all optional parameters present) x every parameter x every fault *)
Base == [remove_rows |-> RR("a", <<"x", "y">>),
         remove_columns |-> RC(<<"a", "b">>, TRUE),
         rename_columns |-> RN(<< <<"a", "m">>, <<"b", "n">> >>, TRUE),
         reorder_columns |-> RO(<<"b", "a">>, TRUE, TRUE),
         factor_column |-> FCvn("a", <<"x", "1">>, <<"m", "n">>),
         remap_columns |-> RMi(<<"a", "duration">>, <<"m">>, << <<"x", "1", "P">>, <<"x", "2", "Q">> >>, TRUE, <<"duration">>),
         merge_consecutive |-> MGm("a", "x", FALSE, TRUE, <<"b", "c">>),
         split_rows |-> SP("a", << EVc("e", <<"1", "duration">>, <<"2", "duration">>, <<"b", "c">>) >>, FALSE)]
Sized(t) == t \in {"array", "object"}
ParamFaults(op) ==
  {[Base[op] EXCEPT !.fault = [f |-> f, p |-> p]] :
      <<f, p>> \in {<<f, p>> \in {"missing", "wrongtype", "empty", "dup", "baditem"} \X ParamNames(op) :
                      /\ f \in {"empty"} => Sized(PSpec[op][p].t)
                      /\ f \in {"dup", "baditem"} => PSpec[op][p].t = "array" \/ (f = "baditem" /\ PSpec[op][p].t = "object")}}
  \cup {[Base[op] EXCEPT !.fault = [f |-> "extra", p |-> "bogus"]]}
  \cup {[Base[op] EXCEPT !.fault = [f |-> f, p |-> ""]] : f \in ItemFaults}
EvFaults == {[Base["split_rows"] EXCEPT !.fault = [f |-> f, p |-> p]] :
               f \in {"ev-missing", "ev-wrongtype", "ev-empty", "ev-dup"}, p \in DOMAIN EvSpec}
            \cup {[Base["split_rows"] EXCEPT !.fault = [f |-> "ev-extra", p |-> "bogus"]]}
FaultyOps == UNION {ParamFaults(op) : op \in OpNames} \cup EvFaults
\* the same optional-parameter omissions on instances that differ in their flags
OptionalOmitted == {[o EXCEPT !.fault = [f |-> "missing", p |-> "match_columns"]] : o \in {MGm("a", "x", sd, ig, <<"b">>) : sd \in B, ig \in B}}

Singles(S) == {<<o>> : o \in S}
UnitOpLists == Singles(RunnableOps \cup RuleBreakers \cup FaultyOps \cup OptionalOmitted) \cup {<<>>}

(* lists of 2-3 operations: composition through the n/a <-> NaN conversion around every step, and state carried over *)
SeqPool == {RR("a", <<"y">>),
            RC(<<"c", "z">>, TRUE),
            RN(<< <<"b", "n">> >>, TRUE),
            RO(<<"b", "a">>, TRUE, TRUE),
            RO(<<"a">>, TRUE, FALSE),
            FCvn("a", <<"x">>, <<"m">>),
            RM(<<"a">>, <<"m">>, << <<"x", "X">>, <<"y", "Y">>, <<"1", "I">> >>, TRUE),
            MGm("a", "x", FALSE, TRUE, <<"b">>),
            MGm("a", "x", TRUE, TRUE, <<>>),
            FC0("m"),                       \* consumes the destination column of the remap above (its unmatched rows hold n/a)
            SP("a", Evs2, FALSE)}
SeqPoolBig == SeqPool \cup {RR("b", <<"x">>), RC(<<"b">>, FALSE), RN(<< <<"a", "b">>, <<"b", "a">> >>, FALSE),
                            RO(<<"c", "b">>, TRUE, TRUE), FC0("b"), FCv("a", <<"x", "1">>),
                            RM(<<"a", "b">>, <<"m", "n">>, << <<"x", "x", "P", "Q">>, <<"x", "y", "R", "S">>, <<"y", "x", "T", "U">> >>, TRUE),
                            MG("a", "x", FALSE, TRUE), SP("w", Evs3, TRUE), SP("a", Evs1, FALSE)}
Pairs(S) == {<<x, y>> : x \in S, y \in S}
\* a valid operation followed by a broken one: nothing of the list may run
HalfBroken == {<<RR("a", <<"x">>), [Base["remove_columns"] EXCEPT !.fault = [f |-> "missing", p |-> "ignore_missing"]]>>,
               <<RO(<<"b", "a">>, TRUE, TRUE), FCn("a", <<"m">>)>>,
               <<[Base["rename_columns"] EXCEPT !.fault = [f |-> "unknown-operation", p |-> ""]], RR("a", <<"x">>)>>,
               \* the SAME kind of operation twice, the FIRST one breaking its operation-specific rule
               <<FCvn("a", <<"x", "1">>, <<"m">>), FCvn("a", <<"x">>, <<"m">>)>>,
               <<RM(<<"a">>, <<"m">>, << <<"x", "X">>, <<"y">> >>, TRUE), RM(<<"a">>, <<"m">>, << <<"x", "X">> >>, TRUE)>>,
               <<RR("a", <<"y">>), FCn("a", <<"m">>), FCvn("a", <<"x">>, <<"n">>)>>}
SeqOpLists == Pairs(SeqPool) \cup HalfBroken
SeqOpListsBig == Pairs(SeqPoolBig) \cup HalfBroken
               \cup {<<x, y, z>> : x \in {RO(<<"b", "a">>, TRUE, TRUE), SP("a", Evs2, FALSE)},
                                   y \in SeqPool,
                                   z \in {RR("a", <<"y">>), RO(<<"a">>, TRUE, FALSE), FCvn("a", <<"x">>, <<"m">>),
                                          RM(<<"a">>, <<"m">>, << <<"x", "X">>, <<"y", "Y">>, <<"1", "I">> >>, TRUE),
                                          MGm("a", "x", TRUE, TRUE, <<>>)}}

(* ---------------- tables ---------------- *)
Row(cs, vs) == [c \in Range(cs) |-> vs[IndexOf(cs, c)]]
L1 == <<"onset", "duration", "a", "b">>
P1 == <<Row(L1, <<"1", "1", "x", "x">>), Row(L1, <<"2", "n/a", "x", "x">>), Row(L1, <<"2", "2", "x", "y">>),
        Row(L1, <<"3", "1", "1", "n/a">>), Row(L1, <<"4", "2", "n/a", "x">>), Row(L1, <<"5", "3", "y", "y">>)>>
\* a long event followed by shorter ones of the same code: the extent of a merged run is not the end of its last row
P7 == Row(L1, <<"1", "6", "x", "x">>)
P8 == Row(L1, <<"2", "1", "x", "x">>)
P9 == Row(L1, <<"4", "1", "x", "x">>)
P10 == Row(L1, <<"2", "6", "x", "x">>)
\* an event whose onset is not known
P11 == Row(L1, <<"n/a", "1", "x", "y">>)
\* values that read like another key when written one after the other
P12 == Row(L1, <<"1", "1", "x", "11">>)
P13 == Row(L1, <<"2", "1", "x1", "1">>)
Collide == {[cols |-> L1, rows |-> r] : r \in {<<P12>>, <<P13, P12>>, <<P1[3], P12>>}}
NoOnset == {[cols |-> L1, rows |-> r] : r \in {<<P11>>, <<P1[1], P11, P1[3]>>, <<P11, P1[1]>>}}
\* ... the longest event first, or in the MIDDLE of the run
LongFirst == {[cols |-> L1, rows |-> r] : r \in {<<P7, P8>>, <<P7, P8, P9>>, <<P1[1], P10, P9>>, <<P1[6], P1[1], P10, P9, P1[6]>>}}
L2 == <<"b", "a", "c">>
P2 == <<Row(L2, <<"x", "x", "1">>), Row(L2, <<"y", "x", "1">>), Row(L2, <<"n/a", "1", "x">>), Row(L2, <<"x", "xy", "n/a">>)>>
L3 == <<"a">>
P3 == <<Row(L3, <<"x">>), Row(L3, <<"n/a">>), Row(L3, <<"1">>), Row(L3, <<"xy">>)>>
L4 == <<"duration", "c", "a", "onset", "b">>
P4 == <<Row(L4, <<"1", "p", "x", "1", "x">>), Row(L4, <<"1", "q", "x", "2", "x">>), Row(L4, <<"n/a", "1", "y", "3", "n/a">>)>>
\* all row sequences of length <= n over the pool (duplicates included)
Seqs(pool, n) == UNION {[1..k -> Range(pool)] : k \in 0..n}
Tables(L, pool, n) == {[cols |-> L, rows |-> r] : r \in Seqs(pool, n)}
Pre(pool, k) == SubSeq(pool, 1, k)
TablesQuick == LongFirst \cup NoOnset \cup Collide \cup Tables(L1, Pre(P1, 5), 2) \cup Tables(L2, P2, 2) \cup Tables(L3, P3, 2) \cup Tables(L4, P4, 1)
               \cup {[cols |-> L1, rows |-> r] : r \in {<<P1[1], P1[2], P1[3]>>, <<P1[1], P1[3], P1[3], P1[6]>>, <<P1[4], P1[1], P1[1], P1[2]>>}}
TablesThorough == LongFirst \cup NoOnset \cup Collide \cup Tables(L1, P1, 3) \cup Tables(L2, P2, 3) \cup Tables(L3, P3, 3) \cup Tables(L4, P4, 3)
                  \cup {[cols |-> L1, rows |-> r] : r \in {<<P1[1], P1[3], P1[3], P1[6]>>, <<P1[4], P1[1], P1[1], P1[2]>>, <<P1[1], P1[1], P1[2], P1[3], P1[3]>>}}
UnitTuplesQuick == {<<t>> : t \in TablesQuick}
UnitTuplesThorough == {<<t>> : t \in TablesThorough}

T(L, pool, idx) == [cols |-> L, rows |-> [i \in DOMAIN idx |-> pool[idx[i]]]]
TA == T(L1, P1, <<1, 2, 3, 6>>)
TB == T(L2, P2, <<1, 2, 3>>)
TC == T(L4, P4, <<1, 2, 3>>)
TD == T(L3, P3, <<1, 1, 2>>)
TE == T(L1, P1, <<4, 1, 1>>)
TF == T(L2, P2, <<4, 4>>)
SeqTuplesQuick == {<<TA, TB>>, <<TC, TA, TD>>}
SeqTuplesThorough == {<<TA, TB>>, <<TC, TA, TD>>, <<TE, TF, TA>>, <<TD, TC, TB>>, <<TA>>}

(* ---------------- emission ---------------- *)
Finished == ~Valid(ops0) \/ Len(hist) = MaxRuns
Emit == Finished => PrintT("@@EMIT@@" \o ToJson([ops |-> ops0, tabs |-> tabs0, valid |-> Valid(ops0),
                                                   bad |-> BadOps(ops0),
                                                   order |-> [i \in DOMAIN hist |-> hist[i].f],
                                                   exp |-> [i \in DOMAIN hist |-> hist[i].res]]))
====
