CONSTANTS
  LabelTerms <- AbsTerms
  Variant = "ok"
  Labels <- L3
  MaxNodes = 1
  MaxDepth = 4
  Alphabet <- AlphaFull
  MaxToks = 4
  USize = 1
SPECIFICATION SpecTexts
INVARIANT EmitText
INVARIANT PDAEqualsRD
INVARIANT UnbalancedRejected
INVARIANT StrictImpliesLenient
