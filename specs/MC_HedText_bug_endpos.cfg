\* sensitivity run: broken variant endpos must violate an invariant
CONSTANTS
  N = 4
  Bug = "endpos"
SPECIFICATION Spec
INVARIANT Tiling
INVARIANT TokenClasses
INVARIANT AlgoMatchesDecl
INVARIANT RejectIffUnbalanced
INVARIANT UnbalancedEmpty
INVARIANT TreeMatchesDecl
INVARIANT FlatMatchesDecl
INVARIANT TagSlices
INVARIANT GroupSpans
INVARIANT RoundTrip
INVARIANT PrintStable
INVARIANT NoStuck
