\* sensitivity run: broken variant printsep must violate an invariant
CONSTANTS
  N = 4
  Bug = "printsep"
SPECIFICATION Spec
INVARIANT Tiling
INVARIANT TokenClasses
INVARIANT AlgoMatchesDecl
INVARIANT RejectIffUnbalanced
INVARIANT UnbalancedEmpty
INVARIANT TreeMatchesDecl
INVARIANT FlatMatchesDecl
INVARIANT TagSlices
INVARIANT GroupSpans
INVARIANT RoundTrip
INVARIANT PrintStable
CHECK_DEADLOCK TRUE
