---- MODULE MC_HedRules ----
EXTENDS HedRules, Json
KindsDef == {"p1", "p2", "v", "bad", "def", "on", "off", "dur", "del", "uq"}
SFlawsDef == {"none"}
SFlawsAll == {"none", "PARENTHESES_MISMATCH", "TAG_EMPTY", "COMMA_MISSING"}
Emit == PrintT("@@EMIT@@" \o ToJson([par |-> par, kind |-> kind, sflaw |-> sflaw, codes |-> Codes,
                                       nviol |-> Cardinality(Viol), viol |-> Viol]))
KindsStruct == {"p1", "def", "on", "off", "dur", "del", "uq"}
\* deep sampling: only clean and single-violation trees are of interest (what the statement fixes)
EmitFew == (Cardinality(Viol) <= 1 /\ n >= 4) => Emit
KindsDup == {"p1", "p2", "v", "def"}
EmitDup == (n >= 6 /\ EmptyGroup = {} /\ \E x \in Repeated : IsGroup(x[2]) /\ Cardinality(Kids(x[2])) >= 2) => Emit
====
