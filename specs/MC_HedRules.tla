---- MODULE MC_HedRules ----
EXTENDS HedRules, Json
KindsDef == {"p1", "p2", "v", "ext", "bad", "def", "on", "off", "dur", "del", "uq"}
SFlawsDef == {"none"}
SFlawsAll == {"none", "PARENTHESES_MISMATCH", "TAG_EMPTY", "COMMA_MISSING"}
Emit == PrintT("@@EMIT@@" \o ToJson([par |-> par, kind |-> kind, sflaw |-> sflaw, codes |-> Codes,
                                       nviol |-> Causes, viol |-> Viol]))
KindsStruct == {"p1", "def", "on", "off", "dur", "del", "uq"}
\* deep sampling: only clean and single-violation trees are of interest (what the statement fixes)
EmitFew == (Causes <= 1 /\ n >= 4) => Emit
KindsDup == {"p1", "p2", "v", "ext", "def"}
EmitDup == (n >= 6 /\ EmptyGroup = {} /\ \E x \in Repeated : IsGroup(x[2]) /\ Cardinality(Kids(x[2])) >= 2) => Emit
KindsTemporal == {"p1", "p2", "def", "on", "off", "dur", "del"}
\* a valid or single-cause tree that was built with at least one copy step and is large
EmitCopy == (Causes <= 1 /\ n >= 6) => Emit
Tr(p, k) == [par |-> p, kind |-> k]
BasesEmpty == {Tr(<<>>, <<>>)}
\* rule-conforming constructs of the statement: temporal / duration / delay / unique groups, plain and nested tags
BasesValid == {Tr(<<0, 1, 1>>, <<"g", "on", "def">>), Tr(<<0, 1, 1, 1, 4>>, <<"g", "def", "on", "g", "p1">>),
               Tr(<<0, 1, 1>>, <<"g", "def", "off">>), Tr(<<0, 1, 1, 3>>, <<"g", "dur", "g", "p1">>),
               Tr(<<0, 1, 1, 1, 4>>, <<"g", "del", "dur", "g", "p2">>), Tr(<<0, 1, 1, 1>>, <<"g", "del", "on", "def">>),
               Tr(<<0, 1, 1>>, <<"g", "uq", "p1">>), Tr(<<0, 0, 2, 2, 4>>, <<"p1", "g", "p2", "g", "def">>)}
EmitNear == (steps >= 1) => Emit
\* sibling groups that hold the same tags in different nesting ("confusable" siblings): a copy of any member must be
\* found although a different group with the same flattened content sits beside it
BasesConfusable == {Tr(<<0, 1, 1, 3, 0, 5, 6, 6, 8>>, <<"g", "p1", "g", "p2", "g", "g", "p1", "g", "p2">>),
                    Tr(<<0, 1, 1, 0, 4, 4, 6>>, <<"g", "p1", "p2", "g", "p1", "g", "p2">>),
                    Tr(<<0, 1, 1, 3, 0, 5, 6, 5>>, <<"g", "p1", "g", "p2", "g", "g", "p1", "p2">>),
                    Tr(<<0, 1, 2, 1, 4, 0, 6, 7, 7>>, <<"g", "g", "p1", "g", "p2", "g", "g", "p1", "p2">>),
                    Tr(<<0, 1, 2, 2, 4, 1, 6, 7, 7, 9>>, <<"g", "g", "p1", "g", "p2", "g", "g", "p1", "g", "p2">>),
                    Tr(<<0, 1, 1, 3, 0, 5, 5, 7, 8>>, <<"g", "p1", "g", "v", "g", "p1", "g", "g", "v">>)}
KindsPlain == {"p1", "p2", "ext"}
\* "dex": the Def-expand group of the very definition (and value) the tree's Def tags use - an element of its own as far as the
\* rules of this module go (the configuration holds no Onset / Offset, where it would count as the definition)
KindsDex == {"p1", "def", "dex"}
\* the group rules of Delay / Duration with a SECOND tag of the same name and another value
KindsTL == {"p1", "def", "on", "dur", "del", "del2", "dur2"}
BasesTL == {Tr(<<0, 1, 1, 3>>, <<"g", "dur", "g", "p1">>), Tr(<<0, 1, 1, 1, 4>>, <<"g", "del", "dur", "g", "p1">>),
            Tr(<<0, 1, 1, 1>>, <<"g", "del", "on", "def">>), Tr(<<0, 1, 1, 3>>, <<"g", "del", "g", "p1">>),
            Tr(<<0, 1, 1, 1, 4>>, <<"g", "del2", "dur2", "g", "p1">>)}
====
