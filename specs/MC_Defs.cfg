CONSTANTS
  MaxObjs = 3
  MaxOps = 6
  Templates <- TemplatesDef
  MAINTAIN = TRUE
SPECIFICATION Spec
VIEW View
INVARIANT WellNested
PROPERTY ExpandAll
PROPERTY ShrinkAll
PROPERTY NoAlias
